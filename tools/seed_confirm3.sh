#!/bin/bash
# tools/seed_confirm3.sh <ID> <worktree> [check ids...]
# Round-3 confirmation of a seeded change, done in the scratch worktree the sub-agent worked in
# (outside /repo and /verif; its build output is reused so the suite need not be recompiled):
#   1. the worktree is reset to HEAD and /tmp/seed3/out-<ID>/patch.diff is applied afresh (so what is
#      confirmed is the delivered patch, not whatever the agent left behind);
#   2. the demo is run with the change (must fail);
#   3. the repository suite is run with the change (must be 405 passed / 1 failed = baseline);
#   4. our quick checks are run against the worktree (tools/check_against.sh);
#   5. the change is reverted and the demo run again (must pass).
ID="$1"; W="$2"; shift 2
OUT=/tmp/seed3/out-$ID; LOG=/tmp/seed3/confirm-$ID.log
export CARGO_TARGET_DIR=$W-target
META=$OUT/meta.json
DEST=$(python3 -c "import json;print(json.load(open('$META'))['demo_dest'])")
PKG=$(python3 -c "import json;print(json.load(open('$META'))['demo_package'])")
TEST=$(python3 -c "import json;print(json.load(open('$META'))['demo_test'])")
cd $W || exit 2
: > $LOG
# if the worktree already carries exactly the delivered patch, keep the files (and their mtimes, so
# the agent's build output is reused); otherwise reset and apply the delivered patch afresh
rm -f $DEST
A=$(git diff | git patch-id | cut -d' ' -f1); B=$(git patch-id < $OUT/patch.diff | cut -d' ' -f1)
if [ "$A" = "$B" ] && [ -n "$A" ]; then echo "worktree diff == delivered patch (patch-id $A)" >> $LOG; else
git checkout -q -- . && git clean -fdq
git apply $OUT/patch.diff 2>/dev/null || git apply --3way $OUT/patch.diff || { echo "PATCH DOES NOT APPLY" | tee -a $LOG; exit 1; }
fi
git diff --stat | tail -3 >> $LOG
mkdir -p "$(dirname $DEST)"; cp $OUT/demo.rs $DEST
echo "== demo WITH change" >> $LOG
cargo test -p $PKG --offline --test $TEST 2>&1 | grep -E "^test result|^test .* (ok|FAILED)|^error" >> $LOG
if [ -z "${SKIP_SUITE:-}" ]; then
echo "== suite WITH change (incl. demo)" >> $LOG
cargo nextest run --workspace --lib --tests --no-fail-fast --test-threads 8 --offline 2>&1 | grep -E "Summary|^\s+FAIL" | sort -u >> $LOG
fi
for c in "$@"; do
  echo "== check $c quick against the change" >> $LOG
  /verif/tools/check_against.sh $W $c quick > /tmp/seed3/confirm-check-$ID.out 2>&1; echo "exit=$?" >> $LOG
  grep -E "^$c|MACHINERY|unattributed" /tmp/seed3/confirm-check-$ID.out | cut -c1-300 >> $LOG
  grep -E "VIOLATION" /tmp/seed3/confirm-check-$ID.out | head -2 >> $LOG
  grep -E "KNOWN|^    +[0-9]+  " /tmp/seed3/confirm-check-$ID.out | cut -c1-300 | head -8 >> $LOG
done
git apply -R $OUT/patch.diff 2>/dev/null || git checkout -q -- .
echo "== demo WITHOUT change" >> $LOG
cargo test -p $PKG --offline --test $TEST 2>&1 | grep -E "^test result|^test .* (ok|FAILED)|^error" >> $LOG
echo "== done" >> $LOG
cat $LOG
