#!/usr/bin/env python3
"""Regenerate harness/src/props/mod.rs and harness/src/reference/mod.rs from the files present
(used to resolve merge conflicts between implementer branches)."""
import os, re
root='/verif/harness/src'
props=sorted(f[:-3] for f in os.listdir(root+'/props') if re.fullmatch(r'c\d\d\.rs', f))
helpers=[h for h in ['common','qgen','ugen'] if os.path.exists(f'{root}/props/{h}.rs')]
with open(root+'/props/mod.rs','w') as f:
    f.write('//! One module per property.\nuse crate::infra::PropDef;\n\n')
    for h in helpers: f.write(f'pub mod {h};\n')
    for p in props: f.write(f'pub mod {p};\n')
    f.write('\npub fn all() -> &\'static [PropDef] {\n    static ALL: &[PropDef] = &['+', '.join(f'{p}::DEF' for p in props)+'];\n    ALL\n}\n\n')
    f.write('/// For the totality properties a worker that dies from a signal is itself a verdict.\npub fn crash_is_violation(id: &str) -> bool {\n    matches!(id, "C16" | "C17")\n}\n')
refs=sorted(f[:-3] for f in os.listdir(root+'/reference') if f.endswith('.rs') and f!='mod.rs')
with open(root+'/reference/mod.rs','w') as f:
    f.write('//! Reference models. They never call Kolibrie code.\n')
    for r in refs: f.write(f'pub mod {r};\n')
    f.write('\n/// Self-tests of the reference models against hand-computed micro cases.\npub fn selftest() -> Vec<String> {\n    let mut errs = Vec::new();\n')
    for r in refs:
        src=open(f'{root}/reference/{r}.rs').read()
        if re.search(r'pub fn selftest\(\)', src): f.write(f'    errs.extend({r}::selftest());\n')
    f.write('    errs\n}\n')
print('props:',props,'refs:',refs)
