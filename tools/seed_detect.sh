#!/bin/bash
# tools/seed_detect.sh <ID> <check ids...>
# Detection run for a seeded change: a scratch worktree of /repo's CURRENT HEAD (so that defects
# already repaired by fix: commits do not blur the verdict) carrying /tmp/seed3/out-<ID>/patch.diff
# (or /verif/seeded/<ID>/patch.diff), checked with the quick tier of the given checks through
# tools/check_against.sh. One slot (/tmp/seed3/det) is reused so the harness build is incremental.
ID="$1"; shift
P=/tmp/seed3/out-$ID/patch-on-current-head.diff; [ -f $P ] || P=/tmp/seed3/out-$ID/patch.diff; [ -f $P ] || P=/verif/seeded/$ID/patch-on-current-head.diff; [ -f $P ] || P=/verif/seeded/$ID/patch.diff
W=/tmp/seed3/det${DET_SLOT:-}; LOG=/tmp/seed3/detect-$ID.log
if [ ! -d $W ]; then git -C /repo worktree add -q --detach $W HEAD || exit 2; fi
cd $W && git reset -q --hard && git clean -fdq && git checkout -q --detach $(git -C /repo rev-parse HEAD)
: > $LOG
echo "repo HEAD $(git -C /repo rev-parse --short HEAD), verif HEAD $(git -C /verif rev-parse --short HEAD)" >> $LOG
git apply $P 2>/dev/null || git apply --3way $P 2>>$LOG || { echo "PATCH DOES NOT APPLY to current HEAD" | tee -a $LOG; exit 1; }
git diff --stat | tail -2 >> $LOG
for c in "$@"; do
  echo "== check $c quick against the change" >> $LOG
  /verif/tools/check_against.sh $W $c quick > /tmp/seed3/detect-$ID-$c.out 2>&1; echo "exit=$?" >> $LOG
  grep -E "^$c|MACHINERY|unattributed" /tmp/seed3/detect-$ID-$c.out | cut -c1-300 >> $LOG
  grep -E "VIOLATION" /tmp/seed3/detect-$ID-$c.out | head -2 >> $LOG
  grep -E "KNOWN|^    +[0-9]+  " /tmp/seed3/detect-$ID-$c.out | cut -c1-300 | head -8 >> $LOG
done
git reset -q --hard; git clean -fdq
cat $LOG
