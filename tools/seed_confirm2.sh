#!/bin/bash
# tools/seed_confirm.sh <ID> <demo destination relative to repo root> <package> <test name> [check ids...]
# Confirms a seeded change in the scratch worktree /tmp/seed/confirm: demo fails with the change and
# passes without it, the repository suite still passes with it, and runs our checks against it.
ID="$1"; DEST="$2"; PKG="$3"; TEST="$4"; shift 4
SLOT="${SLOT:-}"; W=/tmp/seed/confirm$SLOT; OUT=/tmp/seed/$ID-out; LOG=/tmp/seed/confirm-$ID.log
export CARGO_TARGET_DIR=/tmp/seed/confirm-target$SLOT
cd $W && git checkout -q -- . && git clean -fdq && git checkout -q --detach $(git -C /repo rev-parse HEAD)
: > $LOG
git apply $OUT/patch.diff 2>/dev/null || git apply --3way $OUT/patch.diff || { echo "PATCH DOES NOT APPLY" | tee -a $LOG; exit 1; }
mkdir -p "$(dirname $DEST)"; cp $OUT/demo.rs $DEST
echo "== demo WITH change" >> $LOG
cargo test -p $PKG --offline --test $TEST 2>&1 | grep -E "^test result|^test .* (ok|FAILED)|error" >> $LOG
echo "== suite WITH change (incl. demo)" >> $LOG
cargo nextest run --workspace --lib --tests --no-fail-fast --offline 2>&1 | grep -E "Summary|^\s+FAIL" | sort -u >> $LOG
for c in "$@"; do
  echo "== check $c quick against the change" >> $LOG
  /verif/tools/check_against.sh $W $c quick > /tmp/seed/confirm-check$SLOT.out 2>&1; echo "exit=$?" >> $LOG
  grep -E "^$c|MACHINERY|unattributed" /tmp/seed/confirm-check$SLOT.out | cut -c1-300 >> $LOG
  grep -E "VIOLATION" /tmp/seed/confirm-check$SLOT.out | head -2 >> $LOG
  grep -E "KNOWN|^    +[0-9]+  " /tmp/seed/confirm-check$SLOT.out | cut -c1-300 | head -8 >> $LOG
done
git apply -R $OUT/patch.diff 2>/dev/null || git checkout -q -- .
echo "== demo WITHOUT change" >> $LOG
cargo test -p $PKG --offline --test $TEST 2>&1 | grep -E "^test result|^test .* (ok|FAILED)|error" >> $LOG
rm -f $DEST; git checkout -q -- . ; git clean -fdq
echo "== done" >> $LOG
