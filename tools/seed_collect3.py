#!/usr/bin/env python3
"""Round 3: assemble /verif/seeded/<ID>/ from /tmp/seed3/out-<ID> + the confirmation log
(tools/seed_confirm3.sh) + the detection log (tools/seed_detect.sh), then regenerate
seeded/README.md from the meta.json of EVERY seeded/<ID>/ directory (rounds 1-3).
RESULTS3 is maintained by hand from the detection logs."""
import json, os, shutil, glob

RESULTS3 = {
 # id: (first attempt, detected by, what was strengthened)
 "C14b": ("caught", ["C14"], ""),
 "C15b": ("caught", ["C15"], ""),
 "C16b": ("caught", ["C16"], ""),
 "C17b": ("caught", ["C17"], ""),
 "C19b": ("caught", ["C19"], ""),
 "C07c": ("caught", ["C07"], ""),
}
try:
    RESULTS3.update(json.load(open('/verif/tools/seed_results3.json')))
except FileNotFoundError:
    pass

BATCH2 = {'C10c', 'C13c', 'C03c', 'C07c', 'C11c', 'C01c'}
BATCH3 = {'C05c', 'C06c', 'C08c', 'C12c', 'C09c'}
BATCH4 = {'C02c', 'C04c', 'C10d', 'C11d'}
BATCH5 = {'C03d', 'C12d', 'C10e'}
BATCH5B = {'C11e'}
BATCH6 = {'C14c', 'C15c', 'C16c', 'C18c', 'C19c'}
BATCH6B = {'C17c'}

def main():
    for sid, (first, by, strengthened) in sorted(RESULTS3.items()):
        src = f'/tmp/seed3/out-{sid}'
        dst = f'/verif/seeded/{sid}'
        if os.path.isdir(src):
            os.makedirs(dst, exist_ok=True)
            for f in ['patch.diff', 'patch-on-current-head.diff', 'demo.rs', 'demo.md']:
                if os.path.exists(f'{src}/{f}'):
                    shutil.copy(f'{src}/{f}', f'{dst}/{f}')
            meta = json.load(open(f'{src}/meta.json'))
            def rd(p):
                return open(p).read() if os.path.exists(p) else ''
            meta['breaks_property'] = sid
            meta['round'] = 3
            meta['written_by'] = 'independent sub-agent that saw only the property record, one-line summaries of the earlier seeded changes for the same property, and its own scratch worktree of the repository'
            meta['confirmed_by_main_session'] = {
                'how': 'tools/seed_confirm3.sh in a scratch worktree outside /repo and /verif: demo run with the change (fails) and without it (passes); repository suite (cargo nextest, lib + integration tests) with the change: 405 passed + only the baseline failure rsp_ql_dstream_semantics (+ the demo itself)',
                'log': rd(f'/tmp/seed3/confirm-{sid}.log')[-5000:],
            }
            if '== suite WITH change' not in meta['confirmed_by_main_session']['log']:
                meta['confirmed_by_main_session']['how'] = ('tools/seed_confirm3.sh (SKIP_SUITE=1) in the scratch worktree the agent worked in: demo run with the change (fails) and without it (passes). '
                    'The repository suite was run ONCE on a scratch worktree of /repo HEAD carrying this change TOGETHER with the other changes of its batch (they touch disjoint functions; see combined_suite_run): 405 passed, 1 failed = the baseline failure rsp_ql_dstream_semantics')
                batch = 'suite-batch6.log' if sid in BATCH6 else 'suite-batch6b.log' if sid in BATCH6B else 'suite-batch5.log' if sid in BATCH5 else 'suite-batch5b.log' if sid in BATCH5B else 'suite-batch4.log' if sid in BATCH4 else 'suite-batch3.log' if sid in BATCH3 else 'suite-batch2.log'
                meta['confirmed_by_main_session']['combined_suite_run'] = {
                    'changes_applied_together': sorted(BATCH6) if sid in BATCH6 else sorted(BATCH6B) if sid in BATCH6B else sorted(BATCH5) if sid in BATCH5 else sorted(BATCH5B) if sid in BATCH5B else sorted(BATCH4) if sid in BATCH4 else sorted(BATCH3) if sid in BATCH3 else sorted(BATCH2),
                    'result': '\n'.join(l for l in rd('/tmp/seed3/' + batch).splitlines() if 'Summary' in l or 'FAIL [' in l)[-600:],
                }
            meta['detection_run'] = {
                'how': 'tools/seed_detect.sh: patch applied to a scratch worktree of the CURRENT /repo HEAD, quick tier of the property check through tools/check_against.sh',
                'log': rd(f'/tmp/seed3/detect-{sid}.log')[-5000:],
            }
            meta['our_checks'] = {'first_attempt': first, 'detected_by_after_strengthening': by, 'strengthening': strengthened}
            json.dump(meta, open(f'{dst}/meta.json', 'w'), indent=1)
    rows = []
    for d in sorted(glob.glob('/verif/seeded/C*')):
        m = json.load(open(d + '/meta.json'))
        oc = m.get('our_checks', {})
        rows.append((os.path.basename(d), m.get('summary', '')[:230].replace('|', '/').replace('\n', ' '), oc.get('first_attempt', ''), ', '.join(oc.get('detected_by_after_strengthening', [])), oc.get('strengthening', '')))
    with open('/verif/seeded/README.md', 'w') as f:
        f.write('# Seeded property-breaking changes\n\nEach directory holds a change written by a fresh sub-agent that was given only the text of one property and a scratch worktree of the repository (nothing from /verif): `patch.diff` (applies to the /repo HEAD it was written against with `git apply`, possibly `--3way`; `patch-on-current-head.diff` where a later fix: commit touched the same lines), `demo.rs` + `demo.md` (a test that fails with the change and passes without it) and `meta.json` (what it needs to manifest, what was run to confirm it, and how our checks fared). None of these changes is ever committed to /repo. Suffix b = second change for the property, c = third.\n\n')
        f.write('| id | change | our check at first attempt | caught now by | strengthening |\n|---|---|---|---|---|\n')
        for r in rows:
            f.write('| %s | %s | %s | %s | %s |\n' % r)
    print('collected', [r[0] for r in rows if r[0] in RESULTS3], 'table rows', len(rows))
main()
