#!/usr/bin/env python3
"""Assemble /verif/seeded/<ID>/ from /tmp/seed/<ID>-out + the confirmation log, and regenerate seeded/README.md.
RESULTS below is maintained by hand from the confirmation / detection logs."""
import json, os, shutil, sys

RESULTS = {
 # id: (first attempt, detected by, what was strengthened)
 "C01": ("missed", ["C01"], "the 10-quad universe had no fan-in through merged FROM graphs and dataset clauses met only single patterns and five pairs; the universe quad (c p a | g2) became (c p b | g2) and FROM / FROM NAMED configurations are now applied to every pair of core elements and to VALUES decorations"),
 "C02": ("caught (2 cases, pool size 2 only)", ["C02"], "a 1099-row dataset was added so that every pool size splits the bind join unevenly; now caught for pool sizes 2,3,4,8,16"),
 "C03": ("caught", ["C03"], ""),
 "C04": ("caught", ["C04"], ""),
 "C05": ("caught", ["C05"], ""),
 "C06": ("caught", ["C06"], ""),
 "C07": ("caught", ["C07"], ""),
 "C08": ("caught", ["C08"], ""),
 "C09": ("caught", ["C09"], ""),
 "C10": ("missed", ["C10"], "streams of <=4 items never queue more than 3 firings; a long-stream family (12 items, producer far ahead of the worker) was added, and a reproducible scheduler stall (an item that was sent never reaches the worker) became a verdict"),
 "C11": ("missed", ["C11"], "the check covered SingleThread only; hook H1 was extended (named channels, coordinator thread, timed-receive expiry as a scheduling choice) and a MultiThread family over policies Wait/Steal/Timeout+Steal/Timeout+Drop was added"),
 "C13": ("caught", ["C13"], ""),
 "C14": ("caught", ["C14"], ""),
 "C15": ("caught", ["C15"], ""),
 "C16": ("missed", ["C16"], "no seed, token or generated literal contained a numeric escape; a literal escape matrix (every escape kind followed by closing quote / ASCII / multi-byte / another escape, as triple object, FILTER operand and VALUES term), unicode-escape tokens and seeds were added"),
 "C17": ("caught", ["C17"], ""),
 "C18": ("caught", ["C18"], ""),
 "C19": ("caught", ["C19"], ""),
 # ---- round 2: a second, independent change per property (the agent was told the first one's summary) ----
 "C01b": ("caught", ["C01"], ""),
 "C02b": ("caught", ["C02"], ""),
 "C03b": ("caught, but only because operations whose WHERE multiset holds identical solutions (UNION of the same branch, VALUES with a repeated row) had been added to the update alphabet shortly before this change arrived; the round-1 alphabet would have missed it", ["C03"], "blank-node templates over WHERE multisets with identical solutions (2 operations), added while reviewing the template-instantiation code"),
 "C04b": ("caught", ["C04"], ""),
 "C05b": ("caught", ["C05"], ""),
 "C06b": ("caught", ["C06"], ""),
 "C07b": ("caught", ["C07"], ""),
 "C08b": ("caught", ["C08"], ""),
 "C09b": ("caught", ["C09"], ""),
 "C10b": ("missed", ["C10"], "gaps {0,1,2} never exceed a window width, so no window ever closed empty between two non-empty firings; a sparse-stream family (gaps {1,5}, every operator x window x configuration, single- and multi-thread) was added: 94608 streams, 11664 of them with an empty firing between non-empty ones"),
 "C11b": ("missed", ["C11"], "every variant joined on at most one variable over IRIs; events now carry several triples and two variants were added: two WINDOW blocks joining on TWO variables over prefix-related literal values (\"1\"+\"23\" vs \"12\"+\"3\"), and a static part joining with a block on two variables"),
 "C12b": ("caught", ["C12"], ""),
 "C13b": ("missed", ["C13"], "documents declared a prefix once; a @prefix RE-BINDING kind was added (x: bound on line 0 and used up to the distinguished line, which re-binds x: for every later line) at every offset around every chunk boundary; the reference renderer now honours shadowed prefix names"),
 "C12": ("missed", ["C12"], "no rule set concluded into a window component; rule set 'xwin' (w2:p => w1:p) was added, so a listed fact can also be derived from a longer-lived listing"),
}

def main():
    os.makedirs('/verif/seeded', exist_ok=True)
    rows = []
    for sid, (first, by, strengthened) in sorted(RESULTS.items()):
        src = f'/tmp/seed/{sid}-out'
        dst = f'/verif/seeded/{sid}'
        if os.path.isdir(src):
            os.makedirs(dst, exist_ok=True)
            for f in ['patch.diff', 'demo.rs', 'demo.md']:
                if os.path.exists(f'{src}/{f}'):
                    shutil.copy(f'{src}/{f}', f'{dst}/{f}')
            meta = json.load(open(f'{src}/meta.json'))
            log = f'/tmp/seed/confirm-{sid}.log'
            confirm = open(log).read() if os.path.exists(log) else ''
            meta['breaks_property'] = sid
            meta['written_by'] = 'independent sub-agent that saw only the property record and its own scratch worktree of the repository'
            meta['confirmed_by_main_session'] = {
                'how': 'tools/seed_confirm.sh: patch applied to the scratch worktree /tmp/seed/confirm (outside /repo and /verif); demo run with and without the change; `cargo nextest run --workspace --lib --tests` with the change; our check run against the patched worktree through tools/check_against.sh',
                'log': confirm[-6000:],
            }
            meta['our_checks'] = {'first_attempt': first, 'detected_by_after_strengthening': by, 'strengthening': strengthened}
            json.dump(meta, open(f'{dst}/meta.json', 'w'), indent=1)
        if os.path.isdir(dst):
            m = json.load(open(f'{dst}/meta.json'))
            rows.append((sid, m.get('summary', '')[:230], first, ', '.join(by), strengthened))
    with open('/verif/seeded/README.md', 'w') as f:
        f.write('# Seeded property-breaking changes\n\nEach directory holds a change written by a fresh sub-agent that was given only the text of one property and a scratch worktree of the repository (nothing from /verif): `patch.diff` (applies to /repo HEAD with `git apply`, possibly `--3way`), `demo.rs` + `demo.md` (a test that fails with the change and passes without it) and `meta.json` (what it needs to manifest, what was run to confirm it, and how our checks fared). None of these changes is ever committed to /repo.\n\n')
        f.write('| id | change | our check at first attempt | caught now by | strengthening |\n|---|---|---|---|---|\n')
        for r in rows:
            f.write('| %s | %s | %s | %s | %s |\n' % r)
    print('collected', [r[0] for r in rows])
main()
