#!/usr/bin/env python3
"""Merge proposed/finding-*.json into known_findings.json (never run by a check; a central, manual step).

usage: tools/merge_findings.py [--fixed <finding-id-or-file-substring>=<commit> ...]
A finding whose fix was committed to /repo is recorded as status "fixed" with empty tags_all (it
suppresses nothing) and a record line 'fixed: property=<id> <commit> <what failed>'; the others are
recorded as "known" with their narrow tags_all and a 'known:' record line. Entries already present
(by id) are left alone unless their status changes from known to fixed."""
import json, glob, sys, os

fixed = {}
args = sys.argv[1:]
while args:
    a = args.pop(0)
    if a == '--fixed':
        k, v = args.pop(0).split('=')
        fixed[k] = v
root = os.path.dirname(os.path.dirname(os.path.abspath(__file__)))
kf_path = os.path.join(root, 'known_findings.json')
kf = json.load(open(kf_path))
by_id = {f['id']: f for f in kf['findings']}
for path in sorted(glob.glob(os.path.join(root, 'proposed', 'finding-*.json'))):
    d = json.load(open(path))
    fid = d['id']
    commit = None
    for k, v in fixed.items():
        if k in fid or k in os.path.basename(path):
            commit = v
    what = d.get('symptom') or d.get('what') or ''
    entry = {
        'id': fid,
        'property': d['property'],
        'status': 'fixed' if commit else 'known',
        'tags_all': [] if commit else d['tags_all'],
        'what': what,
        'witness': d.get('witness'),
        'root_cause': d.get('root_cause'),
        'entry': d.get('entry'),
    }
    if commit:
        entry['tags_when_known'] = d['tags_all']
        entry['record'] = 'fixed: property=%s %s %s' % (d['property'], commit, what[:200])
    else:
        entry['record'] = 'known: property=%s %s' % (d['property'], what[:200])
    if fid in by_id:
        old = by_id[fid]
        if old.get('status') == entry['status'] or old.get('status') == 'fixed':
            continue  # never downgrade a fixed record
        old.clear(); old.update(entry)
        print('updated', fid, entry['status'])
    else:
        kf['findings'].append(entry); by_id[fid] = entry
        print('added', fid, entry['status'])
json.dump(kf, open(kf_path, 'w'), indent=1, ensure_ascii=False)
open(kf_path, 'a').write('\n')
