#!/bin/bash
# tools/check_against.sh <repo_dir> <ID> [tier]
# Run one property check against ANOTHER copy of the repository (a scratch worktree carrying a
# seeded change) without touching /repo or /verif's evidence: the harness is built with cargo path
# overrides into <repo_dir>.vtarget and writes evidence/replays under <repo_dir>.vroot.
set -u
R="$(cd "$1" && pwd)"; ID="$2"; TIER="${3:-quick}"
export CARGO_NET_OFFLINE=true
export CARGO_TARGET_DIR="$R.vtarget"
export VCHECK_ROOT="$R.vroot"
mkdir -p "$VCHECK_ROOT" "$CARGO_TARGET_DIR"
cp /verif/known_findings.json "$VCHECK_ROOT/known_findings.json"
cd /verif/harness || exit 2
if ! cargo build --profile verif --offline --config "paths=[\"$R/kolibrie\",\"$R/shared\",\"$R/datalog\",\"$R/ml\"]" >"$CARGO_TARGET_DIR/build.log" 2>&1; then
  echo "MACHINERY: harness build against $R failed"; grep -E "^error" -A12 "$CARGO_TARGET_DIR/build.log" | head -40; exit 2
fi
cd "$VCHECK_ROOT" && exec "$CARGO_TARGET_DIR/verif/vcheck" run "$ID" "$TIER"
