#!/usr/bin/env python3
"""Regenerates /verif/MANIFEST.json from the table below (single source of truth)."""
import json, subprocess

CHECKS = {
 "C04": dict(level="model_checking", design="§3 C04", technique="explicit-state search (BFS to closure, fingerprint de-dup) + plain tree search over store operations on the real DatasetIndex, set-model oracle in every state",
   text="Explicit-state model checking of the real store: BFS over 41 operations (insert/delete of 12 quads, graph create/clear/drop, clear, rebuild, facade aliases) until the reachable physical state set closes (4 624 states), plus an undeduplicated tree search of every op sequence up to depth 3 (quick) / 4 (thorough); the full observation table (every lookup shape x graph, named/merged/membership/listing, QueryBuilder) is compared with a BTreeSet model in every state. Right level: the property is a history property of a small finite-state object.",
   note="Bounded universe (2 subjects, 2 objects, 1 predicate, 3 graphs); reference model and H3 fingerprint hook are trusted; larger universes only by symmetry."),
}

NOT_YET = {
}

def main():
    props = [json.loads(l) for l in open('/verif/properties.jsonl')]
    ids = [p['id'] for p in props]
    checks = []
    for pid in ids:
        if pid not in CHECKS: continue
        c = CHECKS[pid]
        checks.append({
            "property_id": pid,
            "quick_cmd": f"./check {pid} quick",
            "thorough_cmd": f"./check {pid} thorough",
            "evidence_file": f"/verif/evidence/{pid}.json",
            "replay_cmd_template": f"./check {pid} quick --replay {{path}}",
            "engine": "vcheck",
            "level_claimed": {"category": c["level"], "text": c["text"], "design_ref": c["design"]},
            "level_note": c["note"],
            "technique": c["technique"],
        })
    na = [{"property_id": pid, "reason": NOT_YET.get(pid, "check not built yet in this session (planned, see DESIGN.md §3); nothing is claimed for it")} for pid in ids if pid not in CHECKS]
    try:
        hooks = subprocess.check_output(['git','-C','/repo','log','--format=%H %s','--grep=^hook','-i'], text=True).strip().splitlines()
    except Exception:
        hooks = []
    m = {
        "version": 1,
        "setup_cmd": "cd /verif/harness && CARGO_NET_OFFLINE=true cargo build --profile verif --offline",
        "hooks": {
            "guard": "--cfg kolibrie_verif",
            "enable": "RUSTFLAGS --cfg kolibrie_verif via /verif/harness/.cargo/config.toml ([build] rustflags); only the harness build sets it, /repo's own build never does",
            "baseline_off_cmd": "cd /repo && cargo nextest run --workspace --no-fail-fast --test-threads 8 --offline || cargo test --workspace --no-fail-fast --offline",
            "source_commits": [h.split()[0] for h in hooks],
            "add_only": True,
        },
        "engines": [
            {"name": "vcheck", "path": "/verif/harness", "serves_properties": [c["property_id"] for c in checks],
             "kind_free_text": "Rust harness linking the real crates: explicit-state search over op sequences (E-seq), bounded-exhaustive input/program enumeration against reference models (E-in), environment-answer/fault enumeration (E-fault), baton-scheduler schedule exploration (E-sched); 16 crash-isolated worker subprocesses"},
        ],
        "checks": checks,
        "not_applicable": na,
        "notes": "All verdicts come from exhaustive enumeration of executions of the real code within the bounds stated in each evidence file; no sampling, no solver. Exit 0 = held (KNOWN-FINDING lines for entries of known_findings.json), exit 1 = VIOLATION line, exit 2 = machinery failure (never a verdict).",
    }
    json.dump(m, open('/verif/MANIFEST.json','w'), indent=1)
    print("checks:", [c["property_id"] for c in checks], "not_applicable:", [n["property_id"] for n in na])

main()
