#!/usr/bin/env python3
"""Regenerates /verif/MANIFEST.json from the table below (single source of truth)."""
import json, subprocess

CHECKS = {
 "C11": dict(level="exploration", design="§3 C11", technique="exhaustive enumeration of pairs of in-order streams x every interleaving x window parameters x policies x static data on real two-window RSP engines, per-window probe windows + BGP evaluation as oracle",
   text="Two-window engines (SingleThread; Wait and Steal; with/without static data; blocks sharing a predicate, disjoint predicates, blocks sharing a join variable; (width,slide) pairs) are fed every interleaving of two in-order streams of <=3 items each; every emitted row, restricted to one WINDOW block's variables, must be an answer of that block over some content that a probe window fed only that window's stream has reported so far, and its static part an answer over the static data alone.",
   note="MultiThread not quantified by the property; 'reported so far' taken generously; the shared-store defect is a listed known finding scoped to rows explained by the other window's items."),
 "C05": dict(level="exploration", design="§3 C05", technique="bounded-exhaustive enumeration of (program, ordered fact list) x four materialisation strategies x two runs on the real Reasoner, naive stratified least-fixpoint reference as oracle",
   text="2 933 programs (thorough 4 027: every canonical 1- and 2-premise rule body, 3-premise bodies, numeric/term filters, one negated atom, recursive / constant / variable-predicate / two-conclusion heads, every ordered pair of a 40-rule core incl. mutually recursive ones) x every fact set of <=2 facts (symmetry-reduced) in every insertion order + curated chains/cycles/diamonds: infer_new_facts_naive, _semi_naive, _semi_naive_parallel and provenance(Boolean) must each leave exactly the least (stratified) model in the store, return only model facts, and derive nothing on a second run.",
   note="Every failure is tagged with the reference component whose omission reproduces the observed store (explained_by=...), which scopes the known findings narrowly; filter-meets-non-numeric cases where the statement is silent are counted, not judged."),
 "C06": dict(level="exploration", design="§3 C06", technique="bounded-exhaustive enumeration of (program, certain/tagged fact list, provenance mode) on the real Reasoner, exhaustive possible-worlds summation (2^n worlds) as oracle",
   text="Core single rules, ordered pairs and 3-4-rule programs (late second proof / delta_improved path, mutual recursion, shared evidence, one negated atom) x fact sets with every assignment of {certain, 0, 0.3, 0.5, 1} to <=4 facts (every insertion order) and larger graphs with up to 8 (thorough 12) uncertain facts: DNF and SDD provenance must equal the possible-worlds probability to 1e-9, MinMax the (max,min) fixpoint, Boolean the derivability from facts with p>0.",
   note="World enumeration bounds n <= 12; MinMax not judged for programs with negation."),
 "C08": dict(level="fault_enumeration", design="§3 C08", technique="exhaustive enumeration of lineage formulas x probabilities x configurations x EVERY clock reading at which the deadline can expire (injected HybridClock) and every node budget, on the real hybrid evaluator, truth-table probability as oracle",
   text="All 127 DNFs over 3 seeds (all 125 probability assignments), 575 (thorough 32 767) DNFs over 4 seeds, nested And/Or, every single-Not variant, exclusive groups, missing seeds, special cases, (thorough: up to 12 seeds) x 240 valid + 7 invalid configurations; a counting HybridClock expires the deadline at every reading n of the fault-free run in two modes (single jump, runaway); compile_lineage_to_sdd_with_clock per reading and node budget; evaluate_topk; Reasoner::infer_new_facts_with_hybrid end to end on 21 programs: Exact equals the truth-table probability, every interval contains it, Alert => p* >= threshold, NoAlert => p* < threshold, never a decision contradicted by p*.",
   note="Exclusive groups of mass 1 only (semantics of smaller mass is undefined in the code); missing seeds: certified claims must hold for every completion."),
 "C10": dict(level="model_checking", design="§3 C10", technique="exhaustive enumeration of streams on real single-window RSP engines against a window-content/closure/R2S reference + stateless schedule exploration (baton scheduler, preemption-bounded DFS) of the multi-threaded engine",
   text="Every in-order stream of <=4 (thorough <=5) items (3-triple alphabet x gaps {0,1,2}) on a real RSPEngine for {RSTREAM, ISTREAM, DSTREAM} x 4 (width,slide) pairs x 6 query/rule configurations: the emitted row sequence must be the concatenation, firing by firing, of the query answers over exactly the probe window's content plus its rule closure, passed through the stream operator. The same streams (<=3 items, thorough <=4) run in OperationMode::MultiThread under the baton scheduler of hook H1: every schedule with <=2 preemptions must emit the same sequence and must not deadlock.",
   note="Scheduling points at channel send/receive and around the window processor only; rows inside one firing are compared as a multiset (hash order); stop()'s flush excluded."),
 "C13": dict(level="exploration", design="§3 C13", technique="bounded-exhaustive enumeration of documents around every loader chunk boundary x formats x prior database contents x pool sizes on the real loaders, reference reader as oracle, cross-format equality",
   text="Documents of sizes {0,1,2, 998..1003, 1998..2002, 3001} (thorough more, incl. the 8192 RDF/XML batch boundary) generated from one abstract triple list in N-Triples, N-Quads (+graph column), Turtle, N3 and RDF/XML, with a distinguished line (@prefix used only later, term first seen in the previous chunk, duplicate, lang/datatype/escaped literal, quoted triple, comment, blank line, blank node, '#' in an IRI) at every offset -2..+2 of every chunk boundary, loaded into databases with 5 kinds of prior content under rayon pools of 1/2/4/16 threads; the lexical quad set must equal prior + document, the dictionary must stay a bijection with prior ids unchanged, and all formats must load identically.",
   note="Interleavings inside a rayon pool are not enumerable (pool sizes are; chunk tasks are pure functions merged sequentially - verified by reading); line-oriented subset only; reference reader harness/src/reference/loader.rs."),
 "C14": dict(level="exploration", design="§3 C14", technique="exhaustive enumeration of all literal strings up to a length bound over a 16-character delimiter alphabet x 10 dataset contexts x 3 export/import round trips on the real writers and readers",
   text="Every string of length <=3 (thorough <=4) over {a, quote, backslash, LF, CR, TAB, e-acute, emoji, space, <, >, ., #, :, @, ^} that cannot be mistaken for an IRI / blank node / quoted triple (4 333 / 69 321 literals) is placed as object in 10 contexts (IRI, blank and (nested) quoted-triple subjects, default and named graphs, two predicates, literal inside a quoted triple, database with prefixes) and round-tripped through generate_nquads/parse_nquads_and_add, generate_ntriples/parse_ntriples_and_add and generate_turtle/parse_turtle into an empty database; the lexical quad sets must be equal.",
   note="Source databases are built without any parser; the exclusion line (scheme: shape, <<) is the writers' own term-kind guess, re-implemented in the harness."),
 "C18": dict(level="exploration", design="§3 C18", technique="bounded-exhaustive enumeration of (program, fact set, goal shape, variable naming) on the real backward chainer, naive least-fixpoint with derivation stages as oracle",
   text="66 programs (24-rule core: constants, repeated variables, variable predicates, two conclusions, linear / left / doubly / mutually recursive; thorough all 552 ordered pairs) x fact sets of <=2 (thorough <=4) triples + curated chains x 37 goal shapes x namings drawn from {x, X, Y, v0, v1, v2}: every answer applied to the goal must be in the least model, every model fact of derivation stage <=5 matching the goal must be returned, and answers must not depend on what the goal variables are called.",
   note="Goal shapes whose predicted SLD cost exceeds a step cap (left/doubly recursive blow-ups) are skipped and counted (evidence exhaustive:false for those); completeness demanded only 5 levels below MAX_DEPTH."),
 "C19": dict(level="fault_enumeration", design="§3 C19", technique="exhaustive enumeration of fact sets x constraint sets x goals x EVERY iteration order of compute_repairs' candidate loop (order seam H2), brute-force maximal-consistent-subset oracle",
   text="Every fact set of <=4 (thorough <=5) triples x 15 constraint sets x 9 goals, each under every global ranking of the facts (all n! hash orders production can exhibit) and every deviation-bounded order strategy through hook H2, plus native no-oracle runs: query_with_repairs must return exactly the answers true in every subset-maximal consistent subset (brute force over 2^n subsets), identically for every order, and infer_new_facts_semi_naive_with_repairs must end consistent for 7 rule sets.",
   note="Order seam H2 behind cfg(kolibrie_verif) decides HashSet iteration order; filter-free denial constraints."),
 "C02": dict(level="exploration", design="§3 C02", technique="exhaustive enumeration of configurations (BGP permutations x statistics objects x join-algorithm assignments x scan flips x star expansion x pool sizes) executed on the real optimizer/engine, differential + SPARQL-algebra reference oracle",
   text="For 20 join-rich query shapes every permutation of every triples block (<=24) is executed on 16 (thorough ~950) datasets: end to end, under five statistics objects (fresh, empty, all-zero, all-huge, inverted) through Streamertail::find_best_plan, with EVERY assignment of {bind, hash, nested-loop} to the join nodes of each distinct chosen plan (3^j), every scan flip, StarJoin expanded to left-deep joins, through the real stale cached_stats path (query, mutate, query), and with thread pools of 1..16 threads on a 210-triple dataset; every variant must return the reference solution multiset.",
   note="Interleavings inside a rayon pool are not enumerable (pool sizes are; free-running runs labelled as such); plan variants are built by rewriting the public PhysicalOperator tree; reference evaluator trusted."),
 "C07": dict(level="model_checking", design="§3 C07", technique="exhaustive operand-pair enumeration + operation-sequence tree search on the real SddManager with truth-table oracle + fault enumeration of every checkpoint / node budget of every budgeted operation with continued use of the manager",
   text="Part A: all 256x256x{And,Or} operand pairs over 3 variables for each of the 6 introduction orders (canonical handle = function with that truth table), negation, WMC for 3 weight vectors, model enumeration, gradient, exactly_one over every variable list. Part B: tree search over operation sequences with late variable introduction (to 6 variables quick, 8 thorough), invariant equal tables <=> equal handles. Part C: for every budgeted operation of a representative set (all 3-variable pairs in thorough) every deadline checkpoint k and every node budget n, result Err or the unbudgeted handle, then the same manager is reused (same op, dual op, alternative route, all tracked handles) and a second interrupted operation (bound 2).",
   note="Handles are compared only inside one manager; WMC compared for independent variables with pos+neg=1 and under exactly_one for exclusive groups (the statement leaves unsmoothed group weights open); part C procedures run in forked children so a corrupted-diagram crash is a recorded failure."),
 "C17": dict(level="exploration", design="§3 C17", technique="bounded-exhaustive enumeration of request texts (seed corpus, every single mutation, token strings) x database states x string entry points on the real code, dataset compared before/after",
   text="Every seed request (SELECT forms, six update forms, legacy aliases, rejected requests, RULE/REGISTER/RETRIEVE/ML.PREDICT), every single mutation of every seed (incl. multi-byte characters at every offset) and every short token string is submitted to execute_sparql_query, execute_sparql_update, SparqlDatabase::execute_update, handle_update and (SELECTs) the legacy entry point on fresh databases in four states; no panic, the query entry point never changes quads or catalog and refuses every Update, SELECTs never change data, failed updates leave the dataset unchanged.",
   note="Request classification taken from parse_combined_query (C16's subject); crash isolation by worker subprocess."),
 "C03": dict(level="model_checking", design="§3 C03", technique="explicit-state search over sequences of update requests executed on the real database (prefix replay on a fresh database), whole-dataset comparison with a SPARQL Update reference after every step",
   text="BFS over sequences (depth 4 quick, 6 thorough) of a 36-request alphabet (the six update forms over default and named graphs, swapping / self-referential / graph-variable / blank-node templates, WHERE with FILTER/UNION/VALUES, unbound and literal-subject template variables, 11 malformed or rejected requests) from 3 initial datasets through SparqlDatabase::execute_update; after every step all quads of all graphs (up to blank-node renaming), the catalog bounds, the UpdateSummary counts and acceptance vs rejection are compared with R-update, and a rejected request must leave quads and catalog untouched.",
   note="De-duplication on the abstract dataset (sound because the full physical content is compared through all_quads each step; index divergence is C04's subject); term universe U; reference R-update trusted (self-tested)."),
 "C16": dict(level="exploration", design="§3 C16", technique="bounded-exhaustive enumeration of token strings and of single/double mutations of a seed corpus through the real parsers under catch_unwind (crash-isolated workers) + print/parse round trip of every generated AST in 6 layouts",
   text="Totality: every string of <=3 (thorough <=4) tokens over a 30-token alphabet, spaced and glued, every single mutation of ~130 seed requests and every double mutation of the shortest seeds go through parse_combined_query, parse_combined_query_with_options(_, true), parse_sparql_query and parse_group_graph_pattern: never a panic, acceptance implies the whole input was consumed. Faithfulness: every query of the C01 generator list and every update form, printed in 6 layouts (whitespace, comments, keyword case, ;/, abbreviations, optional dots), must parse to a tree equal to the generated AST.",
   note="Nesting deeper than the generator produces (stack exhaustion) is outside the explored space; tree comparison modulo merging of adjacent triples blocks and single-element braces."),
 "C01": dict(level="exploration", design="§3 C01", technique="bounded-exhaustive enumeration of (dataset, query) pairs executed on the real engine, SPARQL-algebra reference evaluator as oracle",
   text="Every query of a generator grammar (all sequences of <=2, thorough <=3, pattern elements from ~90 shapes: triple templates, GRAPH, UNION, nested groups, sub-SELECTs, FILTER at every position, BIND, VALUES/UNDEF, every solution modifier) is executed on every subset of a 10-quad universe (quick: the sparse and the near-full subsets; thorough: all 2048 incl. an empty named graph) through execute_sparql_query and the legacy entry point, and compared with an independent implementation of the SPARQL 1.1 algebra (multiset equality, sortedness, legal LIMIT cut). Exhaustive inside the stated grammar and universe; the oracle is independent of the code under test.",
   note="Bounded grammar and 10-quad universe; value model as Kolibrie documents it (bare lexical forms, numeric comparison only between numerics); reference evaluator trusted (self-tested)."),
 "C09": dict(level="exploration", design="§3 C09", technique="bounded-exhaustive enumeration of timestamp streams x width x slide on the real CSPARQLWindow, interval oracle from the statement",
   text="Every non-decreasing timestamp sequence (length <=5 over 0..8, thorough <=7 over 0..12) x width x slide (1..4, thorough 1..6) is fed to a real CSPARQLWindow through four consumer paths (callback, channel, both, WindowRunner) and every reported content is compared with the aligned-interval oracle of the statement (content = one interval [c-width,c), c multiple of slide and <= trigger; strictly increasing triggers; non-decreasing intervals; every non-empty closing interval reported exactly once when gaps <= slide).",
   note="OnWindowClose report strategy with time-driven tick (two conjunction strategies on the safety clauses only); bounds on stream length/time range; reference in harness/src/reference/window.rs."),
 "C12": dict(level="model_checking", design="§3 C12", technique="explicit-state BFS over stream histories (arrive/tick/evaluate) driving the real incremental_sds_plus, de-duplicated on the full time-relative state, (max,min) fixpoint oracle + undeduplicated tree cross-check",
   text="112 configurations (7 rule sets x alpha pairs x static graph x eviction mode), each an explicit-state search over arrive/tick/evaluate histories (depth 6 quick, 9 thorough) on the real incremental_sds_plus with the carried SdsWithExpiry in the state; at every evaluate the per-component fact sets and every expiry are compared with a naive (max,min) fixpoint over the alive facts and with the real naive_sds_plus.",
   note="Two windows, three triples per window, alpha in {2,3}; rule sets over window-annotated predicates only; pass/fail assumed invariant under uniform time shift (cross-checked by an undeduplicated tree search)."),
 "C15": dict(level="model_checking", design="§3 C15", technique="explicit-state BFS over encode/decode/quoted-encode sequences on the real Dictionary/QuotedTripleStore + exhaustive pairs of databases built by short op sequences for union",
   text="Part 1: BFS (depth 5 quick, 6 thorough) over encode / quoted-encode operations on the real Dictionary and QuotedTripleStore, de-duplicated on the exact physical state, with the bijection / stability / disjoint-range / structural-identity invariants checked in every state. Part 2: every ordered pair of the distinct databases reachable by <=3 (thorough <=4) operations over 10 population ops is united with the real SparqlDatabase::union and compared lexically with the union of the two abstract datasets (quads, graph identities incl. empty graphs, quoted terms, probability seeds); operands must denote the same dataset afterwards.",
   note="Small vocabularies; probabilities are a function of the triple (conflicting seeds are not generated); reference in harness/src/reference/termdb.rs."),
 "C04": dict(level="model_checking", design="§3 C04", technique="explicit-state search (BFS to closure, fingerprint de-dup) + plain tree search over store operations on the real DatasetIndex, set-model oracle in every state",
   text="Explicit-state model checking of the real store: BFS over 41 operations (insert/delete of 12 quads, graph create/clear/drop, clear, rebuild, facade aliases) until the reachable physical state set closes (4 624 states in each of two term universes: subject x object under one predicate, predicate x object under one subject), plus an undeduplicated tree search of every op sequence up to depth 3 (quick) / 4 (thorough); the full observation table (every lookup shape x graph, named/merged/membership/listing, QueryBuilder) is compared with a BTreeSet model in every state. Right level: the property is a history property of a small finite-state object.",
   note="Bounded universe (2 subjects, 2 objects, 1 predicate, 3 graphs); reference model and H3 fingerprint hook are trusted; larger universes only by symmetry."),
}

# checks that exist but must not be claimed yet (red on the unchanged tree until a fix/finding lands)
PENDING = {}

NOT_YET = {
}

def main():
    props = [json.loads(l) for l in open('/verif/properties.jsonl')]
    ids = [p['id'] for p in props]
    checks = []
    for pid in ids:
        if pid not in CHECKS or pid in PENDING: continue
        c = CHECKS[pid]
        checks.append({
            "property_id": pid,
            "quick_cmd": f"./check {pid} quick",
            "thorough_cmd": f"./check {pid} thorough",
            "evidence_file": f"/verif/evidence/{pid}.json",
            "replay_cmd_template": f"./check {pid} quick --replay {{path}}",
            "engine": "vcheck",
            "level_claimed": {"category": c["level"], "text": c["text"], "design_ref": c["design"]},
            "level_note": c["note"],
            "technique": c["technique"],
        })
    na = [{"property_id": pid, "reason": PENDING.get(pid) or NOT_YET.get(pid, "check not built yet in this session (planned, see DESIGN.md §3); nothing is claimed for it")} for pid in ids if pid not in CHECKS or pid in PENDING]
    try:
        hooks = subprocess.check_output(['git','-C','/repo','log','--format=%H %s','--grep=^hook','-i'], text=True).strip().splitlines()
    except Exception:
        hooks = []
    m = {
        "version": 1,
        "setup_cmd": "cd /verif/harness && CARGO_NET_OFFLINE=true cargo build --profile verif --offline",
        "hooks": {
            "guard": "--cfg kolibrie_verif",
            "enable": "RUSTFLAGS --cfg kolibrie_verif via /verif/harness/.cargo/config.toml ([build] rustflags); only the harness build sets it, /repo's own build never does",
            "baseline_off_cmd": "cd /repo && cargo nextest run --workspace --no-fail-fast --test-threads 8 --offline",
            "source_commits": [h.split()[0] for h in hooks],
            "add_only": True,
        },
        "engines": [
            {"name": "vcheck", "path": "/verif/harness", "serves_properties": [c["property_id"] for c in checks],
             "kind_free_text": "Rust harness linking the real crates: explicit-state search over op sequences (E-seq), bounded-exhaustive input/program enumeration against reference models (E-in), environment-answer/fault enumeration (E-fault), baton-scheduler schedule exploration (E-sched); 16 crash-isolated worker subprocesses"},
        ],
        "checks": checks,
        "not_applicable": na,
        "notes": "All verdicts come from exhaustive enumeration of executions of the real code within the bounds stated in each evidence file; no sampling, no solver. Exit 0 = held (KNOWN-FINDING lines for entries of known_findings.json), exit 1 = VIOLATION line, exit 2 = machinery failure (never a verdict).",
    }
    json.dump(m, open('/verif/MANIFEST.json','w'), indent=1)
    print("checks:", [c["property_id"] for c in checks], "not_applicable:", [n["property_id"] for n in na])

main()
