use kolibrie::sparql_database::SparqlDatabase;
fn main() {
    let mut doc = String::new();
    let mut xml = String::from("<?xml version=\"1.0\"?>\n<rdf:RDF xmlns:rdf=\"http://www.w3.org/1999/02/22-rdf-syntax-ns#\" xmlns:ex=\"http://e/\">\n");
    for i in 0..1001 { doc.push_str(&format!("<http://e/s{}> <http://e/p{}> <http://e/o{}> .\n", i, i%3, i%7));
      xml.push_str(&format!("<rdf:Description rdf:about=\"http://e/s{}\"><ex:p{} rdf:resource=\"http://e/o{}\"/></rdf:Description>\n", i, i%3, i%7)); }
    xml.push_str("</rdf:RDF>\n");
    for threads in [1usize, 2, 4, 16] {
        let pool = rayon::ThreadPoolBuilder::new().num_threads(threads).build().unwrap();
        for (name, f) in [("nt", 0), ("nq", 1), ("ttl", 2), ("n3", 3), ("xml", 4)] {
            let t = std::time::Instant::now();
            for _ in 0..20 {
                let mut db = SparqlDatabase::new();
                pool.install(|| match f { 0 => db.parse_ntriples_and_add(&doc), 1 => db.parse_nquads_and_add(&doc), 2 => db.parse_turtle(&doc), 3 => db.parse_n3(&doc), _ => db.parse_rdf(&xml) });
                assert!(db.dataset_index.all_quads().len() > 0);
            }
            println!("pool {} {} 1001 lines: {:?} per load", threads, name, t.elapsed() / 20);
        }
    }
}
