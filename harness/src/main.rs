//! vcheck — bounded-exhaustive exploration of Kolibrie against reference models.
//!   vcheck run <ID> <quick|thorough> [--replay FILE]
//!   vcheck worker <ID> <tier> <shard> <nshards> <cap_s> <progress>   (internal)
//!   vcheck selftest
mod infra;
mod props;
mod reference;
mod explore;

use infra::{findings, shard, Ctx, PropDef, Tier};
use serde_json::{json, Value};
use std::time::Instant;

fn usage() -> ! {
    eprintln!("usage: vcheck run <ID> <quick|thorough> [--replay FILE] | vcheck selftest | vcheck list");
    std::process::exit(2)
}

fn main() {
    let args: Vec<String> = std::env::args().collect();
    if args.len() < 2 {
        usage();
    }
    match args[1].as_str() {
        "worker" => {
            if args.len() < 8 {
                usage();
            }
            let def = find(&args[2]);
            let tier = Tier::parse(&args[3]).unwrap_or_else(|| usage());
            let shard: usize = args[4].parse().unwrap();
            let nshards: usize = args[5].parse().unwrap();
            let cap_s: u64 = args[6].parse().unwrap();
            std::process::exit(shard::worker_main(def, tier, shard, nshards, cap_s, Some(args[7].clone())));
        }
        "selftest" => {
            let errs = reference::selftest();
            if errs.is_empty() {
                println!("selftest: ok");
            } else {
                for e in &errs {
                    println!("selftest FAILED: {}", e);
                }
                std::process::exit(2);
            }
        }
        "list" => {
            for d in props::all() {
                println!("{} {}", d.id, d.level);
            }
        }
        "run" => {
            if args.len() < 4 {
                usage();
            }
            let def = find(&args[2]);
            let tier = Tier::parse(&args[3]).unwrap_or_else(|| usage());
            if args.len() >= 6 && args[4] == "--replay" {
                std::process::exit(replay(def, tier, &args[5]));
            }
            std::process::exit(run(def, tier));
        }
        _ => usage(),
    }
}

fn find(id: &str) -> &'static PropDef {
    match props::all().iter().find(|d| d.id == id) {
        Some(d) => d,
        None => {
            eprintln!("unknown property {}", id);
            std::process::exit(2)
        }
    }
}

fn run(def: &'static PropDef, tier: Tier) -> i32 {
    let t0 = Instant::now();
    let errs = reference::selftest();
    if !errs.is_empty() {
        for e in &errs {
            println!("MACHINERY: reference self-test failed: {}", e);
        }
        return 2;
    }
    let known = match findings::load(def.id) {
        Ok(k) => k,
        Err(e) => {
            println!("MACHINERY: cannot read known findings: {}", e);
            return 2;
        }
    };
    let res = shard::run_sharded(def, tier);
    let mut out = res.out;
    let wall = t0.elapsed().as_secs_f64();

    // crashes
    let mut crash_violations: Vec<infra::Failure> = Vec::new();
    let crash_is_verdict = props::crash_is_violation(def.id);
    for c in &res.crashes {
        if crash_is_verdict {
            let case = c.last_case.as_deref().and_then(|s| serde_json::from_str::<Value>(s).ok()).unwrap_or(json!({"unknown_case_in_shard": c.shard}));
            crash_violations.push(infra::Failure {
                case,
                symptom: "process_crash".into(),
                detail: format!("worker shard {} died: {}", c.shard, c.status),
                tags: vec!["symptom=process_crash".into()],
            });
        } else if props::crash_is_violation_if_reproduced(def.id) && c.last_case.is_some() && crash_violations.len() < 4 {
            // The statement of this property implies that the subject keeps answering (C07: "after
            // exhaustion at any point the manager still answers correctly"), so a subject that takes
            // the process down (stack overflow on a corrupted diagram = SIGABRT) violates it - but only
            // if the death is caused by the recorded case: re-execute that one case twice in fresh
            // subprocesses; both must die from a signal, otherwise it stays a machinery problem.
            let case_text = c.last_case.clone().unwrap();
            match serde_json::from_str::<Value>(&case_text) {
                Ok(case) if crash_reproduces(def, tier, &case) => crash_violations.push(infra::Failure {
                    case,
                    symptom: "process_crash".into(),
                    detail: format!("worker shard {} died: {}; re-executing the recorded case alone killed a fresh process twice", c.shard, c.status),
                    tags: vec!["symptom=process_crash".into(), "crash_reproduced_by_replay".into()],
                }),
                _ => out.machinery_errors.push(format!("worker shard {} died ({}); last case (death NOT reproduced by replaying it alone): {:?}", c.shard, c.status, c.last_case)),
            }
        } else {
            out.machinery_errors.push(format!("worker shard {} died ({}); last case: {:?}", c.shard, c.status, c.last_case));
        }
    }
    for f in crash_violations {
        out.failures_total += 1;
        out.failure_sigs.insert(format!("crash-{}", out.failure_sigs.len()), (1, f));
    }

    // attribute failures
    let mut known_hits: Vec<(String, u64)> = Vec::new();
    let mut violations: Vec<(u64, infra::Failure)> = Vec::new();
    for (_sig, (n, f)) in out.failure_sigs.iter() {
        match findings::attribute(&known, f) {
            Some(k) => match known_hits.iter_mut().find(|(id, _)| id == &k.id) {
                Some(e) => e.1 += *n,
                None => known_hits.push((k.id.clone(), *n)),
            },
            None => violations.push((*n, f.clone())),
        }
    }
    let nviol: u64 = violations.iter().map(|v| v.0).sum();
    let extra = json!({"worker_crashes": res.crashes.len(), "machinery_errors": out.machinery_errors});
    match infra::evidence::write(def, tier, shard::seed(), &out, wall, nviol, &known_hits, res.crashes.len(), extra) {
        Ok(_) => {}
        Err(e) => {
            println!("MACHINERY: cannot write evidence: {}", e);
            return 2;
        }
    }
    println!(
        "{} {}: evaluations={} distinct_nontrivial={} outcomes={} states={} transitions={} failing={} wall={:.1}s{}",
        def.id,
        tier.as_str(),
        out.evaluations,
        out.nontrivial.len(),
        out.outcomes.len(),
        out.states,
        out.transitions,
        out.failures_total,
        wall,
        if out.capped.is_empty() { String::new() } else { format!(" CAPPED: {}", out.capped.join("; ")) }
    );
    for (k, v) in &out.counters {
        println!("  {} = {}", k, v);
    }
    // Machinery problems (a worker that died where a crash is not a verdict, a schedule that
    // could not be replayed, a case whose re-execution differed) are never verdicts. They do not
    // cancel a violation that WAS recorded either: every recorded failure has been re-executed
    // from scratch by its check before being recorded, so it stands on its own. Exit 1 if there
    // is an unattributed violation, else exit 2 if there was a machinery problem.
    let machinery = !out.machinery_errors.is_empty();
    for e in out.machinery_errors.iter().take(10) {
        println!("MACHINERY: {}", e);
    }
    if machinery && violations.is_empty() {
        return 2;
    }
    for (id, n) in &known_hits {
        let k = known.iter().find(|k| &k.id == id).unwrap();
        println!("KNOWN-FINDING: property={} {}: {} [{} failing cases attributed]", def.id, k.id, k.what, n);
    }
    if violations.is_empty() {
        if out.evaluations == 0 {
            println!("MACHINERY: nothing explored");
            return 2;
        }
        return 0;
    }
    violations.sort_by_key(|v| v.1.case.to_string().len());
    println!("  unattributed failure signatures: {} (cases {})", violations.len(), nviol);
    for (n, f) in violations.iter().take(60) {
        println!("    {:>7}  {}", n, f.tags.join(" "));
    }
    let dir = format!("{}/replays/{}", infra::root(), def.id);
    let _ = std::fs::create_dir_all(&dir);
    for (n, f) in violations.iter().take(8) {
        let body = json!({"property": def.id, "tier": tier.as_str(), "case": f.case, "symptom": f.symptom, "detail": f.detail, "tags": f.tags, "cases_with_same_signature": n});
        let text = serde_json::to_string_pretty(&body).unwrap();
        let path = format!("{}/{:016x}.json", dir, infra::hash64(&f.case.to_string()));
        let _ = std::fs::write(&path, text);
        println!("  symptom={} tags={:?}\n  detail: {}", f.symptom, f.tags, infra::truncate(&f.detail, 600));
        println!("VIOLATION property={} replay={}", def.id, path);
    }
    1
}

/// Re-execute one recorded case alone, twice, each time in a fresh subprocess (`run <ID> <tier> --replay`).
/// True iff both subprocesses were killed by a signal (no exit code).
fn crash_reproduces(def: &'static PropDef, tier: Tier, case: &Value) -> bool {
    let dir = format!("{}/replays/{}", infra::root(), def.id);
    let _ = std::fs::create_dir_all(&dir);
    let path = format!("{}/crash-{:016x}.json", dir, infra::hash64(&case.to_string()));
    let body = json!({"property": def.id, "tier": tier.as_str(), "case": case, "symptom": "process_crash"});
    if std::fs::write(&path, serde_json::to_string_pretty(&body).unwrap()).is_err() {
        return false;
    }
    let exe = match std::env::current_exe() {
        Ok(e) => e,
        Err(_) => return false,
    };
    for _ in 0..2 {
        let st = std::process::Command::new(&exe)
            .args(["run", def.id, tier.as_str(), "--replay", &path])
            .stdout(std::process::Stdio::null())
            .stderr(std::process::Stdio::null())
            .status();
        match st {
            Ok(st) if st.code().is_none() => {}
            _ => return false,
        }
    }
    true
}

fn replay(def: &'static PropDef, tier: Tier, path: &str) -> i32 {
    infra::quiet::install_silent_panic_hook();
    let text = match std::fs::read_to_string(path) {
        Ok(t) => t,
        Err(e) => {
            println!("MACHINERY: cannot read {}: {}", path, e);
            return 2;
        }
    };
    let v: Value = match serde_json::from_str(&text) {
        Ok(v) => v,
        Err(e) => {
            println!("MACHINERY: bad replay file: {}", e);
            return 2;
        }
    };
    let case = v.get("case").cloned().unwrap_or(v.clone());
    let ctx = Ctx::for_replay(tier);
    let saved = infra::quiet::silence_stdio();
    let a = infra::guarded(|| (def.replay)(&ctx, &case));
    let b = infra::guarded(|| (def.replay)(&ctx, &case));
    use std::io::Write;
    let mut o = saved;
    let (a, b) = match (a, b) {
        (Ok(a), Ok(b)) => (a, b),
        (a, b) => {
            let _ = writeln!(o, "MACHINERY: harness panicked during replay: {:?} {:?}", a.err(), b.err());
            return 2;
        }
    };
    let sa: Vec<String> = a.failure_sigs.keys().cloned().collect();
    let sb: Vec<String> = b.failure_sigs.keys().cloned().collect();
    if sa != sb {
        let _ = writeln!(o, "MACHINERY: replay is not deterministic: {:?} vs {:?}", sa, sb);
        return 2;
    }
    let known = findings::load(def.id).unwrap_or_default();
    let mut rc = 0;
    if a.failure_sigs.is_empty() {
        let _ = writeln!(o, "replay {}: case passes ({} evaluations)", def.id, a.evaluations);
    }
    for (_s, (_n, f)) in a.failure_sigs.iter() {
        let _ = writeln!(o, "replay {}: symptom={} tags={:?}\n  case: {}\n  detail: {}", def.id, f.symptom, f.tags, f.case, f.detail);
        match findings::attribute(&known, f) {
            Some(k) => {
                let _ = writeln!(o, "KNOWN-FINDING: property={} {}: {}", def.id, k.id, k.what);
            }
            None => {
                let _ = writeln!(o, "VIOLATION property={} replay={}", def.id, path);
                rc = 1;
            }
        }
    }
    rc
}
