//! C08 — hybrid probability results never certify a wrong decision.
//! E-in x E-fault: bounded-exhaustive lineage DAGs built through the real `LineageStore`, every
//! valid configuration, and a counting clock that jumps past every deadline at its n-th reading
//! for every n; oracle = truth-table probability (reference/lineage_tt.rs).
use crate::infra::{guarded, Ctx, PropDef, ShardOut};
use crate::reference::lineage_tt::{top_stratum_negation_only, world_probabilities, Atom, Fm, NRule, SeedModel};
use datalog::reasoning::Reasoner;
use serde_json::{json, Value};
use shared::hybrid::{
    compile_lineage_to_sdd_with_clock, evaluate_hybrid_with_clock, evaluate_topk, AlertDecision, HybridClock, HybridConfig, HybridProbabilityResult, LineageId, LineageStore, SeedId, SeedSnapshot, ThresholdPolicyKind,
};
use shared::rule::Rule;
use shared::seed_spec::{ExclusiveChoice, SeedSpec};
use shared::terms::Term;
use shared::triple::Triple;
use std::collections::{BTreeMap, BTreeSet};
use std::sync::atomic::{AtomicU64, Ordering};
use std::sync::{Arc, Mutex};
use std::time::{Duration, Instant};

pub const DEF: PropDef = PropDef {
    id: "C08",
    level: "fault_enumeration",
    rule: "case = (lineage formula built through the real LineageStore, seed probabilities from {0,0.2,0.5,0.9,1}, seed kinds, HybridConfig, clock-fault index): formulas = all monotone DNFs (with shared seeds and subsumed clauses), And(Or,Or) nestings (two depths), every single-Not variant of those, the same with seeds {0,1} in an exclusive group, with one seed id absent from the snapshot, and constant/complement specials, over <=4 seeds (quick: all 127 DNFs over 3 seeds, the 575 DNFs with <=3 clauses over 4; thorough: all 32767 DNFs over 4 seeds, 2-clause DNFs and And(Or,Or) over 5 and 6 seeds, window-DNF families over 6, 8 and 12 seeds); probability vectors: 5 fixed spreads per formula (two dyadic, one uniformly 0.2) and, for the DNFs over 3 seeds, all 125 assignments; configs = every valid combination of k_initial{1,2} x k_max{k_initial,4} x k_growth 2 x threshold{0,.3,.5,.9,1} x band{0,.2} x gain floor{0,.05} x node budget{2,8,1000} (+7 invalid configs) for the core families, fixed sub-grids of 30 / 12 of these configurations elsewhere (counters setups_* / evals_* say how much each family got); for each (formula,probabilities,config) the fault-free run of evaluate_hybrid_with_clock is executed with a counting clock, then one run per clock reading n in [0,readings) and per fault mode (single jump past all deadlines at reading n / runaway clock from reading n); compile_lineage_to_sdd_with_clock likewise per reading and per node budget 2..=needed+1; evaluate_topk for k in {0,1,2,3,4,8} x node budgets; Reasoner::infer_new_facts_with_hybrid on 21 acyclic positive programs against possible-worlds enumeration over a naive fixpoint. Round-3 additions: families exclusive2 (TWO exclusive groups {0,1} and {2,3}, each completed to mass 1 by its own filler member; all DNFs with <= 2 clauses and all And(Or,Or) over 4 seeds, single-Not variants (quick: every 8th); probability splits incl. members of probability 0 and 1: quick 2, thorough 5) and exclusive3 (one group of three {0,1,2} + an independent seed; quick 2 splits, thorough 4 x 2), both under the 5-configuration set Excl (thresholds {.3,.5,.9} at node budget 1000, threshold .5 at node budgets 8 and 16: lineages over exclusive groups never enter the top-k phase); family dnf_k: all 127 DNFs over 3 seeds (all-0.5; the 18 irredundant ones also under a 0/.5/1 vector) and irredundant DNFs with 2..3 (thorough 4) clauses over 4 seeds under the grid Extra = 9 controller growth paths (k_initial,k_max,k_growth) in {(1,4,3),(2,6,3),(1,3,2),(3,3,2),(3,8,2),(8,8,2),(1,16,2),(8,64,2),(1,64,3)} x thresholds {.125,.375,.5,.75} with (band,floor) = (.02,1e-4) and thresholds {.25,.5} with (0,0) + HybridConfig::default() with 1 s budgets at thresholds {.5,.375,.125} = 57 configurations; quick tier also runs window DNFs over 6 and 8 seeds (thorough: 6, 8, 12) under the growth paths on thresholds {.375,.75} + the default configuration; third clock mode 'step' (every reading advances time by 1 ms and both budgets are j ms, for every j in [1, readings+1]: the SDD deadline expires strictly inside the compile, also after a top-k expiry), run for every configuration of the exclusive-group set, every second configuration of the other round-3 sets and every sixth configuration of the 12- and 30-configuration sets (thorough: all of those, and the quarter of the 240-grid with band > 0 and floor > 0); evaluate_topk additionally with time budgets 0 and 1 ns; end-to-end: one program with two exclusive groups and five programs with negation as failure in the top stratum (negated seed, absent fact, derived fact, triple asserted twice, member of an exclusive group), reference = stratified model per world. Oracle: exact truth-table probability p* (exclusive group = exactly one member true, member i with probability p_i, group mass 1; a missing seed = every completion p in [0,1] must be respected): Exact => |p-p*|<=1e-9; every reported lower/upper bound brackets p* (1e-9); Alert => p* >= threshold, NoAlert => p* < threshold (no slack when all probabilities are in {0,.5,1}, i.e. arithmetic is exact; 1e-9 otherwise); NeedsExact/Indeterminate always acceptable. non-trivial = (formula, probabilities, seed kinds) with 0 < p* < 1 and >= 2 distinct seeds in the formula; distinct = distinct such triples; outcomes = distinct (entry point, status, decision, reason, fault reached, fault changed the result)",
    assumptions: &[
        "reference: truth-table summation over all worlds (harness/src/reference/lineage_tt.rs), self-tested on hand-computed cases incl. the repository's own fixtures (0.64, 0.36, 0.2)",
        "exclusive groups are only generated with total mass 1 (an unreferenced filler member completes the group), where the exactly-one constraint of compile_lineage_to_sdd and the annotated-disjunction reading coincide",
        "a lineage that mentions a seed id absent from the snapshot has no single true probability; the oracle requires every certified statement to hold for every probability of that seed (checked at 0 and 1, p* is multilinear)",
        "strict (slack-free) threshold comparison only when every seed probability is in {0,0.5,1}: all sums/products are exact in f64, so a decision contradicting p* is a logic error, not rounding",
        "clock faults are monotone: single jump of +1h at reading n, or +1h at every reading from n on; time never goes backwards; budgets are 1 s so the fault-free counting clock (frozen time) never expires",
        "evaluate_topk and the end-to-end entry use the real clock with a 30 s budget; a real expiry there yields Err/NeedsExact, which the oracle accepts",
        "end-to-end programs: positive, acyclic predicate graph, <= 6 uncertain facts, 5 probability vectors each (exclusive groups get fixed mass-1 splits (.5,.5) (1,0) (.2,.8) / (.2,.3,.5) (.5,.5,0) (0,0,1)); only the soundness of returned results is judged here, completeness of derivation belongs to C05/C06 (counter e2e_derivable_fact_without_result is informative)",
        "invalid configurations are outside the property's quantifier (\"all valid configurations\"): they are run, and what they answer is only counted (invalid_config_needs_exact / invalid_config_other_answer / invalid_config_panic), never judged",
        "several exclusive groups are mutually independent and independent of the independent seeds (one member per group, product of the member probabilities); every generated group has mass 1",
        "stepping clock: budgets of j ms against a clock advancing 1 ms per reading; budgets are valid (non-zero) configuration values, so these runs are inside the quantifier",
        "end-to-end programs with negation: rules with a negated atom form the top stratum (their head predicates occur in no body; negated atoms are range-restricted), so the stratified model per world is positive closure + one pass, which is what the reference computes (asserted per program); the known single-negative-pass findings of C05/C06 concern rules ABOVE a negated rule and are not exercised here",
        "evaluate_topk with a zero / 1 ns budget uses the real clock: Err or a bracketing interval are both accepted",
        "SDD checkpoint counts may vary between runs (HashMap iteration inside the SDD package); a replay therefore re-runs every fault index of the recorded (formula, probabilities, config)",
    ],
    run,
    replay,
    cap_s: (55, 1800),
    shards: 0,
};

const FAMILIES: [&str; 17] = ["dnf", "dnf_allprobs", "dnf4", "nested", "nested_deep", "one_not", "exclusive", "missing", "special", "wide", "wide_exclusive", "dnf_window", "dnf12", "replay", "exclusive2", "exclusive3", "dnf_k"];
const PVALS: [f64; 5] = [0.0, 0.2, 0.5, 0.9, 1.0];
const GROUP_ID: u32 = 7;
const EPS: f64 = 1e-9;
const JUMP: Duration = Duration::from_secs(3600);

// ---------------------------------------------------------------------------------------------
// setups: formula + seed model, built through the real API
// ---------------------------------------------------------------------------------------------

#[derive(Clone, Debug)]
struct Setup {
    fam: &'static str,
    f: Fm,
    /// seed indices 0..n exist (index = SeedId)
    n: usize,
    probs: Vec<f64>,
    /// exclusive groups over seed indices < n (group i gets id 7+i, and a filler seed with index
    /// >= n when its members' probabilities sum to less than 1); `[[0,1]]` is the round-1 family
    groups: Vec<Vec<usize>>,
    /// seed index absent from the snapshot handed to the evaluator
    missing: Option<usize>,
}

impl Setup {
    fn json(&self) -> Value {
        json!({"fam": self.fam, "f": self.f.text(), "n": self.n, "probs": self.probs.iter().map(|p| format!("{:?}", p)).collect::<Vec<_>>(), "excl": !self.groups.is_empty(), "groups": self.groups, "missing": self.missing})
    }
    fn from_json(v: &Value) -> Option<Setup> {
        let fam = v.get("fam").and_then(|f| f.as_str()).unwrap_or("");
        let groups: Vec<Vec<usize>> = match v.get("groups").and_then(|g| g.as_array()) {
            Some(gs) => gs.iter().map(|g| g.as_array().map(|m| m.iter().filter_map(|x| x.as_u64()).map(|x| x as usize).collect::<Vec<usize>>())).collect::<Option<Vec<_>>>()?,
            // replay files written before the `groups` field existed
            None => {
                if v.get("excl").and_then(|e| e.as_bool()).unwrap_or(false) {
                    vec![vec![0, 1]]
                } else {
                    vec![]
                }
            }
        };
        Some(Setup {
            fam: FAMILIES.iter().copied().find(|f| *f == fam).unwrap_or("replay"),
            f: Fm::parse(v.get("f")?.as_str()?)?,
            n: v.get("n")?.as_u64()? as usize,
            probs: v.get("probs")?.as_array()?.iter().map(|p| p.as_str().and_then(|s| s.parse::<f64>().ok())).collect::<Option<Vec<f64>>>()?,
            groups,
            missing: v.get("missing").and_then(|m| m.as_u64()).map(|m| m as usize),
        })
    }
    fn key(&self) -> (String, Vec<u64>, Vec<Vec<usize>>, Option<usize>) {
        (self.f.text(), self.probs.iter().map(|p| p.to_bits()).collect(), self.groups.clone(), self.missing)
    }
    fn tags(&self) -> Vec<String> {
        let mut t = vec![format!("fam={}", self.fam)];
        t.push(if self.f.has_not() { "lineage=non_monotone".into() } else { "lineage=monotone".into() });
        if !self.groups.is_empty() {
            t.push("exclusive_group".into());
            t.push(format!("exclusive_groups={}", self.groups.len()));
            t.push(format!("largest_exclusive_group={}", self.groups.iter().map(|g| g.len()).max().unwrap_or(0)));
        }
        if self.missing.is_some() {
            t.push("missing_seed".into());
        }
        t
    }
}

struct Built {
    store: Arc<Mutex<LineageStore>>,
    seeds: Arc<SeedSnapshot>,
    root: LineageId,
    /// min / max of the true probability over the completions of a missing seed (equal otherwise)
    truth: (f64, f64),
    /// every probability in {0, 0.5, 1}
    strict: bool,
    nseeds_in_formula: usize,
}

fn seed_triple(i: usize) -> Triple {
    Triple { subject: 100 + i as u32, predicate: 10, object: 20 }
}

fn build_lineage(store: &mut LineageStore, f: &Fm, ids: &BTreeMap<usize, SeedId>) -> LineageId {
    match f {
        Fm::T => LineageId::TRUE,
        Fm::F => LineageId::FALSE,
        Fm::Lit(i) => store.literal(ids[&(*i as usize)]),
        Fm::And(v) => {
            let c: Vec<LineageId> = v.iter().map(|x| build_lineage(store, x, ids)).collect();
            store.and(c)
        }
        Fm::Or(v) => {
            let c: Vec<LineageId> = v.iter().map(|x| build_lineage(store, x, ids)).collect();
            store.or(c)
        }
        Fm::Not(x) => {
            let c = build_lineage(store, x, ids);
            store.not(c)
        }
    }
}

fn build(s: &Setup) -> Result<Built, String> {
    let mut probs = s.probs.clone();
    let mut groups: Vec<Vec<usize>> = s.groups.clone();
    for g in groups.iter_mut() {
        if g.iter().any(|i| *i >= s.n) {
            return Err("exclusive group member outside the seed range".into());
        }
        let rest = 1.0 - g.iter().map(|i| probs[*i]).sum::<f64>();
        if rest < -1e-12 {
            return Err("exclusive group mass > 1".into());
        }
        if rest > 1e-12 {
            probs.push(rest);
            g.push(probs.len() - 1);
        }
    }
    let in_group = |i: usize| groups.iter().any(|g| g.contains(&i));
    let spec_for = |skip: Option<usize>| -> Vec<SeedSpec> {
        let mut specs = Vec::new();
        for (gi, group) in groups.iter().enumerate() {
            specs.push(SeedSpec::ExclusiveGroup {
                group_id: GROUP_ID + gi as u32,
                choices: group.iter().filter(|g| Some(**g) != skip).map(|g| ExclusiveChoice { triple: seed_triple(*g), prob: probs[*g], choice_id: *g as u32 }).collect(),
            });
        }
        for i in 0..probs.len() {
            if in_group(i) || Some(i) == skip {
                continue;
            }
            specs.push(SeedSpec::Independent { triple: seed_triple(i), prob: probs[i], seed_id: i as u32 });
        }
        specs
    };
    let full = SeedSnapshot::from_seed_specs(&spec_for(None)).map_err(|e| format!("snapshot: {}", e))?;
    let ids: BTreeMap<usize, SeedId> = full.records().map(|r| (r.id.get() as usize, r.id)).collect();
    let snap = match s.missing {
        None => full,
        Some(m) => SeedSnapshot::from_seed_specs(&spec_for(Some(m))).map_err(|e| format!("snapshot: {}", e))?,
    };
    let mut store = LineageStore::new();
    let root = build_lineage(&mut store, &s.f, &ids);
    let truth = match s.missing {
        None => {
            let p = SeedModel { probs: probs.clone(), groups: groups.clone() }.prob(&s.f);
            (p, p)
        }
        Some(m) => {
            let mut lo = f64::INFINITY;
            let mut hi = f64::NEG_INFINITY;
            for pm in [0.0, 1.0] {
                let mut p2 = probs.clone();
                p2[m] = pm;
                let p = SeedModel { probs: p2, groups: groups.clone() }.prob(&s.f);
                lo = lo.min(p);
                hi = hi.max(p);
            }
            (lo, hi)
        }
    };
    let strict = probs.iter().enumerate().all(|(i, p)| Some(i) == s.missing || *p == 0.0 || *p == 0.5 || *p == 1.0);
    let mut used = BTreeSet::new();
    s.f.seeds(&mut used);
    Ok(Built { store: Arc::new(Mutex::new(store)), seeds: Arc::new(snap), root, truth, strict, nseeds_in_formula: used.len() })
}

// ---------------------------------------------------------------------------------------------
// the fault clock
// ---------------------------------------------------------------------------------------------

#[derive(Clone, Copy, PartialEq, Eq, Debug)]
enum FaultMode {
    None,
    /// +1h once, at reading `at`; every later reading returns the same instant
    Single,
    /// +1h at reading `at` and again at every later reading
    Runaway,
    /// stepping clock: every reading advances time by STEP, and BOTH budgets of the configuration
    /// are replaced by `at` x STEP: the top-k deadline expires `at` readings after the top-k phase
    /// started and the SDD deadline `at` readings after the compile started, i.e. (unlike the two
    /// jump modes) an SDD expiry strictly inside the compile after a top-k expiry
    Step,
}

const STEP: Duration = Duration::from_millis(1);

impl FaultMode {
    fn name(self) -> &'static str {
        match self {
            FaultMode::None => "none",
            FaultMode::Single => "single",
            FaultMode::Runaway => "runaway",
            FaultMode::Step => "step",
        }
    }
    fn parse(s: &str) -> FaultMode {
        match s {
            "single" => FaultMode::Single,
            "runaway" => FaultMode::Runaway,
            "step" => FaultMode::Step,
            _ => FaultMode::None,
        }
    }
}

struct FaultClock {
    base: Instant,
    reads: AtomicU64,
    mode: FaultMode,
    at: u64,
}

impl FaultClock {
    fn new(base: Instant, mode: FaultMode, at: u64) -> Self {
        FaultClock { base, reads: AtomicU64::new(0), mode, at }
    }
    fn reads(&self) -> u64 {
        self.reads.load(Ordering::SeqCst)
    }
}

impl HybridClock for FaultClock {
    fn now(&self) -> Instant {
        let i = self.reads.fetch_add(1, Ordering::SeqCst);
        match self.mode {
            FaultMode::None => self.base,
            FaultMode::Step => self.base + STEP * (i.min(1_000_000) as u32),
            _ if i < self.at => self.base,
            FaultMode::Single => self.base + JUMP,
            FaultMode::Runaway => self.base + JUMP * ((i - self.at + 1).min(100_000) as u32),
        }
    }
}

// ---------------------------------------------------------------------------------------------
// configurations
// ---------------------------------------------------------------------------------------------

fn base_config() -> HybridConfig {
    HybridConfig {
        threshold: 0.5,
        threshold_policy: ThresholdPolicyKind::Explicit,
        band_epsilon: 0.0,
        marginal_gain_floor: 0.0,
        k_initial: 1,
        k_max: 1,
        k_growth: 2,
        topk_budget: Duration::from_secs(1),
        sdd_budget: Duration::from_secs(1),
        sdd_node_budget: 1000,
    }
}

fn valid_configs() -> Vec<HybridConfig> {
    let mut v = Vec::new();
    for k_initial in [1usize, 2] {
        for k_max in [k_initial, 4] {
            for threshold in [0.0, 0.3, 0.5, 0.9, 1.0] {
                for band in [0.0, 0.2] {
                    for floor in [0.0, 0.05] {
                        for nb in [2usize, 8, 1000] {
                            v.push(HybridConfig { threshold, band_epsilon: band, marginal_gain_floor: floor, k_initial, k_max, sdd_node_budget: nb, ..base_config() });
                        }
                    }
                }
            }
        }
    }
    v
}

/// configurations rejected by `HybridConfig::validate` (k_growth < 2 is left out on purpose: if the
/// validation were ever skipped the controller would not terminate, and a hang is not a verdict)
fn invalid_configs() -> Vec<HybridConfig> {
    vec![
        HybridConfig { k_initial: 0, ..base_config() },
        HybridConfig { k_initial: 4, k_max: 2, ..base_config() },
        HybridConfig { threshold: 1.5, ..base_config() },
        HybridConfig { threshold: f64::NAN, ..base_config() },
        HybridConfig { band_epsilon: -0.1, ..base_config() },
        HybridConfig { sdd_node_budget: 1, ..base_config() },
        HybridConfig { topk_budget: Duration::ZERO, ..base_config() },
    ]
}

fn cfg_json(c: &HybridConfig) -> Value {
    json!({"threshold": format!("{:?}", c.threshold), "band": format!("{:?}", c.band_epsilon), "floor": format!("{:?}", c.marginal_gain_floor),
           "k_initial": c.k_initial, "k_max": c.k_max, "k_growth": c.k_growth, "node_budget": c.sdd_node_budget,
           "topk_budget_ms": c.topk_budget.as_millis() as u64, "sdd_budget_ms": c.sdd_budget.as_millis() as u64})
}

fn cfg_from_json(v: &Value) -> Option<HybridConfig> {
    let f = |k: &str| v.get(k).and_then(|x| x.as_str()).and_then(|s| s.parse::<f64>().ok());
    let u = |k: &str| v.get(k).and_then(|x| x.as_u64());
    Some(HybridConfig {
        threshold: f("threshold")?,
        threshold_policy: ThresholdPolicyKind::Explicit,
        band_epsilon: f("band")?,
        marginal_gain_floor: f("floor")?,
        k_initial: u("k_initial")? as usize,
        k_max: u("k_max")? as usize,
        k_growth: u("k_growth")? as usize,
        topk_budget: Duration::from_millis(u("topk_budget_ms")?),
        sdd_budget: Duration::from_millis(u("sdd_budget_ms")?),
        sdd_node_budget: u("node_budget")? as usize,
    })
}

// ---------------------------------------------------------------------------------------------
// oracle
// ---------------------------------------------------------------------------------------------

/// What a result claims, reduced to the parts the property speaks about.
#[derive(Clone, Debug, PartialEq)]
struct Claim {
    status: &'static str,
    decision: AlertDecision,
    reason: String,
    exact: Option<f64>,
    lower: Option<f64>,
    upper: Option<f64>,
}

impl Claim {
    fn of(r: &HybridProbabilityResult) -> Claim {
        let (exact, lower, upper) = match r {
            HybridProbabilityResult::Exact { probability, .. } => (Some(*probability), None, None),
            HybridProbabilityResult::LowerBound { lower_bound, .. } => (None, Some(*lower_bound), None),
            HybridProbabilityResult::Bounded { interval, .. } => (None, Some(interval.lower), Some(interval.upper)),
            HybridProbabilityResult::NeedsExact { lower_bound, upper_bound, .. } => (None, *lower_bound, *upper_bound),
            HybridProbabilityResult::UnsafeApproximation { .. } => (None, None, None),
        };
        Claim { status: r.status(), decision: r.decision(), reason: r.reason().as_str().to_string(), exact, lower, upper }
    }
    fn bits(&self) -> (&'static str, u8, String, Option<u64>, Option<u64>, Option<u64>) {
        (self.status, self.decision as u8, self.reason.clone(), self.exact.map(f64::to_bits), self.lower.map(f64::to_bits), self.upper.map(f64::to_bits))
    }
    fn show(&self) -> String {
        format!("{} decision={:?} reason={} exact={:?} lower={:?} upper={:?}", self.status, self.decision, self.reason, self.exact, self.lower, self.upper)
    }
}

/// The property, literally. `truth` = (min, max) of p* (equal unless a seed is missing).
/// Returns (symptom class, detail) of the first broken promise.
fn judge(c: &Claim, truth: (f64, f64), threshold: f64, strict: bool) -> Option<(&'static str, String)> {
    let (lo, hi) = truth;
    if let Some(p) = c.exact {
        if !((p - lo).abs() <= EPS && (p - hi).abs() <= EPS) {
            return Some(("exact_value_wrong", format!("marked exact with probability {:?} but p* = {:?}..{:?}", p, lo, hi)));
        }
    }
    if let Some(l) = c.lower {
        if !(l <= lo + EPS) {
            return Some(("lower_bound_above_truth", format!("lower bound {:?} > p* = {:?}", l, lo)));
        }
    }
    if let Some(u) = c.upper {
        if !(u >= hi - EPS) {
            return Some(("upper_bound_below_truth", format!("upper bound {:?} < p* = {:?}", u, hi)));
        }
    }
    let slack = if strict { 0.0 } else { EPS };
    match c.decision {
        AlertDecision::Alert => {
            if !(lo >= threshold - slack) {
                return Some(("alert_below_threshold", format!("Alert although p* = {:?} < threshold {:?}", lo, threshold)));
            }
        }
        AlertDecision::NoAlert => {
            if !(hi < threshold + slack) {
                return Some(("noalert_at_or_above_threshold", format!("NoAlert although p* = {:?} >= threshold {:?}", hi, threshold)));
            }
        }
        AlertDecision::Indeterminate => {}
    }
    None
}

// ---------------------------------------------------------------------------------------------
// drivers for the three direct entry points
// ---------------------------------------------------------------------------------------------

fn run_hybrid(b: &Built, cfg: &HybridConfig, mode: FaultMode, at: u64) -> Result<(Claim, u64), String> {
    let clock = FaultClock::new(Instant::now(), mode, at);
    let stepped;
    let cfg = if mode == FaultMode::Step {
        let budget = STEP * (at.clamp(1, 1_000_000) as u32);
        stepped = HybridConfig { topk_budget: budget, sdd_budget: budget, ..cfg.clone() };
        &stepped
    } else {
        cfg
    };
    let r = guarded(|| evaluate_hybrid_with_clock(&b.store, &b.seeds, b.root, cfg, &clock))?;
    Ok((Claim::of(&r), clock.reads()))
}

fn fault_json(mode: FaultMode, at: u64) -> Value {
    json!({"mode": mode.name(), "at": at})
}

struct Tally {
    hit: u64,
    not_reached: u64,
    changed: u64,
}

/// one (setup, config): fault-free run, then every fault index x mode. Returns evaluations made.
fn hybrid_all_faults(out: &mut ShardOut, s: &Setup, b: &Built, cfg: &HybridConfig, valid: bool, step: bool, tally: &mut Tally) {
    let mut one = |out: &mut ShardOut, mode: FaultMode, at: u64, base: Option<&Claim>| -> Option<(Claim, u64)> {
        out.evaluations += 1;
        let res = run_hybrid(b, cfg, mode, at);
        let case = || json!({"entry": "hybrid", "setup": s.json(), "cfg": cfg_json(cfg), "fault": fault_json(mode, at)});
        let mut tags = s.tags();
        tags.push("entry=evaluate_hybrid_with_clock".into());
        tags.push(format!("fault={}", mode.name()));
        if !valid {
            tags.push("invalid_config".into());
        }
        if b.strict {
            tags.push("dyadic_probabilities".into());
        }
        match res {
            Err(_) if !valid => {
                // outside the quantifier ("all valid configurations"): counted, not judged
                out.count("invalid_config_panic", 1);
                None
            }
            Err(p) => {
                // totality: the entry point returns a result enum, never an error
                let again = run_hybrid(b, cfg, mode, at);
                if again.is_err() {
                    out.fail(case(), "panic", p, tags);
                } else {
                    out.machinery_errors.push(format!("panic not reproduced: {} on {}", p, case()));
                }
                None
            }
            Ok((claim, reads)) => {
                let reached = mode == FaultMode::None || mode == FaultMode::Step || reads > at;
                let changed = base.map_or(false, |b0| b0.bits() != claim.bits());
                if mode != FaultMode::None {
                    if reached {
                        tally.hit += 1;
                    } else {
                        tally.not_reached += 1;
                    }
                    if changed {
                        tally.changed += 1;
                    }
                }
                out.outcome(&("hybrid", claim.status, claim.decision as u8, claim.reason.as_str(), mode != FaultMode::None && reached, changed, valid));
                match claim.decision {
                    AlertDecision::Alert => out.count("hybrid_decision_alert", 1),
                    AlertDecision::NoAlert => out.count("hybrid_decision_noalert", 1),
                    AlertDecision::Indeterminate => out.count("hybrid_decision_indeterminate", 1),
                }
                out.count(&format!("hybrid_{}_{}", claim.status, claim.reason), 1);
                if mode != FaultMode::None && reached {
                    // what the evaluator said after an injected expiry
                    out.count(&format!("after_expiry_{}_{:?}", claim.status, claim.decision), 1);
                }
                if mode == FaultMode::Step {
                    out.count("step_clock_runs", 1);
                    if changed {
                        out.count("step_clock_runs_changing_the_result", 1);
                    }
                    if claim.status == "NeedsExact" && claim.reason == "sdd-budget" && at >= 2 {
                        // the SDD deadline lies `at` >= 2 readings after the compile started: it expired
                        // strictly inside the compile, not at its first checkpoint
                        out.count("step_clock_sdd_expiry_inside_compile", 1);
                        if claim.lower.is_none() && base.map_or(false, |b0| b0.reason != "exact-sdd" && b0.reason != "sdd-budget") {
                            // ... and the fault-free run had been decided by the top-k phase, which here gave up first
                            out.count("step_clock_sdd_expiry_after_topk_expiry", 1);
                        }
                    }
                }
                if !valid {
                    // outside the quantifier ("all valid configurations"): counted, not judged
                    out.count(if claim.status == "NeedsExact" { "invalid_config_needs_exact" } else { "invalid_config_other_answer" }, 1);
                    return Some((claim, reads));
                }
                if let Some((sym, detail)) = judge(&claim, b.truth, cfg.threshold, b.strict) {
                    tags.push(format!("status={}", claim.status));
                    tags.push(format!("reason={}", claim.reason));
                    tags.push(format!("decision={:?}", claim.decision));
                    // determinism before verdict
                    let again = run_hybrid(b, cfg, mode, at);
                    let still = match &again {
                        Ok((c2, _)) => judge(c2, b.truth, cfg.threshold, b.strict).map(|x| x.0) == Some(sym),
                        Err(_) => false,
                    };
                    if still {
                        out.fail(case(), sym, format!("{}; result: {}; truth {:?}; {} clock readings", detail, claim.show(), b.truth, reads), tags);
                    } else {
                        out.machinery_errors.push(format!("failure not reproduced on immediate re-execution: {} / {} vs {:?}", case(), claim.show(), again.map(|a| a.0.show())));
                    }
                }
                Some((claim, reads))
            }
        }
    };
    let Some((base, reads0)) = one(out, FaultMode::None, 0, None) else { return };
    out.max("max_clock_readings_fault_free", reads0);
    for mode in [FaultMode::Single, FaultMode::Runaway] {
        for at in 0..reads0 {
            one(out, mode, at, Some(&base));
        }
    }
    if step && valid {
        // budgets of j clock steps for every j up to the number of readings of the fault-free run (+1:
        // a budget that is never exhausted under the stepping clock)
        for at in 1..=reads0 + 1 {
            one(out, FaultMode::Step, at, Some(&base));
        }
    }
}

fn check_topk(out: &mut ShardOut, s: &Setup, b: &Built) {
    let guard = match b.store.lock() {
        Ok(g) => g,
        Err(_) => return,
    };
    // time budgets: generous; zero (the deadline has passed before the first proof is popped); 1 ns
    for (k, nb, budget) in [0usize, 1, 2, 3, 4, 8].into_iter().flat_map(|k| [2usize, 8, 1000].into_iter().map(move |nb| (k, nb))).flat_map(|(k, nb)| [Duration::from_secs(30), Duration::ZERO, Duration::from_nanos(1)].into_iter().map(move |bu| (k, nb, bu))) {
        {
            if !budget.is_zero() && budget < Duration::from_secs(1) && nb != 1000 {
                continue; // the 1 ns budget once per k
            }
            out.evaluations += 1;
            let call = || guarded(|| evaluate_topk(&guard, &b.seeds, b.root, k, budget, nb));
            let case = || json!({"entry": "topk", "setup": s.json(), "k": k, "node_budget": nb, "budget_ns": budget.as_nanos() as u64});
            let mut tags = s.tags();
            tags.push("entry=evaluate_topk".into());
            if budget < Duration::from_secs(1) {
                tags.push("topk_budget=tiny".into());
                out.count("topk_tiny_budget_calls", 1);
            }
            let verdict = |r: &Result<Result<shared::hybrid::TopKEvaluation, shared::hybrid::HybridReason>, String>| -> Option<(&'static str, String)> {
                match r {
                    Err(p) => Some(("panic", p.clone())),
                    Ok(Err(_)) => None,
                    Ok(Ok(ev)) => {
                        let (lo, hi) = b.truth;
                        if !(ev.lower_bound <= lo + EPS) {
                            Some(("lower_bound_above_truth", format!("evaluate_topk lower_bound {:?} > p* {:?}", ev.lower_bound, lo)))
                        } else if !(ev.interval.lower <= lo + EPS) {
                            Some(("lower_bound_above_truth", format!("evaluate_topk interval.lower {:?} > p* {:?}", ev.interval.lower, lo)))
                        } else if !(ev.interval.upper >= hi - EPS) {
                            Some(("upper_bound_below_truth", format!("evaluate_topk interval.upper {:?} < p* {:?} (lower {:?}, k_used {}, exhausted {})", ev.interval.upper, hi, ev.interval.lower, ev.k_used, ev.frontier_exhausted)))
                        } else {
                            None
                        }
                    }
                }
            };
            let r = call();
            match &r {
                Ok(Ok(ev)) => {
                    out.count("topk_ok", 1);
                    if ev.frontier_exhausted {
                        out.count("topk_frontier_exhausted", 1);
                    }
                    if ev.interval.upper - ev.interval.lower > 1e-6 {
                        out.count("topk_proper_interval", 1);
                    }
                    out.outcome(&("topk", "ok", ev.frontier_exhausted, ev.cap_hit, ev.interval.upper > ev.interval.lower));
                }
                Ok(Err(reason)) => {
                    out.count(&format!("topk_err_{}", reason.as_str()), 1);
                    out.outcome(&("topk", "err", reason.as_str()));
                }
                Err(_) => {}
            }
            if let Some((sym, detail)) = verdict(&r) {
                let again = call();
                if verdict(&again).map(|x| x.0) == Some(sym) {
                    out.fail(case(), sym, detail, tags);
                } else {
                    out.machinery_errors.push(format!("topk failure not reproduced: {}", case()));
                }
            }
        }
    }
}

fn run_compile(b: &Built, nb: usize, mode: FaultMode, at: u64) -> Result<(Result<(f64, usize), String>, u64), String> {
    let guard = b.store.lock().map_err(|_| "poisoned".to_string())?;
    let clock = FaultClock::new(Instant::now(), mode, at);
    let r = guarded(|| compile_lineage_to_sdd_with_clock(&guard, &b.seeds, b.root, Duration::from_secs(1), nb, &clock).map(|c| (c.manager.wmc(c.root), c.manager.node_count())))?;
    Ok((r.map_err(|e| e.as_str().to_string()), clock.reads()))
}

fn check_compile(out: &mut ShardOut, s: &Setup, b: &Built) {
    let one = |out: &mut ShardOut, nb: usize, mode: FaultMode, at: u64| -> Option<(Option<usize>, u64)> {
        out.evaluations += 1;
        let case = || json!({"entry": "compile", "setup": s.json(), "node_budget": nb, "fault": fault_json(mode, at)});
        let mut tags = s.tags();
        tags.push("entry=compile_lineage_to_sdd_with_clock".into());
        tags.push(format!("fault={}", mode.name()));
        let verdict = |r: &Result<(Result<(f64, usize), String>, u64), String>| -> Option<(&'static str, String)> {
            match r {
                Err(p) => Some(("panic", p.clone())),
                Ok((Err(_), _)) => None,
                Ok((Ok((w, _)), _)) => {
                    let (lo, hi) = b.truth;
                    if (w - lo).abs() <= EPS && (w - hi).abs() <= EPS {
                        None
                    } else {
                        Some(("exact_value_wrong", format!("compiled SDD has WMC {:?} but p* = {:?}..{:?}", w, lo, hi)))
                    }
                }
            }
        };
        let r = run_compile(b, nb, mode, at);
        if let Some((sym, detail)) = verdict(&r) {
            let again = run_compile(b, nb, mode, at);
            if verdict(&again).map(|x| x.0) == Some(sym) {
                out.fail(case(), sym, detail, tags);
            } else {
                out.machinery_errors.push(format!("compile failure not reproduced: {}", case()));
            }
        }
        match r {
            Ok((Ok((_, nodes)), reads)) => {
                out.count("compile_ok", 1);
                out.outcome(&("compile", "ok", mode != FaultMode::None));
                Some((Some(nodes), reads))
            }
            Ok((Err(reason), reads)) => {
                out.count(&format!("compile_err_{}", reason), 1);
                out.outcome(&("compile", "err", reason, mode != FaultMode::None));
                Some((None, reads))
            }
            Err(_) => None,
        }
    };
    let Some((nodes, reads0)) = one(out, 1000, FaultMode::None, 0) else { return };
    for at in 0..reads0 {
        one(out, 1000, FaultMode::Single, at);
    }
    if let Some(nodes) = nodes {
        out.max("max_sdd_nodes", nodes as u64);
        for nb in 2..=(nodes + 1) {
            one(out, nb, FaultMode::None, 0);
        }
    }
}

// ---------------------------------------------------------------------------------------------
// enumeration of setups
// ---------------------------------------------------------------------------------------------

fn clause(mask: u32) -> Fm {
    let lits: Vec<Fm> = (0..16u8).filter(|i| mask & (1 << i) != 0).map(Fm::Lit).collect();
    if lits.len() == 1 {
        lits.into_iter().next().unwrap()
    } else {
        Fm::And(lits)
    }
}

fn disj(mask: u32) -> Fm {
    let lits: Vec<Fm> = (0..16u8).filter(|i| mask & (1 << i) != 0).map(Fm::Lit).collect();
    if lits.len() == 1 {
        lits.into_iter().next().unwrap()
    } else {
        Fm::Or(lits)
    }
}

fn dnf(clause_masks: &[u32]) -> Fm {
    if clause_masks.len() == 1 {
        clause(clause_masks[0])
    } else {
        Fm::Or(clause_masks.iter().map(|m| clause(*m)).collect())
    }
}

/// clause sets of all DNFs over n seeds with at most `max_clauses` clauses (clauses = non-empty seed
/// subsets, clause sets = subsets of those: includes subsumed clauses such as a | (a&b))
fn dnf_masks(n: usize, max_clauses: usize) -> Vec<Vec<u32>> {
    let nc = (1u32 << n) - 1; // clause masks 1..=nc
    let mut out = Vec::new();
    let mut cur: Vec<u32> = Vec::new();
    fn rec(start: u32, nc: u32, max: usize, cur: &mut Vec<u32>, out: &mut Vec<Vec<u32>>) {
        if !cur.is_empty() {
            out.push(cur.clone());
        }
        if cur.len() == max {
            return;
        }
        for m in start..=nc {
            cur.push(m);
            rec(m + 1, nc, max, cur, out);
            cur.pop();
        }
    }
    rec(1, nc, max_clauses, &mut cur, &mut out);
    out
}

/// And(Or(S1), Or(S2)) for all unordered pairs of non-empty seed subsets
fn nested_and_or(n: usize) -> Vec<Fm> {
    let nc = (1u32 << n) - 1;
    let mut out = Vec::new();
    for a in 1..=nc {
        for b in a..=nc {
            out.push(Fm::And(vec![disj(a), disj(b)]));
        }
    }
    out
}

/// And(Or(C1,C2), Or(C3,C4)) with Ci conjunctions of 1..2 literals over 3 seeds
fn nested_and_or_of_clauses() -> Vec<Fm> {
    let cl: Vec<u32> = (1u32..8).filter(|m| m.count_ones() <= 2).collect();
    let mut pairs = Vec::new();
    for i in 0..cl.len() {
        for j in i..cl.len() {
            pairs.push(if i == j { clause(cl[i]) } else { Fm::Or(vec![clause(cl[i]), clause(cl[j])]) });
        }
    }
    let mut out = Vec::new();
    for i in 0..pairs.len() {
        for j in i..pairs.len() {
            out.push(Fm::And(vec![pairs[i].clone(), pairs[j].clone()]));
        }
    }
    out
}

/// Or(And(Or(S1),Or(S2)), C): depth-3 nesting
fn nested_depth3(n: usize) -> Vec<Fm> {
    let mut out = Vec::new();
    let cl: Vec<u32> = (1u32..(1 << n)).filter(|m| m.count_ones() <= 2).collect();
    for base in nested_and_or(n) {
        for c in &cl {
            out.push(Fm::Or(vec![base.clone(), clause(*c)]));
        }
    }
    out
}

/// every formula obtained by negating exactly one sub-term position
fn not_variants(f: &Fm) -> Vec<Fm> {
    let mut out = vec![Fm::Not(Box::new(f.clone()))];
    match f {
        Fm::And(v) | Fm::Or(v) => {
            for i in 0..v.len() {
                for nv in not_variants(&v[i]) {
                    let mut w = v.clone();
                    w[i] = nv;
                    out.push(if matches!(f, Fm::And(_)) { Fm::And(w) } else { Fm::Or(w) });
                }
            }
        }
        Fm::Not(x) => {
            for nv in not_variants(x) {
                out.push(Fm::Not(Box::new(nv)));
            }
        }
        _ => {}
    }
    out
}

fn specials() -> Vec<Fm> {
    let a = || Fm::Lit(0);
    let b = || Fm::Lit(1);
    let not = |f: Fm| Fm::Not(Box::new(f));
    vec![
        Fm::T,
        Fm::F,
        a(),
        not(a()),
        not(not(a())),
        Fm::Or(vec![a(), not(a())]),
        Fm::And(vec![a(), not(a())]),
        Fm::And(vec![a(), Fm::T]),
        Fm::And(vec![a(), Fm::F]),
        Fm::Or(vec![a(), Fm::T]),
        Fm::Or(vec![a(), Fm::F]),
        Fm::And(vec![a()]),
        Fm::Or(vec![]),
        Fm::And(vec![]),
        Fm::Or(vec![a(), a()]),
        Fm::And(vec![a(), b(), a()]),
        Fm::And(vec![Fm::Or(vec![a(), b()]), not(Fm::Or(vec![a(), b()]))]),
        Fm::Or(vec![Fm::And(vec![a(), b()]), not(Fm::And(vec![a(), b()]))]),
        Fm::Or(vec![Fm::And(vec![a(), b()]), Fm::And(vec![b(), a()])]),
        Fm::And(vec![Fm::Or(vec![a(), b()]), Fm::Or(vec![b(), a()])]),
        Fm::Or(vec![Fm::Or(vec![a(), b()]), Fm::And(vec![a(), b()])]),
        not(Fm::And(vec![not(a()), not(b())])),
        Fm::And(vec![not(a()), not(b())]),
    ]
}

/// window DNFs over 12 seeds: clauses are windows of width w at stride s; optional extra clause
fn window_dnfs(n: usize) -> Vec<Fm> {
    let mut out = Vec::new();
    for w in 1..=4usize {
        for s in 1..=w {
            let mut all: Vec<u32> = Vec::new();
            let mut start = 0;
            while start + w <= n {
                all.push((((1u32 << w) - 1) << start) as u32);
                start += s;
            }
            for m in [2usize, 3, 5, 8, all.len()] {
                if m > all.len() || m < 2 {
                    continue;
                }
                let cls: Vec<u32> = all[..m].to_vec();
                out.push(dnf(&cls));
                // plus a clause subsumed by the first one, and a late singleton
                let mut c2 = cls.clone();
                c2.push(cls[0] | (1 << (n - 1)));
                c2.push(1 << (n - 1));
                c2.sort();
                c2.dedup();
                out.push(dnf(&c2));
            }
        }
    }
    out.sort();
    out.dedup();
    out
}

/// the fixed probability vectors (first two are dyadic => strict threshold comparison; the last one is
/// uniformly low: many proofs of small mass, so the residual/probe part of the upper bound matters)
const PVECS: [[f64; 12]; 5] = [
    [0.5; 12],
    [1.0, 0.5, 0.0, 0.5, 1.0, 0.5, 0.5, 0.0, 0.5, 1.0, 0.5, 0.5],
    [0.9, 0.2, 0.5, 1.0, 0.2, 0.9, 0.5, 0.2, 0.9, 0.0, 0.5, 0.2],
    [0.2, 0.9, 0.0, 0.5, 0.9, 0.2, 1.0, 0.5, 0.2, 0.9, 0.9, 0.5],
    [0.2; 12],
];

fn all_prob_vectors(n: usize) -> Vec<Vec<f64>> {
    let mut out = vec![vec![]];
    for _ in 0..n {
        let mut next = Vec::new();
        for v in &out {
            for p in PVALS {
                let mut w: Vec<f64> = v.clone();
                w.push(p);
                next.push(w);
            }
        }
        out = next;
    }
    out
}

/// (p0,p1) must leave a group mass <= 1
fn group_ok(p: &[f64]) -> bool {
    p[0] + p[1] <= 1.0 + 1e-12
}

#[derive(Clone, Copy, PartialEq)]
enum Cfgs {
    /// all 240 valid configurations + the 7 invalid ones
    Full,
    /// k (1,1),(1,4),(2,4) x 5 thresholds x node budgets {8,1000}, band 0.2 floor 0.05: 30 configurations
    Reduced,
    /// k (1,1),(1,4) x 5 thresholds x node budget 1000 (band .2, floor .05) + k (2,4) x thresholds {.3,.9} x node budget 8 (band 0, floor 0): 12
    Tiny,
    /// round-3 grid: 9 growth paths (k_growth 3, k_max up to 64, k_initial 3 / 8) x 5 dyadic-eighth thresholds (band .02 / floor 1e-4 on four, band 0 / floor 0 on two of them) + 3 default-configuration variants: 57
    Extra,
    /// Tiny + the 9 growth paths on thresholds {.375,.75} + 2 default-configuration variants: 32
    TinyK,
    /// the 9 growth paths on thresholds {.375,.75} + 2 default-configuration variants: 20
    OnlyK,
    /// for lineages over exclusive groups (top-k phase never entered): thresholds {.3,.5,.9} at node budget 1000, threshold .5 at node budgets 8 and 16: 5
    Excl,
}

struct Job {
    setup: Setup,
    cfgs: Cfgs,
    direct: bool, // also exercise evaluate_topk and compile_lineage_to_sdd_with_clock
}

fn is_antichain(masks: &[u32]) -> bool {
    for (i, a) in masks.iter().enumerate() {
        for (j, b) in masks.iter().enumerate() {
            if i != j && a & b == *a {
                return false;
            }
        }
    }
    true
}

fn enumerate_jobs(thorough: bool) -> Vec<Job> {
    let mut jobs = Vec::new();
    let mut push = |fam: &'static str, f: &Fm, n: usize, probs: Vec<f64>, excl: bool, missing: Option<usize>, cfgs: Cfgs, direct: bool| {
        jobs.push(Job { setup: Setup { fam, f: f.clone(), n, probs, groups: if excl { vec![vec![0, 1]] } else { vec![] }, missing }, cfgs, direct });
    };
    let pv = |i: usize, n: usize| PVECS[i][..n].to_vec();
    let forms = |m: &[Vec<u32>]| -> Vec<Fm> { m.iter().map(|c| dnf(c)).collect() };

    let dnf3m = dnf_masks(3, 7);
    let dnf3 = forms(&dnf3m);
    // the 18 irredundant DNFs = all non-constant monotone functions of 3 seeds
    let anti3: Vec<Fm> = dnf3m.iter().filter(|m| is_antichain(m)).map(|m| dnf(m)).collect();
    let dnf3_le2 = forms(&dnf_masks(3, 2));

    // --- monotone DNFs, independent seeds ---
    for f in &dnf3 {
        for i in 0..5 {
            let cfgs = if (thorough && i != 4) || i == 2 { Cfgs::Full } else if i == 0 || i == 4 { Cfgs::Reduced } else { Cfgs::Tiny };
            push("dnf", f, 3, pv(i, 3), false, None, cfgs, cfgs != Cfgs::Tiny);
        }
    }
    // every probability assignment over the value set
    // (thorough: every DNF; quick: the irredundant ones with >= 2 clauses)
    let allprob_forms: Vec<Fm> = dnf3m.iter().filter(|m| thorough || (m.len() >= 2 && is_antichain(m))).map(|m| dnf(m)).collect();
    for f in &allprob_forms {
        for p in all_prob_vectors(3) {
            push("dnf_allprobs", f, 3, p, false, None, Cfgs::Tiny, false);
        }
    }
    if thorough {
        // all 32767 DNFs over 4 seeds
        for m in dnf_masks(4, 15) {
            let small = m.len() <= 3;
            let f = dnf(&m);
            push("dnf4", &f, 4, pv(2, 4), false, None, if small { Cfgs::Full } else { Cfgs::Tiny }, small);
            if m.len() <= 4 || is_antichain(&m) {
                push("dnf4", &f, 4, pv(0, 4), false, None, Cfgs::Tiny, false);
                push("dnf4", &f, 4, pv(4, 4), false, None, Cfgs::Tiny, false);
            }
        }
    } else {
        for m in dnf_masks(4, 3) {
            let f = dnf(&m);
            push("dnf4", &f, 4, pv(2, 4), false, None, Cfgs::Tiny, false);
            if m.len() <= 2 {
                push("dnf4", &f, 4, pv(0, 4), false, None, Cfgs::Tiny, true);
            }
            if m.len() == 3 && is_antichain(&m) {
                push("dnf4", &f, 4, pv(4, 4), false, None, Cfgs::Tiny, false);
            }
        }
    }
    // --- nested And(Or,Or) ---
    for f in nested_and_or(3) {
        for i in 0..5 {
            if thorough || i == 0 || i == 2 {
                push("nested", &f, 3, pv(i, 3), false, None, Cfgs::Full, true);
            } else if i == 4 {
                push("nested", &f, 3, pv(i, 3), false, None, Cfgs::Tiny, false);
            }
        }
    }
    for f in nested_and_or(4) {
        for i in 0..5 {
            if thorough || i == 0 || i == 2 || i == 4 {
                push("nested", &f, 4, pv(i, 4), false, None, if thorough { Cfgs::Full } else { Cfgs::Tiny }, i != 4);
            }
        }
    }
    for f in nested_and_or_of_clauses().iter().chain(nested_depth3(3).iter()) {
        for i in 0..5 {
            if thorough || i == 2 || i == 4 {
                push("nested_deep", f, 3, pv(i, 3), false, None, if thorough { Cfgs::Full } else { Cfgs::Tiny }, thorough);
            }
        }
    }
    // --- exactly one Not ---
    let mut neg: Vec<(usize, Fm)> = Vec::new();
    for f in if thorough { &dnf3 } else { &dnf3_le2 } {
        neg.extend(not_variants(f).into_iter().map(|g| (3, g)));
    }
    for f in nested_and_or(3) {
        neg.extend(not_variants(&f).into_iter().map(|g| (3, g)));
    }
    if thorough {
        for f in nested_and_or(4).iter() {
            neg.extend(not_variants(f).into_iter().map(|g| (4, g)));
        }
    }
    neg.sort();
    neg.dedup();
    for (n, f) in &neg {
        for i in [0usize, 2, 3] {
            if thorough || i != 3 {
                push("one_not", f, *n, pv(i, *n), false, None, if thorough { Cfgs::Reduced } else { Cfgs::Tiny }, true);
            }
        }
    }
    // --- exclusive group {0,1} ---
    let mut excl_forms: Vec<(usize, Fm)> = Vec::new();
    excl_forms.extend(dnf3_le2.iter().cloned().map(|f| (3, f)));
    excl_forms.extend(anti3.iter().cloned().map(|f| (3, f)));
    excl_forms.extend(nested_and_or(3).into_iter().map(|f| (3, f)));
    for f in forms(&dnf_masks(2, 3)).iter().chain([Fm::And(vec![disj(3), disj(6)])].iter()) {
        excl_forms.extend(not_variants(f).into_iter().map(|g| (3, g)));
    }
    if thorough {
        excl_forms.extend(dnf3.iter().cloned().map(|f| (3, f)));
        excl_forms.extend(nested_and_or(4).into_iter().map(|f| (4, f)));
        for f in nested_and_or(3).iter().chain(dnf3_le2.iter()) {
            excl_forms.extend(not_variants(f).into_iter().map(|g| (3, g)));
        }
    }
    excl_forms.sort();
    excl_forms.dedup();
    let p01s: Vec<[f64; 2]> = vec![[0.5, 0.5], [0.2, 0.5], [0.0, 1.0], [0.9, 0.0], [0.2, 0.2], [1.0, 0.0], [0.5, 0.2], [0.0, 0.0]];
    for (n, f) in &excl_forms {
        for p01 in p01s.iter().take(if !thorough { 5 } else if *n == 4 { 4 } else { 8 }) {
            let mut p = p01.to_vec();
            p.extend_from_slice(&PVECS[2][2..*n]);
            push("exclusive", f, *n, p, true, None, if thorough { Cfgs::Reduced } else { Cfgs::Tiny }, true);
        }
    }
    // --- a seed id missing from the snapshot ---
    for f in &dnf3 {
        let irredundant = anti3.contains(f);
        for m in 0..3 {
            for i in 0..4 {
                if thorough || (irredundant && (i == 0 || i == 2)) {
                    push("missing", f, 3, pv(i, 3), false, Some(m), Cfgs::Full, true);
                } else if i == 2 && m != 1 {
                    push("missing", f, 3, pv(i, 3), false, Some(m), Cfgs::Reduced, true);
                }
            }
        }
    }
    for f in nested_and_or(3).iter().chain(forms(&dnf_masks(4, 2)).iter()) {
        for m in [0usize, 3] {
            push("missing", f, 4, pv(2, 4), false, Some(m), if thorough { Cfgs::Full } else { Cfgs::Tiny }, true);
        }
    }
    for (n, f) in neg.iter().step_by(if thorough { 3 } else { 9 }) {
        push("missing", f, *n, pv(2, *n), false, Some(1), Cfgs::Tiny, true);
    }
    // --- specials (constants, complements, duplicates): every probability pair ---
    for f in &specials() {
        for p in all_prob_vectors(2) {
            let full = thorough || (p[0] == 0.5 && p[1] == 0.5) || (p[0] == 0.2 && p[1] == 0.9);
            push("special", f, 2, p.clone(), false, None, if full { Cfgs::Full } else { Cfgs::Tiny }, true);
            if group_ok(&p) {
                push("special", f, 2, p, true, None, if full { Cfgs::Full } else { Cfgs::Tiny }, true);
            }
        }
    }
    // --- thorough: 5 and 6 seeds, window DNFs over 6, 8 and 12 seeds ---
    if thorough {
        for n in [5usize, 6] {
            for f in forms(&dnf_masks(n, 2)).iter().chain(nested_and_or(n).iter()) {
                let mut used = BTreeSet::new();
                f.seeds(&mut used);
                if used.len() < n - 1 {
                    continue; // covered (up to renaming) by a smaller case
                }
                push("wide", f, n, pv(2, n), false, None, Cfgs::Tiny, true);
                push("wide", f, n, pv(4, n), false, None, Cfgs::Tiny, false);
                if n == 5 {
                    push("wide", f, n, pv(0, n), false, None, Cfgs::Tiny, false);
                    let mut p = vec![0.5, 0.2];
                    p.extend_from_slice(&PVECS[2][2..n]);
                    push("wide_exclusive", f, n, p, true, None, Cfgs::Tiny, false);
                }
            }
        }
        for n in [6usize, 8] {
            for f in window_dnfs(n) {
                for i in [0usize, 2, 4] {
                    push("dnf_window", &f, n, pv(i, n), false, None, Cfgs::Full, true);
                }
            }
        }
        for f in window_dnfs(12) {
            for i in 0..5 {
                push("dnf12", &f, 12, pv(i, 12), false, None, Cfgs::Full, true);
            }
        }
    }
    // ------------------------------- round 3 families -------------------------------
    let mut add = |fam: &'static str, f: &Fm, n: usize, probs: Vec<f64>, groups: Vec<Vec<usize>>, cfgs: Cfgs, direct: bool| {
        jobs.push(Job { setup: Setup { fam, f: f.clone(), n, probs, groups, missing: None }, cfgs, direct });
    };
    // --- two exclusive groups {0,1} and {2,3} (each completed to mass 1 by its own filler): the
    // per-group loop of the compiler runs twice; lineages touching one member of each group, both
    // members of one group, and single-Not variants
    let dnf4_le2 = forms(&dnf_masks(4, 2));
    let mut neg4: Vec<Fm> = Vec::new();
    for f in dnf4_le2.iter().chain([Fm::And(vec![disj(3), disj(12)]), Fm::And(vec![disj(5), disj(10)]), Fm::And(vec![disj(7), disj(14)])].iter()) {
        neg4.extend(not_variants(f));
    }
    neg4.sort();
    neg4.dedup();
    let splits2: [[f64; 4]; 5] = [[0.5, 0.5, 0.5, 0.5], [0.2, 0.5, 0.9, 0.0], [0.0, 1.0, 0.5, 0.2], [0.2, 0.2, 0.5, 0.5], [1.0, 0.0, 0.0, 0.0]];
    let g2 = || vec![vec![0usize, 1], vec![2, 3]];
    // (a lineage over two groups costs several hundred clock readings per run, and every reading is a
    // fault index under three clock modes: the quick tier takes two splits and the 5-configuration set)
    for (si, sp) in splits2.iter().enumerate() {
        if !thorough && si >= 2 {
            continue;
        }
        // quick: the second split (members of probability 0 / 0.9) meets every second formula
        for f in dnf4_le2.iter().chain(nested_and_or(4).iter()).step_by(if thorough || si == 0 { 1 } else { 2 }) {
            add("exclusive2", f, 4, sp.to_vec(), g2(), Cfgs::Excl, si == 0 || thorough);
        }
        for f in neg4.iter().step_by(if thorough { 1 } else { 8 }) {
            if thorough || si == 0 {
                add("exclusive2", f, 4, sp.to_vec(), g2(), Cfgs::Excl, thorough);
            }
        }
    }
    // --- one exclusive group of three {0,1,2} + an independent seed 3
    let splits3: [[f64; 3]; 4] = [[0.2, 0.3, 0.5], [0.2, 0.2, 0.2], [0.5, 0.5, 0.0], [0.0, 0.0, 1.0]];
    let mut forms3: Vec<Fm> = dnf4_le2.clone();
    forms3.extend(nested_and_or(3));
    let mut neg3: Vec<Fm> = Vec::new();
    for f in dnf3_le2.iter() {
        neg3.extend(not_variants(f));
    }
    neg3.sort();
    neg3.dedup();
    forms3.extend(neg3.into_iter().step_by(if thorough { 1 } else { 3 }));
    forms3.sort();
    forms3.dedup();
    for (si, sp) in splits3.iter().enumerate() {
        if !thorough && si >= 2 {
            continue;
        }
        for p3 in [0.5, 0.9] {
            if p3 == 0.9 && !thorough {
                continue;
            }
            let mut p = sp.to_vec();
            p.push(p3);
            for f in forms3.iter().step_by(if thorough || si == 0 { 1 } else { 2 }) {
                add("exclusive3", f, 4, p.clone(), vec![vec![0, 1, 2]], Cfgs::Excl, si == 0 || thorough);
            }
        }
    }
    // --- controller growth paths / default configuration / dyadic-eighth thresholds (Cfgs::Extra)
    for f in &dnf3 {
        add("dnf_k", f, 3, pv(0, 3), vec![], Cfgs::Extra, false);
        if thorough || anti3.contains(f) {
            add("dnf_k", f, 3, pv(1, 3), vec![], Cfgs::Extra, false);
        }
    }
    let mut nth = 0usize;
    for m in dnf_masks(4, if thorough { 4 } else { 3 }) {
        if m.len() >= 2 && is_antichain(&m) {
            nth += 1;
            if !thorough && m.len() == 3 && nth % 6 != 0 {
                continue;
            }
            add("dnf_k", &dnf(&m), 4, pv(0, 4), vec![], Cfgs::Extra, false);
            if thorough {
                add("dnf_k", &dnf(&m), 4, pv(4, 4), vec![], Cfgs::Extra, false);
            }
        }
    }
    // --- quick tier: window DNFs over 6 and 8 seeds (many small proofs: real residual / probe mass
    // and more than two controller rounds); the thorough tier has them above under the full grid
    if !thorough {
        for f in window_dnfs(6) {
            for i in [0usize, 4] {
                add("dnf_window", &f, 6, pv(i, 6), vec![], Cfgs::OnlyK, i == 4);
            }
        }
        for (fi, f) in window_dnfs(8).iter().enumerate() {
            match fi % 3 {
                0 => add("dnf_window", f, 8, pv(0, 8), vec![], Cfgs::OnlyK, false),
                1 => add("dnf_window", f, 8, pv(4, 8), vec![], Cfgs::Tiny, false),
                _ => {}
            }
        }
    } else {
        for n in [6usize, 8, 12] {
            for f in window_dnfs(n) {
                for i in [0usize, 4] {
                    add("dnf_window", &f, n, pv(i, n), vec![], Cfgs::TinyK, false);
                }
            }
        }
    }
    jobs
}

fn reduced_configs() -> Vec<HybridConfig> {
    let mut v = Vec::new();
    for (k_initial, k_max) in [(1usize, 1usize), (1, 4), (2, 4)] {
        for threshold in [0.0, 0.3, 0.5, 0.9, 1.0] {
            for nb in [8usize, 1000] {
                v.push(HybridConfig { threshold, band_epsilon: 0.2, marginal_gain_floor: 0.05, k_initial, k_max, sdd_node_budget: nb, ..base_config() });
            }
        }
    }
    v
}

fn tiny_configs() -> Vec<HybridConfig> {
    let mut v = Vec::new();
    for (k_initial, k_max) in [(1usize, 1usize), (1, 4)] {
        for threshold in [0.0, 0.3, 0.5, 0.9, 1.0] {
            v.push(HybridConfig { threshold, band_epsilon: 0.2, marginal_gain_floor: 0.05, k_initial, k_max, ..base_config() });
        }
    }
    for threshold in [0.3, 0.9] {
        v.push(HybridConfig { threshold, k_initial: 2, k_max: 4, sdd_node_budget: 8, ..base_config() });
    }
    v
}

/// controller growth paths not reachable with k_growth 2 and k_max <= 4: 1->3->4, 2->6, 1->2->3, a
/// single round at 3 and at 8, 3->6->8, 1->2->4->8->16, 8->16->32->64, 1->3->9->27->64
const EXTRA_K: [(usize, usize, usize); 9] = [(1, 4, 3), (2, 6, 3), (1, 3, 2), (3, 3, 2), (3, 8, 2), (8, 8, 2), (1, 16, 2), (8, 64, 2), (1, 64, 3)];

/// the shipped default configuration with 1 s budgets (so that only injected faults expire)
fn default_config_1s() -> HybridConfig {
    HybridConfig { topk_budget: Duration::from_secs(1), sdd_budget: Duration::from_secs(1), ..HybridConfig::default() }
}

/// round-3 grid: the growth paths above x thresholds on dyadic eighths (strict >= / < boundaries are met
/// whenever p* or a lower bound is a multiple of 1/8) x (band, gain floor) in {(.02,1e-4),(0,0)}, + the default configuration
fn extra_configs() -> Vec<HybridConfig> {
    let mut v = Vec::new();
    for (k_initial, k_max, k_growth) in EXTRA_K {
        for threshold in [0.125, 0.25, 0.375, 0.5, 0.75] {
            for (band, floor) in [(0.02, 1e-4), (0.0, 0.0)] {
                // (band 0 / floor 0 on two of the five thresholds; threshold .25 only there)
                if (band == 0.0) != (threshold == 0.25 || threshold == 0.5) && threshold != 0.5 {
                    continue;
                }
                v.push(HybridConfig { threshold, band_epsilon: band, marginal_gain_floor: floor, k_initial, k_max, k_growth, ..base_config() });
            }
        }
    }
    for threshold in [0.5, 0.375, 0.125] {
        v.push(HybridConfig { threshold, ..default_config_1s() });
    }
    v
}

/// the same growth paths on two thresholds only (for the larger formulas)
fn extra_k_configs() -> Vec<HybridConfig> {
    let mut v = Vec::new();
    for (k_initial, k_max, k_growth) in EXTRA_K {
        for threshold in [0.375, 0.75] {
            v.push(HybridConfig { threshold, band_epsilon: 0.02, marginal_gain_floor: 1e-4, k_initial, k_max, k_growth, ..base_config() });
        }
    }
    v.push(default_config_1s());
    v.push(HybridConfig { threshold: 0.375, ..default_config_1s() });
    v
}

/// lineages over exclusive groups never enter the top-k phase, so k / band / floor are irrelevant:
/// three thresholds at node budget 1000 and threshold .5 at node budgets 8 and 16
fn excl_configs() -> Vec<HybridConfig> {
    let mut v = Vec::new();
    for threshold in [0.3, 0.5, 0.9] {
        v.push(HybridConfig { threshold, ..base_config() });
    }
    for nb in [8usize, 16] {
        v.push(HybridConfig { sdd_node_budget: nb, ..base_config() });
    }
    v
}

struct ConfigSets {
    full: Vec<HybridConfig>,
    reduced: Vec<HybridConfig>,
    tiny: Vec<HybridConfig>,
    invalid: Vec<HybridConfig>,
    extra: Vec<HybridConfig>,
    tiny_k: Vec<HybridConfig>,
    excl: Vec<HybridConfig>,
    only_k: Vec<HybridConfig>,
    thorough: bool,
}

impl ConfigSets {
    fn new(thorough: bool) -> Self {
        let mut tiny_k = tiny_configs();
        tiny_k.extend(extra_k_configs());
        ConfigSets { full: valid_configs(), reduced: reduced_configs(), tiny: tiny_configs(), invalid: invalid_configs(), extra: extra_configs(), tiny_k, excl: excl_configs(), only_k: extra_k_configs(), thorough }
    }
}

fn run_job(out: &mut ShardOut, job: &Job, sets: &ConfigSets, tally: &mut Tally) {
    let s = &job.setup;
    let b = match build(s) {
        Ok(b) => b,
        Err(e) => {
            out.machinery_errors.push(format!("cannot build setup {}: {}", s.json(), e));
            return;
        }
    };
    out.count("setups", 1);
    out.count(&format!("setups_{}", s.fam), 1);
    let evals_before = out.evaluations;
    let t0 = Instant::now();
    if b.truth.0 > 0.0 && b.truth.1 < 1.0 && b.nseeds_in_formula >= 2 {
        out.nontrivial(&s.key());
    }
    let cfgs = match job.cfgs {
        Cfgs::Full => &sets.full,
        Cfgs::Reduced => &sets.reduced,
        Cfgs::Tiny => &sets.tiny,
        Cfgs::Extra => &sets.extra,
        Cfgs::TinyK => &sets.tiny_k,
        Cfgs::Excl => &sets.excl,
        Cfgs::OnlyK => &sets.only_k,
    };
    for (ci, cfg) in cfgs.iter().enumerate() {
        // the stepping clock: for every configuration of the exclusive-group set, every second one of
        // the other round-3 sets, every sixth of the Tiny / Reduced sets (thorough: all of them); in the 240-configuration
        // grid only in the thorough tier, on the quarter with band > 0 and gain floor > 0
        let step = match job.cfgs {
            Cfgs::Full => sets.thorough && cfg.band_epsilon > 0.0 && cfg.marginal_gain_floor > 0.0,
            Cfgs::Tiny | Cfgs::Reduced => sets.thorough || ci % 6 == 1,
            Cfgs::Extra | Cfgs::TinyK | Cfgs::OnlyK => sets.thorough || ci % 2 == 0,
            Cfgs::Excl => true,
        };
        hybrid_all_faults(out, s, &b, cfg, true, step, tally);
    }
    if job.cfgs == Cfgs::Full {
        for cfg in &sets.invalid {
            hybrid_all_faults(out, s, &b, cfg, false, false, tally);
        }
    }
    let evals_mid = out.evaluations;
    if job.direct {
        check_topk(out, s, &b);
        check_compile(out, s, &b);
    }
    out.count(&format!("evals_hybrid_{}", s.fam), evals_mid - evals_before);
    out.count(&format!("evals_direct_{}", s.fam), out.evaluations - evals_mid);
    out.count(&format!("cpu_ms_{}", s.fam), t0.elapsed().as_millis() as u64);
}

// ---------------------------------------------------------------------------------------------
// end to end: Reasoner::infer_new_facts_with_hybrid against possible worlds
// ---------------------------------------------------------------------------------------------

struct Prog {
    name: &'static str,
    rules: Vec<NRule>,
    certain: Vec<Atom>,
    /// seed i asserts this triple
    seeds: Vec<Atom>,
    /// exclusive groups as lists of seed indices (group i gets id 7+i)
    groups: Vec<Vec<usize>>,
}

fn at(s: &str) -> Atom {
    let v: Vec<&str> = s.split_whitespace().collect();
    assert!(v.len() == 3, "bad atom {:?}", s);
    (v[0].to_string(), v[1].to_string(), v[2].to_string())
}

/// `h1 ; h2 :- b1 , b2 , not b3` (a body atom starting with `not ` is negated)
fn nrule(s: &str) -> NRule {
    let (h, b) = s.split_once(":-").expect("rule needs :-");
    let mut body = Vec::new();
    let mut neg = Vec::new();
    for a in b.split(',') {
        match a.trim().strip_prefix("not ") {
            Some(n) => neg.push(at(n)),
            None => body.push(at(a)),
        }
    }
    NRule { head: h.split(';').map(at).collect(), body, neg }
}

fn prog(name: &'static str, rules: &[&str], certain: &[&str], seeds: &[&str], group: &[usize]) -> Prog {
    prog_g(name, rules, certain, seeds, if group.is_empty() { vec![] } else { vec![group.to_vec()] })
}

fn prog_g(name: &'static str, rules: &[&str], certain: &[&str], seeds: &[&str], groups: Vec<Vec<usize>>) -> Prog {
    let p = Prog { name, rules: rules.iter().map(|r| nrule(r)).collect(), certain: certain.iter().map(|a| at(a)).collect(), seeds: seeds.iter().map(|a| at(a)).collect(), groups };
    assert!(top_stratum_negation_only(&p.rules), "program {}: negation only in the top stratum", name);
    p
}

fn programs() -> Vec<Prog> {
    vec![
        prog("copy", &["?x q ?y :- ?x p ?y"], &[], &["a p b"], &[]),
        prog("join2", &["?x q ?z :- ?x p ?y , ?y p ?z"], &[], &["a p b", "b p c"], &[]),
        prog("two_proofs", &["?x q ?z :- ?x p ?y , ?y r ?z"], &[], &["a p b", "b r c", "a p d", "d r c"], &[]),
        prog("shared_evidence", &["?x q ?z :- ?x p ?y , ?y r ?z"], &[], &["a p b", "b r c", "b r e", "a p d", "d r c"], &[]),
        prog(
            "late_improvement",
            &["?x q ?z :- ?x p ?y , ?y p ?z", "?x m ?y :- ?x e ?y", "?x q ?y :- ?x m ?y", "?x s S :- ?x q ?y"],
            &[],
            &["a p b", "b p c", "a e c"],
            &[],
        ),
        prog("multi_head", &["?x q ?y ; ?y q2 ?x :- ?x p ?y"], &[], &["a p b", "b p a"], &[]),
        prog("constants", &["?x hot Y :- ?x temp high , ?x loc room1"], &["s2 loc room1"], &["s1 temp high", "s1 loc room1", "s2 temp high"], &[]),
        prog("certain_mix", &["?x q ?z :- ?x p ?y , ?y c ?z"], &["b c z", "b c w"], &["a p b", "d p b"], &[]),
        prog("duplicate_seed", &["?x q ?y :- ?x p ?y"], &[], &["a p b", "a p b", "c p d"], &[]),
        prog("exclusive3", &["?x isb B :- ?x p b", "?x both B :- ?x p b , ?x p c", "?x any B :- ?x p ?y", "?x bd B :- ?x p b , ?x w d"], &[], &["a p b", "a p c", "a p d", "a w d"], &[0, 1, 2]),
        prog("exclusive2_join", &["?x r ?z :- ?x p ?y , ?y q ?z"], &[], &["a p b", "a p c", "b q z", "c q z"], &[0, 1]),
        prog("fan_in6", &["?y hit H :- ?x p ?y"], &[], &["x1 p a", "x2 p a", "x3 p a", "x4 p a", "x5 p a", "x6 p a"], &[]),
        prog("diamond", &["?x h2 ?z :- ?x e ?y , ?y e ?z"], &[], &["a e b", "b e d", "a e c", "c e d"], &[]),
        prog("three_hop", &["?x h2 ?z :- ?x e ?y , ?y e ?z", "?x h3 ?w :- ?x h2 ?z , ?z e ?w"], &[], &["a e b", "b e c", "c e d", "a e c"], &[]),
        prog("self_loop", &["?x loop L :- ?x e ?x"], &[], &["a e a", "b e c"], &[]),
        prog("three_premises", &["?x t ?w :- ?x p ?y , ?y q ?z , ?z r ?w"], &[], &["a p b", "b q c", "c r d", "b q e", "e r d"], &[]),
        prog("seed_also_derived", &["?x q ?y :- ?x p ?y", "?x r R :- ?x q ?y"], &[], &["a q b", "a p b"], &[]),
        prog("two_rules_same_head", &["?x q ?y :- ?x p ?y", "?x q ?y :- ?y p2 ?x"], &[], &["a p b", "b p2 a", "c p d"], &[]),
        prog("cross_product", &["?x pair ?y :- ?x isa A , ?y isb B"], &[], &["a1 isa A", "a2 isa A", "b1 isb B"], &[]),
        prog("strata3", &["?x q ?y :- ?x p ?y", "?x r ?y :- ?x q ?y", "?x s ?z :- ?x r ?y , ?y r ?z"], &[], &["a p b", "b p c", "a p c", "c p d"], &[]),
        prog("and_of_ors", &["?x ok O :- ?x a1 ?y , ?x b1 ?z", "?x a1 ?y :- ?x a2 ?y", "?x b1 ?y :- ?x b2 ?y"], &[], &["n a1 u", "n a2 u", "n b1 v", "n b2 v"], &[]),
        // round 3: two exclusive groups in one program (the second with an independent third proof)
        prog_g(
            "exclusive_two_groups",
            &["?x r ?z :- ?x p ?y , ?y q ?z", "?x both B :- ?x p b , ?x p c", "?y two T :- ?y q z , ?y q w"],
            &[],
            &["a p b", "a p c", "b q z", "b q w", "c q z"],
            vec![vec![0, 1], vec![2, 3]],
        ),
        // round 3: negation as failure in the top stratum only (heads feed no rule), so the
        // lineage handed to the evaluator contains Not: over a seed, over an absent fact, over a
        // derived fact, over a triple asserted by two seeds, over a member of an exclusive group
        prog("neg_seed", &["?x alarm A :- ?x temp high , not ?x maint yes"], &[], &["s1 temp high", "s1 maint yes", "s2 temp high"], &[]),
        prog("neg_derived", &["?x q ?y :- ?x p ?y", "?x only O :- ?x r ?y , not ?x q ?y"], &[], &["a p b", "a r b", "a r c"], &[]),
        prog("neg_dup_seed", &["?x only O :- ?x r ?y , not ?x p ?y"], &[], &["a p b", "a p b", "a r b"], &[]),
        prog("neg_exclusive", &["?x notb N :- ?x w d , not ?x p b"], &[], &["a p b", "a p c", "a w d"], &[0, 1]),
        prog("neg_two_negs", &["?x ok O :- ?x a ?y , not ?x b ?y , not ?x c ?y"], &["m a u"], &["n a u", "n b u", "n c u", "n a v", "m b u"], &[]),
    ]
}

/// probability vectors for a program: generic vectors for independent seeds, fixed mass-1 splits for the group
fn prog_prob_vectors(p: &Prog) -> Vec<Vec<f64>> {
    let n = p.seeds.len();
    let splits_for = |len: usize| -> Vec<Vec<f64>> {
        match len {
            2 => vec![vec![0.5, 0.5], vec![1.0, 0.0], vec![0.2, 0.8]],
            3 => vec![vec![0.2, 0.3, 0.5], vec![0.5, 0.5, 0.0], vec![0.0, 0.0, 1.0]],
            _ => panic!("unsupported group size"),
        }
    };
    let mut out = Vec::new();
    for (vi, base) in PVECS.iter().enumerate() {
        let mut v = base[..n].to_vec();
        for (gi, group) in p.groups.iter().enumerate() {
            let splits = splits_for(group.len());
            // (the second group walks its splits in another order than the first)
            let split = &splits[(vi + gi * (1 + vi / splits.len())) % splits.len()];
            for (k, g) in group.iter().enumerate() {
                v[*g] = split[k];
            }
        }
        out.push(v);
    }
    out
}

fn term(dict: &mut shared::dictionary::Dictionary, t: &str) -> Term {
    if let Some(v) = t.strip_prefix('?') {
        Term::Variable(v.to_string())
    } else {
        Term::Constant(dict.encode(t))
    }
}

type E2eObs = Result<Vec<(Atom, Claim)>, String>;

fn run_e2e(p: &Prog, probs: &[f64], cfg: &HybridConfig) -> Result<E2eObs, String> {
    guarded(|| {
        let mut r = Reasoner::new();
        for (s, pr, o) in &p.certain {
            r.add_abox_triple(s, pr, o);
        }
        let mut rules = Vec::new();
        let mut seed_triples = Vec::new();
        {
            let mut d = r.dictionary.write().unwrap();
            for nr in &p.rules {
                let pat = |a: &Atom, d: &mut shared::dictionary::Dictionary| (term(d, &a.0), term(d, &a.1), term(d, &a.2));
                let premise = nr.body.iter().map(|a| pat(a, &mut d)).collect();
                let conclusion = nr.head.iter().map(|a| pat(a, &mut d)).collect();
                let negative_premise = nr.neg.iter().map(|a| pat(a, &mut d)).collect();
                rules.push(Rule { premise, negative_premise, filters: vec![], conclusion });
            }
            for a in &p.seeds {
                seed_triples.push(Triple { subject: d.encode(&a.0), predicate: d.encode(&a.1), object: d.encode(&a.2) });
            }
        }
        for rule in rules {
            r.add_rule(rule);
        }
        let mut specs = Vec::new();
        for (gi, group) in p.groups.iter().enumerate() {
            specs.push(SeedSpec::ExclusiveGroup { group_id: GROUP_ID + gi as u32, choices: group.iter().map(|g| ExclusiveChoice { triple: seed_triples[*g].clone(), prob: probs[*g], choice_id: *g as u32 }).collect() });
        }
        for i in 0..p.seeds.len() {
            if !p.groups.iter().any(|g| g.contains(&i)) {
                specs.push(SeedSpec::Independent { triple: seed_triples[i].clone(), prob: probs[i], seed_id: i as u32 });
            }
        }
        let snap = match SeedSnapshot::from_seed_specs(&specs) {
            Ok(s) => s,
            Err(e) => return Err(format!("snapshot: {}", e)),
        };
        match r.infer_new_facts_with_hybrid(snap, cfg) {
            Err(e) => Err(format!("{}", e)),
            Ok((_new, results, _mat)) => {
                let d = r.dictionary.read().unwrap();
                let dec = |id: u32| d.decode(id).unwrap_or("<?>").to_string();
                let mut v: Vec<(Atom, Claim)> = results.iter().map(|(t, res)| ((dec(t.subject), dec(t.predicate), dec(t.object)), Claim::of(res))).collect();
                v.sort_by(|a, b| a.0.cmp(&b.0));
                Ok(v)
            }
        }
    })
}

fn check_e2e_case(out: &mut ShardOut, p: &Prog, pi: usize, probs: &[f64], cfg: &HybridConfig, valid: bool) {
    out.evaluations += 1;
    let case = || json!({"entry": "e2e", "program": p.name, "program_index": pi, "probs": probs.iter().map(|x| format!("{:?}", x)).collect::<Vec<_>>(), "cfg": cfg_json(cfg)});
    let base_tags = || {
        let mut t = vec!["entry=infer_new_facts_with_hybrid".to_string(), format!("program={}", p.name)];
        if !p.groups.is_empty() {
            t.push("exclusive_group".into());
            t.push(format!("exclusive_groups={}", p.groups.len()));
        }
        if p.rules.iter().any(|r| !r.neg.is_empty()) {
            t.push("program_has_negation".into());
        }
        if !valid {
            t.push("invalid_config".into());
        }
        t
    };
    let model = SeedModel { probs: probs.to_vec(), groups: p.groups.clone() };
    let certain: BTreeSet<Atom> = p.certain.iter().cloned().collect();
    let wp = world_probabilities(&p.rules, &certain, &p.seeds, &model);
    let strict = probs.iter().all(|x| *x == 0.0 || *x == 0.5 || *x == 1.0);
    let verdicts = |obs: &Result<E2eObs, String>| -> Vec<(&'static str, String, Vec<String>)> {
        let mut v = Vec::new();
        if !valid {
            return v; // outside the quantifier ("all valid configurations"): counted below, not judged
        }
        match obs {
            Err(pmsg) => v.push(("panic", pmsg.clone(), vec![])),
            Ok(Err(_)) => {}
            Ok(Ok(results)) => {
                for (atom, claim) in results {
                    let truth = wp.get(atom).copied().unwrap_or(0.0);
                    if let Some((sym, detail)) = judge(claim, (truth, truth), cfg.threshold, strict) {
                        v.push((sym, format!("fact {:?}: {}; result: {}", atom, detail, claim.show()), vec![format!("status={}", claim.status), format!("reason={}", claim.reason), format!("decision={:?}", claim.decision)]));
                    }
                }
            }
        }
        v
    };
    let obs = run_e2e(p, probs, cfg);
    match &obs {
        Ok(Ok(results)) => {
            out.count("e2e_runs_ok", 1);
            out.count("e2e_fact_results", results.len() as u64);
            if p.groups.len() >= 2 {
                out.count("e2e_fact_results_two_exclusive_groups", results.len() as u64);
            }
            if p.rules.iter().any(|r| !r.neg.is_empty()) {
                // facts whose every derivation goes through a rule with a negated atom: their lineage contains Not
                let neg_heads: BTreeSet<&String> = p.rules.iter().filter(|r| !r.neg.is_empty()).flat_map(|r| r.head.iter().map(|h| &h.1)).collect();
                out.count("e2e_fact_results_with_negated_lineage", results.iter().filter(|(a, _)| neg_heads.contains(&a.1)).count() as u64);
            }
            for (atom, claim) in results {
                out.outcome(&("e2e", claim.status, claim.decision as u8, claim.reason.as_str()));
                out.count(&format!("e2e_{}_{}", claim.status, claim.reason), 1);
                let t = wp.get(atom).copied().unwrap_or(0.0);
                if t > 0.0 && t < 1.0 {
                    out.nontrivial(&("e2e", p.name, atom, probs.iter().map(|x| x.to_bits()).collect::<Vec<_>>()));
                }
            }
            // informative only (completeness of derivation is C05/C06): derived facts without a result
            let have: BTreeSet<&Atom> = results.iter().map(|(a, _)| a).collect();
            for (a, pr) in &wp {
                if *pr > 0.0 && !certain.contains(a) && !p.seeds.contains(a) && !have.contains(a) {
                    out.count("e2e_derivable_fact_without_result", 1);
                }
            }
        }
        Ok(Err(e)) => {
            out.count("e2e_runs_err", 1);
            if !valid {
                out.count("e2e_invalid_config_rejected", 1);
            }
            out.outcome(&("e2e", "err", e.split(':').next().unwrap_or("").to_string()));
        }
        Err(_) => {}
    }
    let vs = verdicts(&obs);
    if !vs.is_empty() {
        let again = verdicts(&run_e2e(p, probs, cfg));
        for (sym, detail, extra) in vs {
            if again.iter().any(|a| a.0 == sym) {
                let mut tags = base_tags();
                tags.extend(extra);
                out.fail(case(), sym, detail, tags);
            } else {
                out.machinery_errors.push(format!("e2e failure not reproduced: {} {}", case(), detail));
            }
        }
    }
}

fn e2e_configs() -> Vec<HybridConfig> {
    valid_configs().into_iter().map(|c| HybridConfig { topk_budget: Duration::from_secs(30), sdd_budget: Duration::from_secs(30), ..c }).collect()
}

// ---------------------------------------------------------------------------------------------
// run / replay
// ---------------------------------------------------------------------------------------------

fn run(ctx: &Ctx) -> ShardOut {
    let mut out = ShardOut::default();
    let sets = ConfigSets::new(ctx.thorough());
    let mut tally = Tally { hit: 0, not_reached: 0, changed: 0 };
    let jobs = enumerate_jobs(ctx.thorough());
    let mut idx;
    let mut done = 0u64;
    let mut mine = 0u64;
    // Execution order inside a shard: the families advance PROPORTIONALLY (the k-th tenth of every
    // family before the (k+1)-th tenth of any), so that a wall-clock cap on a loaded machine thins
    // every family evenly instead of cutting the families at the end of the enumeration altogether.
    // Which shard owns which setup is unchanged (position in the global enumeration).
    let mut fam_size: std::collections::HashMap<&'static str, u64> = std::collections::HashMap::new();
    for j in &jobs {
        *fam_size.entry(j.setup.fam).or_insert(0) += 1;
    }
    let mut fam_seen: std::collections::HashMap<&'static str, u64> = std::collections::HashMap::new();
    let mut order: Vec<(u64, u64, &Job)> = Vec::new();
    for (pos, j) in jobs.iter().enumerate() {
        let k = fam_seen.entry(j.setup.fam).or_insert(0);
        let frac = (*k * 1_000_000) / fam_size[j.setup.fam];
        *k += 1;
        order.push((frac, pos as u64 + 1, j));
    }
    order.sort_by_key(|(frac, pos, _)| (*frac, *pos));
    for (_, pos, job) in order {
        idx = pos;
        if !ctx.mine(idx) {
            continue;
        }
        // development knob (cost estimation): run only every n-th block of setups; reported as a cap
        if let Ok(n) = std::env::var("VCHECK_C08_SAMPLE") {
            if out.capped.is_empty() {
                out.capped.push(format!("VCHECK_C08_SAMPLE={} set: only a subsample of the setups was run", n));
            }
            // "n" or "n:phase": blocks of 16 consecutive setups, every n-th block starting at block `phase`
            let mut parts = n.split(':');
            let every = parts.next().and_then(|x| x.parse::<u64>().ok()).unwrap_or(1).max(1);
            let phase = parts.next().and_then(|x| x.parse::<u64>().ok()).unwrap_or(0) % every;
            if (idx / 16) % every != phase {
                continue;
            }
        }
        mine += 1;
        if ctx.expired() {
            continue;
        }
        if let Some(p) = &ctx.progress {
            p.mark(&job.setup.json().to_string());
        }
        run_job(&mut out, job, &sets, &mut tally);
        done += 1;
        if done % 97 == 1 && out.samples.len() < 4 {
            let nconfigs = match job.cfgs {
                Cfgs::Full => sets.full.len() + sets.invalid.len(),
                Cfgs::Reduced => sets.reduced.len(),
                Cfgs::Tiny => sets.tiny.len(),
                Cfgs::Extra => sets.extra.len(),
                Cfgs::TinyK => sets.tiny_k.len(),
                Cfgs::Excl => sets.excl.len(),
                Cfgs::OnlyK => sets.only_k.len(),
            };
            let mut sample = json!({"entry": "hybrid", "setup": job.setup.json(), "configs_run": nconfigs});
            // one concrete (config, fault index) of this setup, written out with what was observed
            if let Ok(b) = build(&job.setup) {
                let cfg = &sets.tiny[(done as usize / 97) % sets.tiny.len()];
                if let Ok((c0, reads)) = run_hybrid(&b, cfg, FaultMode::None, 0) {
                    sample["p_star"] = json!([b.truth.0, b.truth.1]);
                    sample["example_config"] = cfg_json(cfg);
                    sample["fault_free"] = json!({"clock_readings": reads, "result": c0.show()});
                    if let Ok((c1, _)) = run_hybrid(&b, cfg, FaultMode::Single, reads / 2) {
                        sample["fault_single_jump_at_reading"] = json!({"at": reads / 2, "result": c1.show()});
                    }
                }
            }
            out.sample(sample);
        }
    }
    idx = jobs.len() as u64;
    if done < mine {
        out.capped.push(format!("wall-clock cap: shard {} completed {} of its {} setups (the families advance proportionally, so every family was thinned evenly)", ctx.shard, done, mine));
    }
    // end to end
    let t_e2e = Instant::now();
    let progs = programs();
    let ecfgs = e2e_configs();
    let einvalid = [HybridConfig { k_initial: 0, ..base_config() }];
    for (pi, p) in progs.iter().enumerate() {
        for probs in prog_prob_vectors(p) {
            for (ci, cfg) in ecfgs.iter().chain(einvalid.iter()).enumerate() {
                idx += 1;
                if !ctx.mine(idx) {
                    continue;
                }
                if ctx.expired() {
                    if !out.capped.iter().any(|c| c.contains("end-to-end")) {
                        out.capped.push("wall-clock cap during end-to-end programs".into());
                    }
                    continue;
                }
                check_e2e_case(&mut out, p, pi, &probs, cfg, ci < ecfgs.len());
                if ci == 17 && pi % 5 == 0 {
                    out.sample(json!({"entry": "e2e", "program": p.name, "rules": p.rules.iter().map(|r| format!("{:?} :- {:?}", r.head, r.body)).collect::<Vec<_>>(), "seeds": p.seeds, "probs": probs}));
                }
            }
        }
    }
    out.count("cpu_ms_e2e", t_e2e.elapsed().as_millis() as u64);
    out.count("fault_runs_reaching_injected_expiry", tally.hit);
    out.count("fault_runs_not_reaching_fault_index", tally.not_reached);
    out.count("fault_runs_with_result_changed_by_fault", tally.changed);
    out.count("configs_valid", if ctx.shard == 0 { sets.full.len() as u64 } else { 0 });
    out.count("jobs_total", if ctx.shard == 0 { jobs.len() as u64 } else { 0 });
    out
}

fn replay(_ctx: &Ctx, case: &Value) -> ShardOut {
    let mut out = ShardOut::default();
    let entry = case.get("entry").and_then(|e| e.as_str()).unwrap_or("");
    let mut tally = Tally { hit: 0, not_reached: 0, changed: 0 };
    match entry {
        "hybrid" | "topk" | "compile" => {
            let Some(s) = case.get("setup").and_then(Setup::from_json) else {
                out.machinery_errors.push("replay: bad setup".into());
                return out;
            };
            let b = match build(&s) {
                Ok(b) => b,
                Err(e) => {
                    out.machinery_errors.push(format!("replay: cannot build: {}", e));
                    return out;
                }
            };
            match entry {
                "hybrid" => {
                    let Some(cfg) = case.get("cfg").and_then(cfg_from_json) else {
                        out.machinery_errors.push("replay: bad cfg".into());
                        return out;
                    };
                    // the recorded fault index first (as recorded), then every index of this (setup, cfg)
                    let mode = FaultMode::parse(case["fault"]["mode"].as_str().unwrap_or("none"));
                    let at = case["fault"]["at"].as_u64().unwrap_or(0);
                    if let Ok((c, reads)) = run_hybrid(&b, &cfg, mode, at) {
                        eprintln!("recorded fault {:?}@{}: {} ({} readings); truth {:?}", mode, at, c.show(), reads, b.truth);
                    }
                    let valid = cfg.validate().is_ok();
                    hybrid_all_faults(&mut out, &s, &b, &cfg, valid, true, &mut tally);
                }
                "topk" => check_topk(&mut out, &s, &b),
                _ => check_compile(&mut out, &s, &b),
            }
        }
        "e2e" => {
            let progs = programs();
            let name = case.get("program").and_then(|p| p.as_str()).unwrap_or("");
            let Some((pi, p)) = progs.iter().enumerate().find(|(_, p)| p.name == name) else {
                out.machinery_errors.push(format!("replay: unknown program {}", name));
                return out;
            };
            let probs: Option<Vec<f64>> = case.get("probs").and_then(|a| a.as_array()).and_then(|a| a.iter().map(|x| x.as_str().and_then(|s| s.parse::<f64>().ok())).collect());
            let (Some(probs), Some(cfg)) = (probs, case.get("cfg").and_then(cfg_from_json)) else {
                out.machinery_errors.push("replay: bad probs/cfg".into());
                return out;
            };
            let valid = cfg.validate().is_ok();
            check_e2e_case(&mut out, p, pi, &probs, &cfg, valid);
        }
        _ => out.machinery_errors.push(format!("replay: unknown entry {:?}", entry)),
    }
    out
}
