//! C19 — inconsistency-tolerant answers are those true in every maximal repair, for every
//! iteration order of the repair search; repair-aware materialisation ends consistent.
//!
//! E-in x E-fault. Inputs: (fact set) x (set of denial constraints) x (goal pattern), every
//! combination inside the bound. Environment: `compute_repairs` iterates a `HashSet`; hook H2
//! (`datalog::verif::set_order_oracle`, cfg(kolibrie_verif)) lets the harness answer "in which
//! order?" at every pass through the candidate-removal loop. The oracle installed here is a
//! deterministic function of (call index, sorted items, strategy):
//!
//!   * items are first sorted by their index in the case's lexicographically sorted fact list;
//!   * strategy `Ranking(r)`: every call orders its items by the global ranking r of the case's facts
//!     (all n! rankings are enumerated). This is exactly the family production can exhibit: every set
//!     the search iterates is a clone-with-removals of one hash table, so each call sees the
//!     restriction of one per-run bucket order. It contains ascending and descending sorted order.
//!   * strategy `Dev([(k1,j1),(k2,j2)])`: ascending sorted order at every call except call k_i, which
//!     uses the j_i-th permutation (lexicographic numbering) of its sorted items. A permutation costs
//!     its number of moves (items taken out and re-inserted: m - longest increasing subsequence); for
//!     sets of <= 3 items every permutation costs at most 1. All strategies of total cost <= D are
//!     enumerated adaptively (the call sequence after a deviation is read from the trace of the run
//!     that made it). D = 1 for every goal; the thorough tier adds D = 2 for the all-variable goal
//!     (its answer is the whole intersection of the repairs the search kept): "all permutations of
//!     sets <= 3 at up to two calls, every order within two moves of sorted order for larger sets".
//!   * additionally a few runs without any oracle (native hash order); their answer sets must be among
//!     those seen under the rankings (validates the claim above), they are never a verdict themselves.
//!
//! Oracle (brute force over all 2^n subsets, `reference::datalog_pos::satisfiable` for the
//! constraint bodies): repairs = subset-maximal consistent subsets; the answers to a goal are exactly
//! the bindings of the facts that lie in every repair and match the goal; hence facts in no conflict
//! are always answered and the result is the same for every order. `infer_new_facts_semi_naive_with_repairs`
//! must leave a fact store that violates no constraint.
use crate::infra::{guarded, Ctx, PropDef, ShardOut};
use crate::reference::datalog_pos::{self as dl, Atom, Fact, Rule, T};
use datalog::reasoning::Reasoner;
use serde_json::{json, Value};
use shared::terms::Term;
use shared::triple::Triple;
use std::cell::RefCell;
use std::collections::{BTreeSet, HashMap};
use std::rc::Rc;

pub const DEF: PropDef = PropDef {
    id: "C19",
    level: "fault_enumeration",
    rule: "cases = (every fact set of <=4 (quick) / <=5 (thorough) triples of a 10-triple universe) x (25 sets of 1-3 denial constraints out of 8: type clash, 2-cycle/self-loop, 3-fact clash, two-value functional clash, unary denial, 2-cycle of ANY predicate (variable predicate), single-premise self-loop (repeated variable), fully ground clash; all singles, all pairs of the first five, 4 pairs and 3 triples with the others) x (9 goal patterns over constants/variables incl. repeated variable, variable predicate, ground) x (every order strategy of the H2 order oracle: all n! global rankings of the case's facts + every call-indexed deviation from sorted order of total cost 1 move; thorough additionally every deviation of total cost 2 moves (one call or two calls) for the all-variable goal, whose answer is the whole intersection of the repairs); each (case, goal, strategy) is one Reasoner::query_with_repairs call compared with the brute-force intersection of all subset-maximal consistent subsets; plus infer_new_facts_semi_naive_with_repairs on (case x 15 (thorough 17) rule sets x all rankings; the rule sets derive facts that clash with a stored fact, with a fact derived in the same round, with the other conclusion of the SAME rule instance, through a two-premise delta join, with a fact derived a round later, under filters between two variables, and - a self-loop under the 2-cycle constraint - with themselves). Clauses for the final store: it violates no constraint; the input facts it still contains are exactly one of the subset-maximal consistent subsets of the input (the input itself when that is consistent); every fact in it is in the least model of (those input facts, rules); and query_with_repairs(?X ?P ?Y) on the same reasoner afterwards returns exactly the store (a consistent set is its only repair). Family 'big' (enumerated first): curated sets of 6 facts (thorough: also 7) with three independent conflicts (8 repairs) or two overlapping three-fact conflicts (9 repairs): all n! rankings for the all-variable goal, every cost-1 deviation strategy for all 9 goals and for the materialisation part. evaluations = engine calls; non-trivial = (fact set, constraint set) that is inconsistent and has >=2 repairs; distinct = distinct such pairs; outcomes = distinct answer sets / final stores",
    assumptions: &[
        "universe: individuals a,b,c; predicates t (types A,B,C), f, g; constraints are pure conjunctive denial constraints without filters (violates_constraints ignores Rule::filters; the statement does not fix filter semantics)",
        "hook H2 (datalog/src/verif.rs) is add-only: with no oracle installed Ordered::iter yields the HashSet order",
        "ranking strategies = the orders production can show (every iterated set is a clone-with-removals of one hashbrown table, so per-call orders are restrictions of one bucket order); checked at run time: native-order answer sets must occur among the ranking answer sets",
        "reference: 2^n subset enumeration with reference/datalog_pos.rs::satisfiable (self-tested)",
        "for a single triple-pattern goal 'holds in every repair' = 'the matching fact lies in every repair'",
        "materialisation clauses beyond consistency: 'the repairs considered are exactly the subset-maximal consistent subsets' is read as: the materialisation continues from one of them (denial constraints are monotone, so a removed input fact can never come back: the store would contain repair + fact); 'materialisation' is read as: only consequences of the rules (filters as evaluate_filters evaluates them) are added. NOT demanded: that every consistent consequence is derived (counted as materialise_runs_not_saturated, 0 on the pinned tree), nor which of two clashing derivations wins",
        "constraint filters stay out of scope (violates_constraints ignores Rule::filters and no code path gives them a meaning); rule filters are only = / != between two variables",
    ],
    run,
    replay,
    cap_s: (50, 840),
    shards: 0,
};

const FACT_UNIVERSE: [&str; 10] = ["a t A", "a t B", "b t A", "b t B", "a t C", "a f b", "b f a", "a f a", "a f c", "a g b"];

/// denial constraints (bodies)
const CONSTRAINTS: [(&str, &str); 8] = [
    ("type_clash", "?x t A, ?x t B"),
    ("two_cycle", "?x f ?y, ?y f ?x"),
    ("three_fact_clash", "?x t A, ?x f ?y, ?y t B"),
    ("functional_two_values", "?x f b, ?x f c"),
    ("unary_denial", "?x t C"),
    // variable predicate (bound by the first premise, checked by the second): 2-cycle / self-loop of ANY predicate
    ("var_pred_two_cycle", "?x ?p ?y, ?y ?p ?x"),
    // single premise with a repeated variable
    ("self_loop", "?x f ?x"),
    // fully ground constraint
    ("ground_clash", "a t A, a t B"),
];
const N_OLD_CONSTRAINTS: usize = 5;
/// pairs with one of the three later constraints, and triples of constraints
const EXTRA_CONSTRAINT_SETS: [&[&str]; 7] = [
    &["var_pred_two_cycle", "type_clash"],
    &["self_loop", "functional_two_values"],
    &["ground_clash", "two_cycle"],
    &["self_loop", "ground_clash"],
    &["type_clash", "two_cycle", "unary_denial"],
    &["type_clash", "functional_two_values", "self_loop"],
    &["three_fact_clash", "two_cycle", "ground_clash"],
];

/// family "big": curated fact sets of 6 (quick) / 7 (thorough) facts with three independent conflicts
/// (8 repairs) or two overlapping 3-fact conflicts (9 repairs); (facts, constraints, thorough only?)
const BIG_CASES: [(&[&str], &[&str], bool); 8] = [
    (&["a t A", "a t B", "b t A", "b t B", "a f b", "b f a"], &["type_clash", "two_cycle"], false),
    (&["a t A", "a t B", "b t A", "b t B", "a f b", "a f c"], &["type_clash", "functional_two_values"], false),
    (&["a t A", "a t B", "b t A", "b t B", "a f b", "b f a"], &["three_fact_clash"], false),
    (&["a t A", "a t B", "a t C", "a f b", "b f a", "a g b"], &["type_clash", "two_cycle", "unary_denial"], false),
    (&["a t A", "a t B", "b t A", "b t B", "a f b", "b f a"], &["type_clash", "var_pred_two_cycle", "ground_clash"], false),
    (&["a t A", "a t B", "b t A", "b t B", "a f b", "b f a", "a g b"], &["type_clash", "two_cycle"], true),
    (&["a t A", "a t B", "b t A", "b t B", "a f b", "b f a", "a t C"], &["type_clash", "two_cycle", "unary_denial"], true),
    (&["a t A", "a t B", "b t A", "b t B", "a f b", "a f c", "b f a"], &["type_clash", "functional_two_values", "two_cycle"], true),
];
/// fact sets of this size or more are "big": all rankings only for the all-variable goal, every other
/// goal and the materialisation part under the deviation strategies (cost 1) only
const BIG_N: usize = 6;

const GOALS: [&str; 9] = ["?X ?P ?Y", "?X t ?Y", "a ?P ?Y", "?X ?P b", "?X f ?X", "?X t A", "a f ?Y", "a t A", "a g b"];

/// rule sets for the materialisation part (each can derive a fact that clashes with some constraint)
const RULE_SETS: [&[&str]; 17] = [
    &[],
    &["?x t B :- ?x t A"],
    &["?y f ?x :- ?x f ?y"],
    &["?x t C :- ?x g ?y"],
    &["?x f c :- ?x f b"],
    &["?y t B :- ?x f ?y"],
    &["?x t B :- ?x t A", "?y f ?x :- ?x f ?y"],
    // a derived fact that violates a constraint ON ITS OWN (a self-loop fills both premises of two_cycle)
    &["?x f ?x :- ?x g ?y"],
    // two facts derived in the same round that clash with each other, neither is there before
    &["?x t A :- ?x g ?y", "?x t B :- ?x g ?y"],
    // derived self-loop feeding a further rule
    &["?x f ?x :- ?x t A", "?y t B :- ?x f ?y"],
    // ONE rule with two conclusions that clash with each other: the second head is judged against the
    // fact set already holding the first
    &["?x t A, ?x t B :- ?x g ?y"],
    &["?x t B, ?x t A :- ?x g ?y"],
    // two premises (delta join over two premises) deriving a clashing fact
    &["?x t B :- ?x f ?y, ?y t A"],
    // two premises, two conclusions
    &["?y f ?x, ?y t B :- ?x f ?y, ?x t A"],
    // derived facts that clash only with each other, the second one a round later
    &["?y g ?x :- ?x g ?y", "?x t A :- ?x g b", "?y t B :- b g ?y"],
    // filters between two variables: symmetric closure without the loops; type of the loops
    &["?y f ?x :- ?x f ?y | ?x != ?y"],
    &["?x t B :- ?x f ?y | ?x = ?y", "?y t A :- ?x f ?y | ?x != ?y"],
];

const THOROUGH_ONLY_RULE_SETS: [usize; 2] = [11, 13];

fn parse_body(s: &str) -> Vec<Atom> {
    s.split(',').map(|a| dl::atom(a.trim())).collect()
}

fn subsets_upto(n: usize, max: usize) -> Vec<Vec<usize>> {
    let mut out = Vec::new();
    for mask in 0u32..(1 << n) {
        if mask.count_ones() as usize <= max {
            out.push((0..n).filter(|i| mask & (1 << i) != 0).collect());
        }
    }
    out.sort_by_key(|v: &Vec<usize>| (v.len(), v.clone()));
    out
}

// ---------------------------------------------------------------------------------------------
// reference
// ---------------------------------------------------------------------------------------------
pub struct RefRepairs {
    pub inconsistent: bool,
    /// subset-maximal consistent subsets as bit masks over the sorted fact list
    pub repairs: Vec<u32>,
    /// intersection of all repairs
    pub core: u32,
}

fn consistent(facts: &[Fact], mask: u32, constraints: &[Vec<Atom>]) -> bool {
    let sub: Vec<&Fact> = facts.iter().enumerate().filter(|(i, _)| mask & (1 << i) != 0).map(|x| x.1).collect();
    !constraints.iter().any(|c| dl::satisfiable(c, sub.iter().copied()))
}

pub fn ref_repairs(facts: &[Fact], constraints: &[Vec<Atom>]) -> RefRepairs {
    let n = facts.len();
    let full = (1u32 << n) - 1;
    let cons: Vec<bool> = (0..=full).map(|m| consistent(facts, m, constraints)).collect();
    let mut repairs = Vec::new();
    for m in 0..=full {
        if cons[m as usize] && !(0..=full).any(|s| s != m && s & m == m && cons[s as usize]) {
            repairs.push(m);
        }
    }
    let core = repairs.iter().fold(full, |a, r| a & r);
    RefRepairs { inconsistent: !cons[full as usize], repairs, core }
}

fn expected_answers(goal: &Atom, facts: &[Fact], core: u32) -> BTreeSet<Vec<(String, String)>> {
    let sub: Vec<&Fact> = facts.iter().enumerate().filter(|(i, _)| core & (1 << i) != 0).map(|x| x.1).collect();
    dl::matching(goal, sub.into_iter()).into_iter().map(|(_, env)| env.into_iter().collect()).collect()
}

// ---------------------------------------------------------------------------------------------
// order strategies
// ---------------------------------------------------------------------------------------------
#[derive(Clone, Debug, PartialEq, Eq, Hash)]
pub enum Strategy {
    /// rank[i] = position of fact i (index in the sorted fact list) in the global order
    Ranking(Vec<usize>),
    /// (call index, permutation number) pairs; sorted order elsewhere
    Dev(Vec<(usize, usize)>),
}

impl Strategy {
    fn to_json(&self) -> Value {
        match self {
            Strategy::Ranking(r) => json!({"kind": "ranking", "rank": r}),
            Strategy::Dev(d) => json!({"kind": "deviations", "at": d.iter().map(|(c, p)| json!([c, p])).collect::<Vec<_>>()}),
        }
    }
    fn from_json(v: &Value) -> Option<Strategy> {
        match v["kind"].as_str()? {
            "ranking" => Some(Strategy::Ranking(v["rank"].as_array()?.iter().filter_map(|x| x.as_u64().map(|x| x as usize)).collect())),
            "deviations" => Some(Strategy::Dev(v["at"].as_array()?.iter().filter_map(|p| Some((p[0].as_u64()? as usize, p[1].as_u64()? as usize))).collect())),
            _ => None,
        }
    }
    fn kind_tag(&self) -> String {
        match self {
            Strategy::Ranking(r) if r.iter().enumerate().all(|(i, x)| i == *x) => "order=sorted_default".into(),
            Strategy::Dev(d) if d.is_empty() => "order=sorted_default".into(),
            Strategy::Ranking(_) => "order=ranking_non_default".into(),
            Strategy::Dev(d) => format!("order=deviations_at_{}_calls", d.len()),
        }
    }
}

/// all permutations of 0..m in lexicographic order, with their cost in moves (memoised for m <= 7)
fn perms(m: usize) -> &'static [(Vec<usize>, usize)] {
    static TABLE: std::sync::OnceLock<Vec<Vec<(Vec<usize>, usize)>>> = std::sync::OnceLock::new();
    &TABLE.get_or_init(|| (0..=7).map(compute_perms).collect())[m]
}

fn compute_perms(m: usize) -> Vec<(Vec<usize>, usize)> {
    fn rec(m: usize, cur: &mut Vec<usize>, out: &mut Vec<Vec<usize>>) {
        if cur.len() == m {
            out.push(cur.clone());
            return;
        }
        for i in 0..m {
            if !cur.contains(&i) {
                cur.push(i);
                rec(m, cur, out);
                cur.pop();
            }
        }
    }
    let mut all = Vec::new();
    rec(m, &mut Vec::new(), &mut all);
    all.into_iter()
        .map(|p| {
            // longest increasing subsequence
            let mut best = vec![1usize; m];
            for i in 0..m {
                for j in 0..i {
                    if p[j] < p[i] {
                        best[i] = best[i].max(best[j] + 1);
                    }
                }
            }
            let lis = best.iter().copied().max().unwrap_or(0);
            let moves = m - lis;
            let cost = if m <= 3 { moves.min(1) } else { moves };
            (p, cost)
        })
        .collect()
}

struct OState {
    index: HashMap<Triple, usize>,
    strategy: Strategy,
    calls: usize,
    /// per call: bit mask of the items
    trace: Vec<u32>,
    bad: Option<String>,
}

fn install_oracle(index: &HashMap<Triple, usize>, strategy: &Strategy) -> Rc<RefCell<OState>> {
    let st = Rc::new(RefCell::new(OState { index: index.clone(), strategy: strategy.clone(), calls: 0, trace: Vec::new(), bad: None }));
    let st2 = st.clone();
    datalog::verif::set_order_oracle(Some(Box::new(move |items: &mut Vec<Triple>| {
        let mut s = st2.borrow_mut();
        let call = s.calls;
        s.calls += 1;
        let mut idx: Vec<(usize, Triple)> = Vec::new();
        for t in items.iter() {
            match s.index.get(t) {
                Some(i) => idx.push((*i, t.clone())),
                None => {
                    s.bad = Some(format!("order oracle was handed a triple that is not a fact of the case: {:?}", t));
                    return;
                }
            }
        }
        idx.sort_by_key(|x| x.0);
        s.trace.push(idx.iter().fold(0u32, |a, x| a | (1 << x.0)));
        let m = idx.len();
        let ordered: Vec<(usize, Triple)> = match &s.strategy {
            Strategy::Ranking(r) => {
                let mut v = idx.clone();
                v.sort_by_key(|x| r[x.0]);
                v
            }
            Strategy::Dev(d) => match d.iter().find(|x| x.0 == call) {
                None => idx.clone(),
                Some((_, code)) => {
                    let ps = perms(m);
                    match ps.get(*code) {
                        Some((p, _)) => p.iter().map(|i| idx[*i].clone()).collect(),
                        None => {
                            s.bad = Some(format!("permutation number {} out of range for a set of {} items at call {}", code, m, call));
                            idx.clone()
                        }
                    }
                }
            },
        };
        *items = ordered.into_iter().map(|x| x.1).collect();
    })));
    st
}

fn remove_oracle() {
    datalog::verif::set_order_oracle(None);
}

// ---------------------------------------------------------------------------------------------
// subject
// ---------------------------------------------------------------------------------------------
struct Engine {
    r: Reasoner,
    ids: HashMap<String, u32>,
    names: HashMap<u32, String>,
    index: HashMap<Triple, usize>,
}

fn build(facts: &[Fact], constraints: &[Vec<Atom>], rules: &[Rule], goals: &[Atom]) -> Engine {
    let mut r = Reasoner::new();
    let mut ids: HashMap<String, u32> = HashMap::new();
    let enc = |r: &mut Reasoner, s: &str, ids: &mut HashMap<String, u32>| -> u32 {
        if let Some(i) = ids.get(s) {
            return *i;
        }
        let i = r.dictionary.write().unwrap().encode(s);
        ids.insert(s.to_string(), i);
        i
    };
    let mut index = HashMap::new();
    for (i, f) in facts.iter().enumerate() {
        r.add_abox_triple(&f[0], &f[1], &f[2]);
        let t = Triple { subject: enc(&mut r, &f[0], &mut ids), predicate: enc(&mut r, &f[1], &mut ids), object: enc(&mut r, &f[2], &mut ids) };
        index.insert(t, i);
    }
    let conv = |r: &mut Reasoner, a: &Atom, ids: &mut HashMap<String, u32>| -> (Term, Term, Term) {
        let mut t = |x: &T| match x {
            T::C(c) => Term::Constant(enc(r, c, ids)),
            T::V(v) => Term::Variable(v.clone()),
        };
        (t(&a[0]), t(&a[1]), t(&a[2]))
    };
    for c in constraints {
        let premise = c.iter().map(|a| conv(&mut r, a, &mut ids)).collect();
        // same form as the repository's contradictions example: the conclusion is irrelevant
        r.add_constraint(shared::rule::Rule { premise, negative_premise: vec![], filters: vec![], conclusion: vec![(Term::Constant(0), Term::Constant(0), Term::Constant(0))] });
    }
    for rule in rules {
        let premise = rule.premise.iter().map(|a| conv(&mut r, a, &mut ids)).collect();
        let conclusion = rule.conclusion.iter().map(|a| conv(&mut r, a, &mut ids)).collect();
        let filters = rule
            .filters
            .iter()
            .map(|f| shared::rule::FilterCondition { variable: f.left.clone(), operator: if f.equal { "=" } else { "!=" }.to_string(), value: f.right.clone() })
            .collect();
        r.add_rule(shared::rule::Rule { premise, negative_premise: vec![], filters, conclusion });
    }
    for g in goals {
        for t in g {
            if let T::C(c) = t {
                enc(&mut r, c, &mut ids);
            }
        }
    }
    let names = ids.iter().map(|(k, v)| (*v, k.clone())).collect();
    Engine { r, ids, names, index }
}

impl Engine {
    fn decode(&self, id: u32) -> String {
        match self.names.get(&id) {
            Some(s) => s.clone(),
            None => self.r.dictionary.read().unwrap().decode(id).map(|s| s.to_string()).unwrap_or_else(|| format!("<id {}>", id)),
        }
    }
    fn pattern(&self, goal: &Atom) -> (Term, Term, Term) {
        let t = |x: &T| match x {
            T::C(c) => Term::Constant(self.ids[c]),
            T::V(v) => Term::Variable(v.clone()),
        };
        (t(&goal[0]), t(&goal[1]), t(&goal[2]))
    }
}

type Answers = BTreeSet<Vec<(String, String)>>;

#[derive(Clone, Debug, PartialEq, Eq)]
struct QObs {
    answers: Result<Answers, String>,
    duplicates: usize,
    trace: Vec<u32>,
}

/// one query_with_repairs call under a strategy (None = native hash order, no oracle installed)
fn query(e: &Engine, goal: &Atom, strategy: Option<&Strategy>) -> Result<QObs, String> {
    let pattern = e.pattern(goal);
    let st = strategy.map(|s| install_oracle(&e.index, s));
    let res = guarded(|| e.r.query_with_repairs(&pattern));
    remove_oracle();
    let (trace, bad) = match &st {
        Some(s) => (s.borrow().trace.clone(), s.borrow().bad.clone()),
        None => (Vec::new(), None),
    };
    if let Some(b) = bad {
        return Err(b);
    }
    Ok(match res {
        Err(p) => QObs { answers: Err(p), duplicates: 0, trace },
        Ok(rows) => {
            let mut set = Answers::new();
            let mut dup = 0;
            for row in &rows {
                let mut v: Vec<(String, String)> = row.iter().map(|(k, id)| (k.clone(), e.decode(*id))).collect();
                v.sort();
                if !set.insert(v) {
                    dup += 1;
                }
            }
            QObs { answers: Ok(set), duplicates: dup, trace }
        }
    })
}

#[derive(Clone, Debug, PartialEq, Eq)]
struct MObs {
    /// final store, or the panic message
    store: Result<BTreeSet<Fact>, String>,
    returned: usize,
    trace: Vec<u32>,
    /// query_with_repairs(?X ?P ?Y) on the same reasoner after the materialisation, as triples; only
    /// asked when the final store is consistent by the reference (then the answer does not depend on any
    /// order: the removal loop is never entered)
    post_query: Option<Result<BTreeSet<Fact>, String>>,
}

fn materialise(facts: &[Fact], constraints: &[Vec<Atom>], rules: &[Rule], strategy: Option<&Strategy>) -> Result<MObs, String> {
    let mut e = build(facts, constraints, rules, &[]);
    let st = strategy.map(|s| install_oracle(&e.index, s));
    let res = guarded(|| e.r.infer_new_facts_semi_naive_with_repairs());
    remove_oracle();
    let (trace, bad) = match &st {
        Some(s) => (s.borrow().trace.clone(), s.borrow().bad.clone()),
        None => (Vec::new(), None),
    };
    if let Some(b) = bad {
        return Err(b);
    }
    Ok(match res {
        Err(p) => MObs { store: Err(p), returned: 0, trace, post_query: None },
        Ok(inferred) => {
            let all = e.r.dataset_index.query(None, None, None);
            let store: BTreeSet<Fact> = all.iter().map(|t| [e.decode(t.subject), e.decode(t.predicate), e.decode(t.object)]).collect();
            let consistent = !constraints.iter().any(|c| dl::satisfiable(c, store.iter()));
            let post_query = if consistent {
                let pattern = (Term::Variable("X".into()), Term::Variable("P".into()), Term::Variable("Y".into()));
                Some(guarded(|| e.r.query_with_repairs(&pattern)).map(|rows| {
                    rows.iter()
                        .map(|row| {
                            let g = |k: &str| row.get(k).map(|id| e.decode(*id)).unwrap_or_else(|| "<unbound>".to_string());
                            [g("X"), g("P"), g("Y")]
                        })
                        .collect()
                }))
            } else {
                None
            };
            MObs { store: Ok(store), returned: inferred.len(), trace, post_query }
        }
    })
}

// ---------------------------------------------------------------------------------------------
// strategy enumeration
// ---------------------------------------------------------------------------------------------
fn all_rankings(n: usize) -> Vec<Strategy> {
    perms(n).iter().map(|(p, _)| {
        // p lists fact indices in order; rank = inverse
        let mut rank = vec![0; n];
        for (pos, f) in p.iter().enumerate() {
            rank[*f] = pos;
        }
        Strategy::Ranking(rank)
    }).collect()
}

/// Every Dev strategy of total cost <= budget (with its cost), discovered adaptively: `trace_of` runs
/// the subject under a strategy and returns the sequence of item sets the oracle was asked about.
fn dev_strategies(budget: usize, trace_of: &mut dyn FnMut(&Strategy) -> Result<Vec<u32>, String>) -> Result<Vec<(Strategy, usize)>, String> {
    let mut out = vec![(Strategy::Dev(vec![]), 0)];
    let t0 = trace_of(&out[0].0)?;
    #[allow(clippy::too_many_arguments)]
    fn expand(prefix: &[(usize, usize)], spent: usize, from_call: usize, trace: &[u32], budget: usize, out: &mut Vec<(Strategy, usize)>, trace_of: &mut dyn FnMut(&Strategy) -> Result<Vec<u32>, String>) -> Result<(), String> {
        if spent >= budget {
            return Ok(());
        }
        for call in from_call..trace.len() {
            let m = trace[call].count_ones() as usize;
            for (code, (_, cost)) in perms(m).iter().enumerate() {
                if *cost == 0 || spent + *cost > budget {
                    continue;
                }
                let mut d = prefix.to_vec();
                d.push((call, code));
                let s = Strategy::Dev(d.clone());
                if spent + cost < budget {
                    let t = trace_of(&s)?;
                    if t.len() <= call || t[..=call] != trace[..=call] {
                        return Err(format!("order oracle trace is not prefix-stable: deviation at call {} changed earlier calls ({:?} vs {:?})", call, t, trace));
                    }
                    out.push((s, spent + cost));
                    expand(&d, spent + cost, call + 1, &t, budget, out, trace_of)?;
                } else {
                    out.push((s, spent + cost));
                }
            }
        }
        Ok(())
    }
    expand(&[], 0, 0, &t0, budget, &mut out, trace_of)?;
    Ok(out)
}

// ---------------------------------------------------------------------------------------------
// one case
// ---------------------------------------------------------------------------------------------
fn case_json(facts: &[Fact], cnames: &[&str], mode: &str, goal: Option<&Atom>, rules: &[Rule], strategy: Option<&Strategy>) -> Value {
    let mut v = json!({
        "facts": facts.iter().map(dl::show_fact).collect::<Vec<_>>(),
        "constraints": cnames,
        "mode": mode,
        "order": strategy.map(|s| s.to_json()).unwrap_or(json!({"kind": "none"})),
    });
    if let Some(g) = goal {
        v["goal"] = json!(dl::show_atom(g));
    }
    if mode == "materialise" {
        v["rules"] = json!(rules.iter().map(dl::show_rule).collect::<Vec<_>>());
    }
    v
}

fn show_answers(a: &Answers) -> String {
    let rows: Vec<String> = a.iter().map(|r| format!("{{{}}}", r.iter().map(|(k, v)| format!("{}={}", k, v)).collect::<Vec<_>>().join(","))).collect();
    format!("[{}]", rows.join(" "))
}

struct CaseOpts<'a> {
    /// deviation budget (moves) of the strategies every goal is run under
    dev_budget: usize,
    /// larger budget whose additional strategies are run for the first goal only (the all-variable
    /// goal, whose answer is the whole intersection of the repairs)
    dev_budget_goal0: usize,
    goals: &'a [Atom],
    rule_sets: &'a [Vec<Rule>],
    /// run the materialisation part under deviation strategies too (else rankings only)
    mat_devs: bool,
    native_runs: usize,
    /// replay: only report failures of this strategy
    only: Option<Strategy>,
    /// query part: run the global rankings (all n!) for the first goal only; materialisation part: run
    /// the deviation strategies instead of the rankings (family "big": 720 / 5040 rankings per goal and
    /// rule set would dominate the run)
    big: bool,
}

fn constraint_bodies(cnames: &[&str]) -> Vec<Vec<Atom>> {
    cnames.iter().map(|n| parse_body(CONSTRAINTS.iter().find(|c| c.0 == *n).unwrap_or_else(|| panic!("unknown constraint {}", n)).1)).collect()
}

fn run_case(out: &mut ShardOut, facts: &[Fact], cnames: &[&str], opts: &CaseOpts, case_key: u64) {
    let constraints = constraint_bodies(cnames);
    let n = facts.len();
    let rr = ref_repairs(facts, &constraints);
    out.count("cases", 1);
    if rr.inconsistent {
        out.count("cases_inconsistent", 1);
    }
    if rr.repairs.len() >= 2 {
        out.count("cases_with_2plus_repairs", 1);
        out.nontrivial(&case_key);
    }
    out.max("max_repairs_in_a_case", rr.repairs.len() as u64);
    let full = (1u32 << n) - 1;
    if rr.inconsistent && rr.core != 0 {
        out.count("cases_inconsistent_with_conflict_free_facts", 1);
    }
    let base_tags = |mode: &str| -> Vec<String> {
        vec![format!("mode={}", mode), format!("constraints={}", cnames.join("+")), if rr.inconsistent { "initial_facts_inconsistent".into() } else { "initial_facts_consistent".into() }]
    };

    // ---- query part -------------------------------------------------------------------------
    let e = match guarded(|| build(facts, &constraints, &[], opts.goals)) {
        Ok(e) => e,
        Err(p) => {
            out.fail(case_json(facts, cnames, "query", None, &[], None), "panic", format!("building the reasoner panicked: {}", p), base_tags("query"));
            return;
        }
    };
    // strategies
    let mut strategies: Vec<Strategy> = Vec::new();
    let mut n_all_goals = 1;
    if rr.inconsistent {
        strategies.extend(all_rankings(n));
        let g0 = &opts.goals[0];
        let mut trace_of = |s: &Strategy| -> Result<Vec<u32>, String> { query(&e, g0, Some(s)).map(|o| o.trace) };
        match dev_strategies(opts.dev_budget.max(opts.dev_budget_goal0), &mut trace_of) {
            Ok(d) => {
                // cheapest first, so that the strategies run for every goal form a prefix
                strategies.extend(d.iter().filter(|x| x.1 <= opts.dev_budget).map(|x| x.0.clone()));
                n_all_goals = strategies.len();
                strategies.extend(d.iter().filter(|x| x.1 > opts.dev_budget).map(|x| x.0.clone()));
            }
            Err(msg) => {
                out.machinery_errors.push(format!("C19 {}: {}", case_json(facts, cnames, "query", None, &[], None), msg));
                return;
            }
        }
    } else {
        // consistent input: the removal loop is never entered, one order suffices (checked: no oracle call)
        strategies.push(Strategy::Dev(vec![]));
    }
    out.max("max_strategies_in_a_case", strategies.len() as u64);
    let n_rank_all = if rr.inconsistent { all_rankings(n).len() } else { 0 };
    for (gi, goal) in opts.goals.iter().enumerate() {
        let expected = expected_answers(goal, facts, rr.core);
        if !expected.is_empty() {
            out.count("goal_cases_with_expected_answers", 1);
        }
        let strategies: &[Strategy] = if gi == 0 { &strategies } else if opts.big && rr.inconsistent { &strategies[n_rank_all..n_all_goals] } else { &strategies[..n_all_goals] };
        // number of leading entries of `strategies` that are global rankings
        let n_rank = if gi == 0 || !opts.big { n_rank_all } else { 0 };
        let mut observed: Vec<QObs> = Vec::with_capacity(strategies.len());
        for s in strategies {
            out.evaluations += 1;
            out.count("query_runs", 1);
            match query(&e, goal, Some(s)) {
                Ok(o) => {
                    out.max("max_oracle_calls_in_a_run", o.trace.len() as u64);
                    out.count("oracle_calls", o.trace.len() as u64);
                    if !rr.inconsistent && !o.trace.is_empty() {
                        out.machinery_errors.push(format!("C19: order oracle consulted although the fact set is consistent: {}", case_json(facts, cnames, "query", Some(goal), &[], Some(s))));
                    }
                    observed.push(o);
                }
                Err(msg) => {
                    out.machinery_errors.push(format!("C19 {}: {}", case_json(facts, cnames, "query", Some(goal), &[], Some(s)), msg));
                    return;
                }
            }
        }
        let distinct: BTreeSet<String> = observed.iter().map(|o| match &o.answers { Ok(a) => show_answers(a), Err(p) => format!("panic {}", p) }).collect();
        for d in &distinct {
            out.outcome(d);
        }
        out.max("max_distinct_answer_sets_across_orders", distinct.len() as u64);
        if distinct.len() > 1 {
            out.count("goal_cases_with_order_dependent_answers", 1);
            if gi == 0 {
                out.count("cases_with_order_dependent_answers", 1);
            }
        }
        let some_order_ok = observed.iter().any(|o| o.answers.as_ref().ok() == Some(&expected));
        let ranking_sets: BTreeSet<String> = observed[..n_rank.min(observed.len())].iter().map(|o| match &o.answers { Ok(a) => show_answers(a), Err(p) => format!("panic {}", p) }).collect();
        // native hash order: informational + validates that rankings cover what production can show
        for _ in 0..opts.native_runs {
            out.evaluations += 1;
            out.count("native_order_runs", 1);
            if let Ok(o) = query(&e, goal, None) {
                let shown = match &o.answers { Ok(a) => show_answers(a), Err(p) => format!("panic {}", p) };
                if o.answers.as_ref().ok() != Some(&expected) {
                    out.count("native_order_runs_with_wrong_answers", 1);
                }
                if rr.inconsistent && n_rank > 0 && !ranking_sets.contains(&shown) {
                    out.machinery_errors.push(format!("C19: native hash order produced an answer set no ranking produced: {} -> {}", case_json(facts, cnames, "query", Some(goal), &[], None), shown));
                }
            }
        }
        if gi == 0 && rr.repairs.len() >= 2 && case_key % 331 == 0 {
            out.sample(json!({
                "case": case_json(facts, cnames, "query", Some(goal), &[], None),
                "repairs": rr.repairs.iter().map(|m| facts.iter().enumerate().filter(|(i, _)| m & (1 << i) != 0).map(|x| dl::show_fact(x.1)).collect::<Vec<_>>()).collect::<Vec<_>>(),
                "expected_answers": show_answers(&expected),
                "strategies_run": strategies.len(),
                "distinct_answer_sets_across_orders": distinct.iter().collect::<Vec<_>>(),
            }));
        }
        for (si, o) in observed.iter().enumerate() {
            let s = &strategies[si];
            if let Some(only) = &opts.only {
                if only != s {
                    continue;
                }
            }
            let mut verdicts: Vec<(&str, String)> = Vec::new();
            match &o.answers {
                Err(p) => verdicts.push(("panic", format!("query_with_repairs panicked: {}", p))),
                Ok(a) => {
                    let missing: Answers = expected.difference(a).cloned().collect();
                    let extra: Answers = a.difference(&expected).cloned().collect();
                    if !missing.is_empty() {
                        verdicts.push(("missing_answer", format!("answers holding in every repair but not returned: {}; returned {}; expected {} (repairs: {})", show_answers(&missing), show_answers(a), show_answers(&expected), rr.repairs.len())));
                    }
                    if !extra.is_empty() {
                        verdicts.push(("extra_answer", format!("returned answers that do not hold in every repair: {}; returned {}; expected {}", show_answers(&extra), show_answers(a), show_answers(&expected))));
                    }
                    if o.duplicates > 0 {
                        out.count("runs_with_duplicate_rows", 1);
                    }
                }
            }
            if verdicts.is_empty() {
                continue;
            }
            // determinism before verdict (with the order fixed by the oracle the run must repeat exactly)
            match query(&e, goal, Some(s)) {
                Ok(again) if again == *o => {}
                other => {
                    out.machinery_errors.push(format!("C19 observation not reproducible under a fixed order: {} : {:?} vs {:?}", case_json(facts, cnames, "query", Some(goal), &[], Some(s)), o, other));
                    continue;
                }
            }
            let mut tags = base_tags("query");
            tags.push(s.kind_tag());
            // differential, structural: does some other enumerated order give exactly the expected answers for this (case, goal)?
            tags.push(if some_order_ok { "order_dependent".into() } else { "wrong_under_every_enumerated_order".into() });
            if full == rr.core {
                tags.push("no_fact_in_conflict".into());
            }
            for (sym, detail) in verdicts {
                out.fail(case_json(facts, cnames, "query", Some(goal), &[], Some(s)), sym, detail, tags.clone());
            }
        }
    }

    // ---- materialisation part -----------------------------------------------------------------
    let mat_strategies: Vec<Strategy> = if !rr.inconsistent {
        vec![Strategy::Dev(vec![])]
    } else if opts.mat_devs {
        strategies.clone()
    } else if opts.big {
        strategies[n_rank_all..n_all_goals].to_vec()
    } else {
        strategies[..n_rank_all].to_vec()
    };
    let input: BTreeSet<Fact> = facts.iter().cloned().collect();
    for (ri, rules) in opts.rule_sets.iter().enumerate() {
        for s in &mat_strategies {
            if let Some(only) = &opts.only {
                if only != s {
                    continue;
                }
            }
            out.evaluations += 1;
            out.count("materialise_runs", 1);
            let o = match guarded(|| materialise(facts, &constraints, rules, Some(s))) {
                Ok(Ok(o)) => o,
                Ok(Err(msg)) => {
                    out.machinery_errors.push(format!("C19 {}: {}", case_json(facts, cnames, "materialise", None, rules, Some(s)), msg));
                    return;
                }
                Err(p) => MObs { store: Err(format!("building the reasoner panicked: {}", p)), returned: 0, trace: vec![], post_query: None },
            };
            let mut verdicts: Vec<(&str, String)> = Vec::new();
            match &o.store {
                Err(p) => verdicts.push(("panic", format!("infer_new_facts_semi_naive_with_repairs panicked: {}", p))),
                Ok(store) => {
                    out.outcome(store);
                    let violated: Vec<&str> = constraints.iter().zip(cnames.iter()).filter(|(c, _)| dl::satisfiable(c, store.iter())).map(|x| *x.1).collect();
                    if !violated.is_empty() {
                        verdicts.push(("inconsistent_after_materialisation", format!("final store {:?} violates {:?}", store.iter().map(dl::show_fact).collect::<Vec<_>>(), violated)));
                    }
                    if store.iter().any(|f| !input.contains(f)) {
                        out.count("materialise_runs_with_derived_facts", 1);
                    }
                    if rr.inconsistent {
                        out.count("materialise_runs_from_inconsistent_input", 1);
                    }
                    // the input facts that survive are one of the subset-maximal consistent subsets (the
                    // repairs considered are exactly those; with consistent input: the input itself). A removed
                    // input fact cannot come back: the store would contain repair + fact, which is inconsistent.
                    let kept_mask = facts.iter().enumerate().filter(|(_, f)| store.contains(*f)).fold(0u32, |a, (i, _)| a | (1 << i));
                    let kept: BTreeSet<Fact> = facts.iter().filter(|f| store.contains(*f)).cloned().collect();
                    if rr.repairs.contains(&kept_mask) {
                        if rr.inconsistent {
                            out.count("materialise_runs_keeping_exactly_a_maximal_repair", 1);
                        }
                    } else {
                        verdicts.push(("kept_input_facts_not_a_maximal_repair", format!("input facts in the final store {:?} are none of the {} subset-maximal consistent subsets of the input (final store {:?})", kept.iter().map(dl::show_fact).collect::<Vec<_>>(), rr.repairs.len(), store.iter().map(dl::show_fact).collect::<Vec<_>>())));
                    }
                    // materialisation adds rule consequences only: everything in the store is in the least
                    // model of (kept input facts, rules)
                    let lm = dl::least_model(&kept, rules);
                    let underivable: Vec<String> = store.iter().filter(|f| !lm.contains_key(*f)).map(dl::show_fact).collect();
                    if !underivable.is_empty() {
                        verdicts.push(("underivable_fact_after_materialisation", format!("facts of the final store that are neither kept input facts nor derivable from them by the rules: {:?} (final store {:?})", underivable, store.iter().map(dl::show_fact).collect::<Vec<_>>())));
                    }
                    // a consistent store has exactly one repair (itself): the all-variable query on the same
                    // reasoner returns exactly the store
                    match &o.post_query {
                        Some(Ok(ans)) => {
                            out.count("materialise_runs_with_post_query", 1);
                            if ans != store {
                                verdicts.push(("query_after_materialisation_differs_from_store", format!("query_with_repairs(?X ?P ?Y) after the materialisation returned {:?}, the (consistent) store is {:?}", ans.iter().map(dl::show_fact).collect::<Vec<_>>(), store.iter().map(dl::show_fact).collect::<Vec<_>>())));
                            }
                        }
                        Some(Err(p)) => verdicts.push(("panic", format!("query_with_repairs after the materialisation panicked: {}", p))),
                        None => {}
                    }
                    // vacuity: how often did the guard matter (some rule instance would have broken a constraint)?
                    let unguarded = dl::least_model(store, rules);
                    if constraints.iter().any(|c| dl::satisfiable(c, unguarded.keys())) {
                        out.count("materialise_runs_where_guard_mattered", 1);
                        out.count(&format!("materialise_guard_mattered_rule_set_{:02}", ri), 1);
                    }
                    // not judged (the statement does not demand that everything derivable is derived): is the
                    // store saturated, i.e. is every missing rule consequence one that would break a constraint?
                    let saturated = unguarded.keys().filter(|f| !store.contains(*f) && unguarded[*f] == 1).all(|f| {
                        let mut with: BTreeSet<Fact> = store.clone();
                        with.insert(f.clone());
                        constraints.iter().any(|c| dl::satisfiable(c, with.iter()))
                    });
                    if !saturated {
                        out.count("materialise_runs_not_saturated_(not_judged)", 1);
                    }
                    if rules.iter().any(|r| !r.filters.is_empty()) && lm.len() < dl::least_model(&kept, &rules.iter().map(|r| Rule { premise: r.premise.clone(), conclusion: r.conclusion.clone(), filters: vec![] }).collect::<Vec<_>>()).len() {
                        out.count("materialise_runs_where_a_filter_cuts_a_derivation", 1);
                    }
                }
            }
            if verdicts.is_empty() {
                continue;
            }
            match guarded(|| materialise(facts, &constraints, rules, Some(s))) {
                Ok(Ok(again)) if again == o => {}
                other => {
                    out.machinery_errors.push(format!("C19 materialisation not reproducible under a fixed order: {} : {:?} vs {:?}", case_json(facts, cnames, "materialise", None, rules, Some(s)), o, other.map(|x| x.map(|y| y.store))));
                    continue;
                }
            }
            let mut tags = base_tags("materialise");
            tags.push(s.kind_tag());
            tags.push(format!("rules={}", rules.len()));
            if rules.iter().any(|r| !r.filters.is_empty()) {
                tags.push("rule_has_filter".into());
            }
            if rules.iter().any(|r| r.conclusion.len() >= 2) {
                tags.push("rule_two_conclusions".into());
            }
            if rules.iter().any(|r| r.premise.len() >= 2) {
                tags.push("rule_two_premises".into());
            }
            for (sym, detail) in verdicts {
                out.fail(case_json(facts, cnames, "materialise", None, rules, Some(s)), sym, detail, tags.clone());
            }
        }
    }
}

fn constraint_sets() -> Vec<Vec<&'static str>> {
    let mut v: Vec<Vec<&'static str>> = CONSTRAINTS.iter().map(|c| vec![c.0]).collect();
    for i in 0..N_OLD_CONSTRAINTS {
        for j in i + 1..N_OLD_CONSTRAINTS {
            v.push(vec![CONSTRAINTS[i].0, CONSTRAINTS[j].0]);
        }
    }
    v.extend(EXTRA_CONSTRAINT_SETS.iter().map(|s| s.to_vec()));
    v
}

fn run(ctx: &Ctx) -> ShardOut {
    let mut out = ShardOut::default();
    let thorough = ctx.thorough();
    let universe: Vec<Fact> = {
        let mut u: Vec<Fact> = FACT_UNIVERSE.iter().map(|f| dl::fact(f)).collect();
        u.sort();
        u
    };
    let goals: Vec<Atom> = GOALS.iter().map(|g| dl::atom(g)).collect();
    // the quick tier leaves out two variants (heads of the clashing two-conclusion rule in the other order;
    // two premises with two conclusions) that the thorough tier runs
    let rule_sets: Vec<Vec<Rule>> = RULE_SETS.iter().enumerate().filter(|(i, _)| thorough || !THOROUGH_ONLY_RULE_SETS.contains(i)).map(|(_, rs)| rs.iter().map(|r| dl::rule(r)).collect()).collect();
    let fsets = subsets_upto(universe.len(), if thorough { 5 } else { 4 });
    let csets = constraint_sets();
    out.count("max_fact_sets", fsets.len() as u64);
    out.count("max_constraint_sets", csets.len() as u64);
    out.count("max_goals", goals.len() as u64);
    let opts = CaseOpts { dev_budget: 1, dev_budget_goal0: if thorough { 2 } else { 1 }, goals: &goals, rule_sets: &rule_sets, mat_devs: false, native_runs: 1, only: None, big: false };
    out.count("max_rule_sets", rule_sets.len() as u64);
    let mut idx = 0u64;
    // family "big": 6 / 7 facts, three independent conflicts (8 repairs) or overlapping 3-fact conflicts
    let big_opts = CaseOpts { dev_budget: 1, dev_budget_goal0: 1, goals: &goals, rule_sets: &rule_sets, mat_devs: false, native_runs: 1, only: None, big: true };
    for (fs, cs, thorough_only) in BIG_CASES.iter() {
        if *thorough_only && !thorough {
            continue;
        }
        idx += 1;
        if !ctx.mine(idx) {
            continue;
        }
        if ctx.expired() {
            out.capped.push("wall-clock cap: a shard stopped before a case of the family big".into());
            return out;
        }
        let mut facts: Vec<Fact> = fs.iter().map(|f| dl::fact(f)).collect();
        facts.sort();
        if let Some(p) = &ctx.progress {
            p.mark(&case_json(&facts, cs, "query", None, &[], None).to_string());
        }
        out.count("cases_big", 1);
        run_case(&mut out, &facts, cs, &big_opts, idx);
    }
    for fs in &fsets {
        for cs in &csets {
            idx += 1;
            if !ctx.mine(idx) {
                continue;
            }
            if ctx.expired() {
                out.capped.push(format!("wall-clock cap: a shard stopped at case {} of {}; fact sets are enumerated smallest first, all earlier cases of the shard are complete", idx, fsets.len() * csets.len()));
                return out;
            }
            let facts: Vec<Fact> = fs.iter().map(|i| universe[*i].clone()).collect();
            if let Some(p) = &ctx.progress {
                p.mark(&case_json(&facts, cs, "query", None, &[], None).to_string());
            }
            run_case(&mut out, &facts, cs, &opts, idx);
        }
    }
    out
}

fn replay(ctx: &Ctx, case: &Value) -> ShardOut {
    let mut out = ShardOut::default();
    let strs = |k: &str| -> Vec<String> { case[k].as_array().map(|a| a.iter().filter_map(|v| v.as_str().map(|s| s.to_string())).collect()).unwrap_or_default() };
    let mut facts: Vec<Fact> = strs("facts").iter().map(|f| dl::fact(f)).collect();
    facts.sort();
    let cn = strs("constraints");
    let cnames: Vec<&str> = cn.iter().map(|s| s.as_str()).collect();
    let only = Strategy::from_json(&case["order"]);
    let mode = case["mode"].as_str().unwrap_or("query");
    let goals: Vec<Atom> = match case["goal"].as_str() {
        Some(g) if mode == "query" => vec![dl::atom(g)],
        _ => vec![dl::atom(GOALS[0])],
    };
    let rule_sets: Vec<Vec<Rule>> = if mode == "materialise" { vec![strs("rules").iter().map(|r| dl::rule(r)).collect()] } else { vec![] };
    // the whole case is re-enumerated (needed for the order_dependent tag); only the recorded order is judged
    let _ = ctx;
    let big = facts.len() >= BIG_N;
    let opts = CaseOpts { dev_budget: if big { 1 } else { 2 }, dev_budget_goal0: if big { 1 } else { 2 }, goals: &goals, rule_sets: &rule_sets, mat_devs: true, native_runs: 0, only, big };
    let mut tmp = ShardOut::default();
    run_case(&mut tmp, &facts, &cnames, &opts, 0);
    // keep only failures of the recorded mode
    out.evaluations = tmp.evaluations;
    out.machinery_errors = tmp.machinery_errors;
    for (_sig, (_n, f)) in tmp.failure_sigs {
        if f.case["mode"].as_str() == Some(mode) {
            out.fail(f.case.clone(), &f.symptom, f.detail.clone(), f.tags.iter().filter(|t| !t.starts_with("symptom=")).cloned().collect());
        }
    }
    out
}
