//! C01 — SELECT answers equal the SPARQL algebra over the stored dataset.
//! E-in: (all subsets of a 10-quad universe) x (bounded-exhaustive query grammar), every pair
//! executed through the real entry points and compared with R-sparql.
use super::common::*;
use super::qgen::{self, Scope};
use crate::infra::{guarded, Ctx, PropDef, ShardOut};
use crate::reference::sparql_ast::*;
use crate::reference::sparql_eval::{self, Dataset};
use kolibrie::execute_query::{execute_query_rayon_parallel2_volcano, execute_sparql_query};
use serde_json::{json, Value};

pub const DEF: PropDef = PropDef {
    id: "C01",
    level: "exploration",
    rule: "cases = (dataset, query) pairs: datasets are subsets of a fixed 10-quad universe (same triple in default/g1/g2, chain, self-loop, numeric values, named-only quad) with and without an extra empty named graph (quick: the subsets of size <=1 or >=9; thorough: all 2048); queries are every AST of the generator grammar (qgen.rs): all sequences of <=2 (thorough: + <=3 over a core list) elements from ~90 shapes (12 triple templates, multi-pattern blocks, GRAPH <iri>/?g incl. empty group, UNION, nested groups, sub-SELECTs with DISTINCT/ORDER/LIMIT/GROUP BY, inner group-scoped filters) + FILTER at every position, BIND(CONCAT), VALUES with UNDEF, and every solution modifier (DISTINCT, projections, SELECT *, FROM/FROM NAMED, GROUP BY + SUM/MIN/MAX/AVG, ORDER BY, LIMIT); each pair is executed on a fresh database through execute_sparql_query (and, on the datasets of size >=9, also through the legacy execute_query_rayon_parallel2_volcano) and compared with the SPARQL-algebra reference evaluator (multiset equality; sortedness under ORDER BY; legal cut under LIMIT). Round-3 families (each with `fam_<family>_queries/_cases/_nonempty` and `x_<crossing>` vacuity counters, and a structural failure tag `q:<family>`): BIND inside an inner group (nested braces, UNION branch, GRAPH) whose target is also bound by a sibling element (VALUES, triple pattern, sub-select; both textual orders; below a further join), two inner groups binding the same target, a braced group holding only a BIND over constants (C01-only list: C16's tree comparison distinguishes `{ BIND }` from an inline BIND); simple comparisons with the constant on the LEFT (mirrored operator) and the order operators >, <=, and variable-variable <=, >, >= after the last element of every decorated base; GROUP BY without any aggregate (one key, two keys, a projected subset of the keys, with DISTINCT / ORDER BY / LIMIT, and as a sub-select joined with its base; sub-select S10 in every position); subject stars (>=3 default-scope patterns sharing the subject: the StarJoin rewrite is syntactic) in one or two triples blocks, with a variable predicate, two stars in one group, each under every filter (Filter(StarJoin)), VALUES/BIND decoration and FROM / FROM + FILTER (merged default graphs inside the star executor); labelled error-semantics family (C01-only list): `!` over a comparison of an in-scope but possibly unbound variable or over a division by zero, alone and under || / &&, and BIND(CONCAT) over an in-scope but possibly unbound argument - justified by SPARQL 1.1 17.2 / 18.5 Extend error semantics only, hence kept apart and tagged q:not_over_possible_error / q:bind_arg_possibly_unbound. Non-trivial = reference answer non-empty and query has >=2 operators; distinct = distinct (query, answer).",
    assumptions: &[
        "term universe U of DESIGN.md §2 (3 IRIs, 2 predicates, numeric literals 1/2, graphs g1,g2, empty g3, absent gx)",
        "value model: terms are bare lexical forms; order comparisons, ORDER BY keys and aggregates only over numeric values; in the main enumeration FILTER/BIND only mention certainly bound in-scope variables; the labelled error-semantics family mentions in-scope variables that may be unbound (still inside the property's quantifier: `variables in scope of their own group`); aggregates over possibly unbound values are NOT generated (whether an error inside SUM poisons the group is not fixed by the statement)",
        "reference evaluator harness/src/reference/sparql_eval.rs (self-tested against hand-computed cases)",
    ],
    run,
    replay,
    cap_s: (55, 2400),
    shards: 0,
};

pub fn dataset_list(thorough: bool) -> Vec<(u32, bool)> {
    let mut v = Vec::new();
    for mask in 0u32..1024 {
        let n = mask.count_ones();
        if thorough || n <= 1 || n >= 9 {
            v.push((mask, false));
            v.push((mask, true));
        }
    }
    v
}

pub fn query_tags(s: &Select) -> Vec<String> {
    fn walk(g: &Group, t: &mut Vec<String>) {
        for e in &g.0 {
            match e {
                Elem::Triples(ts) => {
                    if ts.iter().any(|x| x.p.is_var()) {
                        t.push("q:var_predicate".into());
                    }
                }
                Elem::Graph(gt, inner) => {
                    t.push(if gt.is_var() { "q:graph_var".into() } else { "q:graph_iri".into() });
                    walk(inner, t);
                }
                Elem::Union(bs) => {
                    t.push("q:union".into());
                    for b in bs {
                        walk(b, t);
                    }
                }
                Elem::Nested(inner) => {
                    t.push("q:nested".into());
                    walk(inner, t);
                }
                Elem::Filter(_) => t.push("q:filter".into()),
                Elem::Bind(..) => t.push("q:bind".into()),
                Elem::Values(..) => t.push("q:values".into()),
                Elem::Sub(s) => {
                    t.push("q:subselect".into());
                    for x in query_tags(s) {
                        t.push(format!("sub:{}", x));
                    }
                }
            }
        }
    }
    let mut t = Vec::new();
    walk(&s.pattern, &mut t);
    if s.distinct {
        t.push("q:distinct".into());
    }
    if !s.from.is_empty() {
        t.push("q:from".into());
    }
    if !s.from_named.is_empty() {
        t.push("q:from_named".into());
    }
    if !s.group_by.is_empty() {
        t.push("q:group_by".into());
    }
    if let Proj::Items(items) = &s.proj {
        for i in items {
            if let ProjItem::Agg(f, _, _) = i {
                t.push(format!("q:agg_{}", f.name().to_lowercase()));
            }
        }
    } else {
        t.push("q:star".into());
    }
    if !s.order_by.is_empty() {
        t.push("q:order_by".into());
    }
    if s.limit.is_some() {
        t.push("q:limit".into());
    }
    for f in family_tags(s) {
        t.push(format!("q:{}", f));
    }
    t.sort();
    t.dedup();
    t
}

fn expr_has_const_left(e: &Expr) -> bool {
    match e {
        Expr::Cmp(a, _, b) => !a.is_var() && b.is_var(),
        Expr::ArithCmp(..) => false,
        Expr::And(a, b) | Expr::Or(a, b) => expr_has_const_left(a) || expr_has_const_left(b),
        Expr::Not(a) => expr_has_const_left(a),
    }
}

fn arith_has_var_divisor(a: &Arith) -> bool {
    match a {
        Arith::Operand(_) => false,
        Arith::Div(x, y) => {
            let mut vs = std::collections::BTreeSet::new();
            y.vars(&mut vs);
            !vs.is_empty() || arith_has_var_divisor(x) || arith_has_var_divisor(y)
        }
        Arith::Add(x, y) | Arith::Sub(x, y) | Arith::Mul(x, y) => arith_has_var_divisor(x) || arith_has_var_divisor(y),
    }
}

/// does the expression contain a `!` whose operand can raise an error (mentions a variable that is
/// not certainly bound in the group, or divides by an expression containing a variable)?
fn expr_not_over_possible_error(e: &Expr, certain: &std::collections::BTreeSet<String>, under_not: bool) -> bool {
    match e {
        Expr::Cmp(..) => {
            let mut vs = std::collections::BTreeSet::new();
            e.vars(&mut vs);
            under_not && vs.iter().any(|x| !certain.contains(x))
        }
        Expr::ArithCmp(a, _, b) => {
            let mut vs = std::collections::BTreeSet::new();
            e.vars(&mut vs);
            under_not && (vs.iter().any(|x| !certain.contains(x)) || arith_has_var_divisor(a) || arith_has_var_divisor(b))
        }
        Expr::And(a, b) | Expr::Or(a, b) => expr_not_over_possible_error(a, certain, under_not) || expr_not_over_possible_error(b, certain, under_not),
        Expr::Not(a) => expr_not_over_possible_error(a, certain, true),
    }
}

/// Structural families of the round-3 strengthenings (also used as failure tags `q:<family>` and as
/// vacuity counters): computed from the AST only.
pub fn family_tags(s: &Select) -> Vec<&'static str> {
    fn walk(g: &Group, depth: usize, in_graph: bool, outer_sibling_vars: &std::collections::BTreeSet<String>, t: &mut Vec<&'static str>) {
        let certain = g.certain_vars();
        // default-scope subject star: >= 3 patterns of this group's triples blocks share a subject variable
        if !in_graph {
            let mut per_subject: std::collections::BTreeMap<String, usize> = Default::default();
            for e in &g.0 {
                if let Elem::Triples(ts) = e {
                    for x in ts {
                        if let T::Var(n) = &x.s {
                            *per_subject.entry(n.clone()).or_insert(0) += 1;
                        }
                    }
                }
            }
            if per_subject.values().any(|c| *c >= 3) {
                t.push("star");
                if g.0.iter().any(|e| matches!(e, Elem::Filter(_))) {
                    t.push("star_filter");
                }
                if per_subject.values().filter(|c| **c >= 3).count() >= 2 {
                    t.push("two_stars");
                }
            }
        }
        for (k, e) in g.0.iter().enumerate() {
            // variables visible from the siblings of this element (and of its ancestors)
            let mut sib = outer_sibling_vars.clone();
            for (j, o) in g.0.iter().enumerate() {
                if j != k {
                    let mut vs = Vec::new();
                    Group(vec![o.clone()]).visible_vars_ordered(&mut vs);
                    sib.extend(vs);
                }
            }
            match e {
                Elem::Filter(x) => {
                    if expr_has_const_left(x) {
                        t.push("cmp_const_left");
                    }
                    if expr_not_over_possible_error(x, &certain, false) {
                        t.push("not_over_possible_error");
                    }
                }
                Elem::Bind(args, out) => {
                    if depth > 0 {
                        t.push("bind_in_inner_group");
                        if outer_sibling_vars.contains(out) {
                            t.push("bind_target_shared_with_sibling");
                        }
                        if g.0.len() == 1 {
                            t.push("lone_bind_group");
                        }
                    }
                    let before: std::collections::BTreeSet<String> = Group(g.0[..k].to_vec()).certain_vars();
                    if args.iter().any(|a| matches!(a, T::Var(n) if !before.contains(n))) {
                        t.push("bind_arg_possibly_unbound");
                    }
                }
                Elem::Graph(_, inner) => walk(inner, depth + 1, true, &sib, t),
                Elem::Nested(inner) => walk(inner, depth + 1, in_graph, &sib, t),
                Elem::Union(bs) => {
                    for b in bs {
                        walk(b, depth + 1, in_graph, &sib, t);
                    }
                }
                Elem::Sub(sub) => {
                    if !sub.group_by.is_empty() && !sub.has_aggregate() {
                        t.push("sub_group_by_no_agg");
                    }
                }
                _ => {}
            }
        }
    }
    let mut t = Vec::new();
    walk(&s.pattern, 0, false, &Default::default(), &mut t);
    if !s.group_by.is_empty() && !s.has_aggregate() {
        t.push("group_by_no_agg");
    }
    if t.contains(&"star") && !s.from.is_empty() {
        t.push("star_from");
    }
    t.sort();
    t.dedup();
    t
}

/// the query list of a scope: the shared generator list plus the C01-only round-3 families
pub fn query_list(scope: Scope) -> Vec<Select> {
    let mut q = qgen::queries(scope);
    q.extend(qgen::c01_only(scope));
    q
}

#[derive(Clone, Copy, PartialEq, Eq, Debug)]
pub enum Entry {
    Query,
    Legacy,
}

pub fn run_entry(entry: Entry, text: &str, ds: &Dataset) -> Result<Result<Vec<Vec<String>>, String>, String> {
    let mut db = build_db(ds);
    guarded(|| match entry {
        Entry::Query => execute_sparql_query(text, &mut db),
        Entry::Legacy => Ok(execute_query_rayon_parallel2_volcano(text, &mut db)),
    })
}

/// Execute one (dataset, query) pair through one entry point; Err((symptom, detail)).
pub fn check_pair(entry: Entry, s: &Select, text: &str, ds: &Dataset, ans: &sparql_eval::Answer) -> Result<(), (String, String)> {
    let _ = s;
    match run_entry(entry, text, ds) {
        Err(p) => Err(("panic".into(), p)),
        Ok(Err(e)) => Err(("query_rejected".into(), e)),
        Ok(Ok(rows)) => sparql_eval::check_rows(ans, &rows).map_err(|e| ("wrong_rows".into(), e)),
    }
}

fn case_json(scope: Scope, qi: usize, text: &str, mask: u32, eg: bool, entry: Entry) -> Value {
    json!({"scope": format!("{:?}", scope), "qindex": qi, "query": text, "dataset_mask": mask, "empty_graph": eg, "entry": format!("{:?}", entry)})
}

fn check_one(out: &mut ShardOut, scope: Scope, qi: usize, s: &Select, text: &str, mask: u32, eg: bool, ds: &Dataset, record_stats: bool, fam: &[&'static str]) {
    let ans = match sparql_eval::eval_select(s, ds) {
        Ok(a) => a,
        Err(e) => {
            out.machinery_errors.push(format!("reference evaluator rejected generated query {}: {}", text, e));
            return;
        }
    };
    if record_stats {
        if !ans.rows.is_empty() && s.operator_count() >= 2 {
            out.nontrivial(&(text, &ans.rows));
        }
        out.outcome(&ans.rows);
        family_counters(out, s, ds, &ans, fam);
    }
    for entry in [Entry::Query, Entry::Legacy] {
        if entry == Entry::Legacy && mask.count_ones() < 9 && record_stats {
            continue;
        }
        out.evaluations += 1;
        if let Err((symptom, detail)) = check_pair(entry, s, text, ds, &ans) {
            // determinism before verdict
            let again = check_pair(entry, s, text, ds, &ans);
            match again {
                Err((s2, _)) if s2 == symptom => {
                    let mut tags = query_tags(s);
                    tags.push(format!("entry={:?}", entry));
                    out.fail(case_json(scope, qi, text, mask, eg, entry), &symptom, format!("{}\n  query: {}\n  dataset: {:?}", detail, text, ds), tags);
                }
                _ => out.machinery_errors.push(format!("non-deterministic verdict for {} on mask {}", text, mask)),
            }
        }
    }
}

/// Vacuity counters of the round-3 families: how many executed pairs belong to each family, how many
/// of them have a non-empty reference answer, and - per family - how many really cross what the
/// family is meant to cross (the join on a BIND target discards solutions, grouping merges solutions,
/// a BIND target stays unbound, a filter removes solutions).
fn family_counters(out: &mut ShardOut, s: &Select, ds: &Dataset, ans: &sparql_eval::Answer, fam: &[&'static str]) {
    if fam.is_empty() {
        return;
    }
    for f in fam {
        out.count(&format!("fam_{}_cases", f), 1);
        if !ans.rows.is_empty() {
            out.count(&format!("fam_{}_nonempty", f), 1);
        }
    }
    let rows_of = |q: &Select| sparql_eval::eval_select(q, ds).map(|a| a.rows.len()).unwrap_or(0);
    if fam.contains(&"bind_target_shared_with_sibling") {
        let mut r = s.clone();
        r.pattern = qgen::rename_inner_bind_targets(&s.pattern);
        r.proj = Proj::Star;
        if rows_of(&r) > ans.rows.len() {
            out.count("x_bind_target_join_discards_solutions", 1);
        }
    }
    if fam.contains(&"group_by_no_agg") {
        let mut r = s.clone();
        r.group_by.clear();
        r.distinct = false;
        r.limit = None;
        let mut me = s.clone();
        me.limit = None;
        me.distinct = false;
        if rows_of(&r) > rows_of(&me) {
            out.count("x_group_by_no_agg_merges_solutions", 1);
        }
    }
    if fam.contains(&"bind_arg_possibly_unbound") {
        if let Some(ci) = ans.columns.iter().position(|c| c == "n") {
            if ans.rows.iter().any(|r| r[ci].is_none()) {
                out.count("x_bind_target_left_unbound", 1);
            }
        }
    }
    if fam.contains(&"not_over_possible_error") || fam.contains(&"cmp_const_left") || fam.contains(&"star_filter") {
        let mut r = s.clone();
        r.pattern = qgen::strip_filters(&s.pattern);
        let dropped = rows_of(&r) > ans.rows.len();
        for f in ["not_over_possible_error", "cmp_const_left", "star_filter"] {
            if fam.contains(&f) && dropped && s.limit.is_none() && !s.distinct {
                out.count(&format!("x_{}_filter_removes_solutions", f), 1);
            }
            if fam.contains(&f) && dropped && !ans.rows.is_empty() && s.limit.is_none() && !s.distinct {
                out.count(&format!("x_{}_filter_keeps_some_removes_some", f), 1);
            }
        }
    }
}

fn run(ctx: &Ctx) -> ShardOut {
    let mut out = ShardOut::default();
    let scope = if ctx.thorough() { Scope::Thorough } else { Scope::Quick };
    let qs = query_list(scope);
    let texts: Vec<String> = qs.iter().map(|s| print_select(s, Layout::Canonical)).collect();
    let fams: Vec<Vec<&'static str>> = qs.iter().map(family_tags).collect();
    if ctx.shard == 0 {
        for f in fams.iter().flatten() {
            out.count(&format!("fam_{}_queries", f), 1);
        }
    }
    let dsl = dataset_list(ctx.thorough());
    out.count("queries", if ctx.shard == 0 { qs.len() as u64 } else { 0 });
    out.count("datasets", if ctx.shard == 0 { dsl.len() as u64 } else { 0 });
    let nq = qs.len() as u64;
    'outer: for (di, (mask, eg)) in dsl.iter().enumerate() {
        let ds = dataset_from_mask(*mask, *eg);
        for (qi, s) in qs.iter().enumerate() {
            let idx = di as u64 * nq + qi as u64;
            if !ctx.mine(idx.wrapping_mul(2654435761) >> 7) {
                continue;
            }
            if qi % 64 == 0 && ctx.expired() {
                out.capped.push(format!("wall-clock cap: stopped at dataset {} of {} (datasets before it completed for this shard)", di, dsl.len()));
                break 'outer;
            }
            check_one(&mut out, scope, qi, s, &texts[qi], *mask, *eg, &ds, true, &fams[qi]);
            if out.samples.len() < 3 && *mask == 1023 && qi % 997 == 5 {
                out.sample(json!({"query": texts[qi], "dataset_mask": mask, "empty_graph": eg}));
            }
        }
    }
    out
}

fn replay(_ctx: &Ctx, case: &Value) -> ShardOut {
    let mut out = ShardOut::default();
    let scope = match case["scope"].as_str() {
        Some("Thorough") => Scope::Thorough,
        Some("Tiny") => Scope::Tiny,
        _ => Scope::Quick,
    };
    let qs = query_list(scope);
    let qi = case["qindex"].as_u64().unwrap_or(0) as usize;
    let want = case["query"].as_str().unwrap_or("");
    let s = match qs.get(qi).filter(|s| print_select(s, Layout::Canonical) == want).or_else(|| qs.iter().find(|s| print_select(s, Layout::Canonical) == want)) {
        Some(s) => s,
        None => {
            out.machinery_errors.push("replay: query not found in the generator list".into());
            return out;
        }
    };
    let mask = case["dataset_mask"].as_u64().unwrap_or(0) as u32;
    let eg = case["empty_graph"].as_bool().unwrap_or(false);
    let ds = dataset_from_mask(mask, eg);
    check_one(&mut out, scope, qi, s, want, mask, eg, &ds, false, &[]);
    out
}
