//! C06 — probabilities attached to derived facts equal their possible-worlds probability.
//! E-in: (program, tagged fact list, probability assignment, insertion order) cases, each run through
//! infer_new_facts_with_provenance in the four modes and compared with R-worlds / (max,min) / derivability.
use crate::infra::{guarded, Ctx, PropDef, ShardOut};
use crate::props::c05::{self, Decoder, Features, Toggle};
use crate::reference::datalog::{self as rd, Fact, MaxMinSr, NonNumeric, Rule, Symbols};
use datalog::reasoning::materialisation::sdd_seed_materialise::infer_new_facts_with_sdd_seed_specs;
use datalog::reasoning::Reasoner;
use serde_json::{json, Value};
use shared::provenance::{BooleanProvenance, DnfWmcProvenance, MinMaxProbability, Provenance};
use shared::sdd::SddProvenance;
use shared::seed_spec::SeedSpec;
use shared::triple::Triple;
use std::collections::{BTreeMap, BTreeSet};

pub const DEF: PropDef = PropDef {
    id: "C06",
    level: "exploration",
    rule: "case = (program, ordered list of certain/tagged facts, mode). Programs: the 40 single rules of the C05 core plus 7 further single rules (constant join node, repeated premise variable, triangle / four-premise bodies with shared evidence, variable-predicate premises), every ordered pair of a 14-rule probabilistic sub-core (thorough: of the whole core) that one stratum of negation can evaluate, 8 three/four-rule programs of the late-improvement family (a second proof of an already consumed fact arrives one round later), mutual recursion and negation over derived facts, and 10 negation programs whose negated rule is the top of the program (several negated atoms whose formulas share seeds, a numeric or != filter next to a negated atom, a fully ground negated atom, three premises with negation, negation of a fact with several proofs): nothing reads the negated conclusion, so these are judged exactly. Inputs: 20 curated fact sets of <=4 facts (chains, cycles, self-loops next to a 2-cycle, shortcut+tail, diamond, shared evidence, an input that is also derivable, numerics) with EVERY assignment of {certain,0,0.3,0.5,1} to their facts (pairs in the quick tier: of {0,0.3,0.5,1}), and in EVERY insertion order with a fixed all-uncertain assignment (4 facts: 6 orders in all modes, the other 18 in the exact modes); for every program that is not a pair, EVERY non-empty set of <=3 facts over {a,b}x{p,q}x{a,b} (92 sets) with every assignment of {certain,0,0.3,0.5,1} (3 facts in the quick tier: every assignment of {certain,0.5} plus (0.3,0.5,0.3)); plus larger graphs with 6..8 (thorough: ..12) uncertain facts with a fixed spread of distinct probabilities in 2 orders in all modes and 4 more rotations in the exact modes. Alternative entry point of the decision-diagram mode (programs that are not pairs): infer_new_facts_with_sdd_seed_specs with one SeedSpec::Independent per uncertain fact of a curated set, in every list order (4 facts: 2), under EVERY assignment of the ids {0..k-1} and of a gapped id set ({0,2,5,9}) to the seeds, and the same with the first fact certain - so diagram variable order (list order), id order and id density all vary. Modes: DnfWmcProvenance, SddProvenance, seed-spec entry point (oracle: R-worlds over all 2^n subsets, 1e-9), MinMaxProbability (oracle: (max,min) least fixpoint; not judged for programs with negation), BooleanProvenance (oracle: stratified model of the facts with p>0; a run that instead agrees exactly with the model of all listed facts is accepted and counted). Inputs that are the same multiset of entries share one evaluation of the reference (one unit of the sharded walk). Non-trivial = some fact not among the inputs has exact probability strictly between 0 and 1; distinct = distinct (program, fact list with probabilities).",
    assumptions: &[
        "R-worlds = sum over all subsets of the uncertain facts of the world weight x [fact in the least (stratified) model of the world] (harness/src/reference/datalog.rs)",
        "reported probability of a fact = Provenance::recover_probability(TagStore::get_tag(fact)) for every fact in the store after inference; a fact with positive exact probability that is absent from the store is a failure, a fact in the store with reported probability 0 and exact probability 0 is not",
        "min-max with negation is not fixed by the statement (no reading of NOT in 'best derivation's weakest input'): not judged",
        "Boolean mode: the statement's 'plain derivability' does not say whether an input with probability 0 counts as present; the oracle is derivability from the inputs with p>0 (what tag_from_probability does), and a run that agrees exactly with derivability from all listed inputs is accepted too (counted; 0 on the pinned tree)",
        "SeedSpec::Independent seeds are independent probabilistic inputs in the sense of the statement (ExclusiveGroup seeds are not generated); ids are distinct, list order and id order are arbitrary",
        "cases where a numeric filter meets a non-numeric binding and the two readings differ in some world are not judged",
        "every fact is inserted once (no triple both certain and tagged, no duplicate tagged triple)",
        "the store hands facts out in HashMap order (random per process): a wrong probability that changes from run to run is still a failure (tag result_varies_between_runs), a replay executes the case 8 times",
        "failure tag explained_by=single_pass_over_negated_rules_after_positive_fixpoint: every reported value lies between the value R-worlds gives when each world is evaluated with one pass over the negated rules and the exact value",
        "shannon_wmc's memo table has no observable counter; whether a memo hit occurs is not claimed",
    ],
    run,
    replay,
    cap_s: (50, 840),
    shards: 0,
};

pub fn symbols() -> Symbols {
    Symbols::new(&["a", "b", "c", "d", "e", "f", "g", "1", "20", "p", "q", "r", "s", "t"])
}

#[derive(Clone, Copy, PartialEq, Eq, Debug, Hash, PartialOrd, Ord)]
pub enum Mode {
    Dnf,
    Sdd,
    MinMax,
    Bool,
    /// decision-diagram mode through infer_new_facts_with_sdd_seed_specs (Independent seeds, caller-chosen ids)
    SddSeeds,
}
pub const MODES: [Mode; 4] = [Mode::Dnf, Mode::Sdd, Mode::MinMax, Mode::Bool];
const EXACT_MODES: [Mode; 2] = [Mode::Dnf, Mode::Sdd];
const ALL_MODE_NAMES: [Mode; 5] = [Mode::Dnf, Mode::Sdd, Mode::MinMax, Mode::Bool, Mode::SddSeeds];
impl Mode {
    pub fn name(&self) -> &'static str {
        match self {
            Mode::Dnf => "dnf_wmc",
            Mode::Sdd => "sdd",
            Mode::MinMax => "minmax",
            Mode::Bool => "boolean",
            Mode::SddSeeds => "sdd_seed_specs",
        }
    }
}

/// a fact with its probability (None = certain, inserted with add_abox_triple)
pub type Entry = (Fact, Option<f64>);

const SUBCORE: [&str; 14] = [
    "q(?x,?y) :- p(?x,?y)",
    "p(?x,?y) :- q(?x,?y)",
    "q(?y,?x) :- p(?x,?y)",
    "p(?y,?x) :- p(?x,?y)",
    "p(?x,?z) :- p(?x,?y), p(?y,?z)",
    "q(?x,?z) :- q(?x,?y), p(?y,?z)",
    "q(?x,?z) :- p(?x,?y), p(?y,?z)",
    "r(?x,?z) :- p(?x,?y), q(?y,?z)",
    "r(?x,?y) :- ?w(?x,?y)",
    "r(?x,?x) :- p(?x,?y)",
    "q(?x,?y), r(?y,?x) :- p(?x,?y)",
    "q(?x,?y) :- p(?x,?y), not p(?y,?x)",
    "r(?x,?y) :- p(?x,?y), not q(?x,?y)",
    "q(?x,?y) :- p(?x,?z), p(?y,?z), ?x != ?y",
];

const FAMILIES: [&[&str]; 8] = [
    // transitive closure + a consumer of it: over a shortcut graph t(a,c) is improved one round after t(a,d) consumed it
    &["t(?x,?y) :- p(?x,?y)", "t(?x,?z) :- t(?x,?y), p(?y,?z)", "s(?x,?x) :- t(?x,?y)"],
    // second proof of q(a,c) arrives one round after s(a,a) was first derived from q(a,c)
    &["t(?x,?y) :- p(?x,?y)", "q(?x,?z) :- t(?x,?y), p(?y,?z)", "q(?x,?y) :- r(?x,?y)", "s(?x,?x) :- q(?x,?y)"],
    &["q(?x,?z) :- p(?x,?y), p(?y,?z)", "q(?x,?y) :- r(?x,?y)", "s(?x,?x) :- q(?x,?y)"],
    // negation of an input over a derived closure
    &["t(?x,?y) :- p(?x,?y)", "t(?x,?z) :- t(?x,?y), t(?y,?z)", "s(?y,?x) :- t(?x,?y), not p(?x,?y)"],
    // mutual recursion
    &["q(?x,?y) :- p(?x,?y)", "p(?y,?x) :- q(?x,?y)", "r(?x,?z) :- p(?x,?y), q(?y,?z)"],
    // right-linear closure and a two-premise consumer
    &["t(?x,?y) :- p(?x,?y)", "t(?x,?z) :- p(?x,?y), t(?y,?z)", "s(?x,?y) :- t(?x,?y), t(?y,?x)"],
    // negation of a derived, recursive predicate
    &["t(?x,?y) :- p(?x,?y)", "t(?x,?z) :- t(?x,?y), p(?y,?z)", "s(?x,?y) :- p(?x,?y), not t(?y,?x)"],
    // two-hop and closure feeding each other through q
    &["q(?x,?z) :- p(?x,?y), p(?y,?z)", "p(?x,?y) :- q(?x,?y)", "s(?x,?x) :- p(?x,?y)"],
];

/// programs whose negated rule is the top of the program (nothing reads its conclusion, so the single
/// negative pass of the engine is a complete evaluation and every value is judged exactly): several
/// negated atoms whose formulas share seeds, a filter next to a negated atom, a fully ground negated
/// atom, three premises with negation, negation of a fact with several proofs
const NEG_FAMILIES: [&[&str]; 10] = [
    &["r(?x,?y) :- p(?x,?z), p(?z,?y)", "q(?x,?y) :- p(?x,?y), not p(?y,?x), not r(?x,?y)"],
    &["t(?x,?y) :- p(?x,?y)", "t(?x,?z) :- t(?x,?y), p(?y,?z)", "s(?x,?y) :- p(?x,?y), not t(?y,?x), ?y != ?x"],
    &["s(?x,?y) :- p(?x,?y), not p(b,?y), ?y > 5"],
    &["s(?x,?y) :- p(?x,?y), not p(a,a)"],
    &["s(?x,?y) :- p(?x,?y), not p(?y,?x), not q(?x,?y)"],
    &["s(?x,?y) :- p(?x,?y), not p(?x,?x), not p(?y,?y)"],
    &["s(?x,?z) :- p(?x,?y), p(?y,?z), p(?x,?z), not q(?x,?z)"],
    &["r(?x,?y) :- p(?x,?y)", "r(?x,?y) :- q(?x,?y)", "s(?x,?y) :- p(?x,?y), not r(?y,?x)"],
    &["r(?x,?z) :- p(?x,?y), p(?y,?z)", "s(?x,?y) :- p(?x,?y), not r(?x,?x), not r(?y,?y)"],
    &["s(?x,?y) :- p(?x,?y), not q(?x,?y), ?x != ?y", "t(?x,?y) :- p(?x,?y), not p(?y,?x), not p(?x,?x)"],
];

/// further single rules (shapes of the C05 families B/C/G that the 40-rule core lacks): a constant
/// join node, a repeated premise variable with a second premise, a triangle and a four-premise body
/// whose proofs share evidence, a variable-predicate premise joined with constant-predicate ones
const EXTRA_SINGLES: [&str; 7] = [
    "q(?x,?y) :- p(?x,a), p(a,?y)",
    "r(?x,?y) :- p(?x,?x), p(?x,?y)",
    "s(?x,?x) :- p(?x,?y), p(?x,?z), p(?y,?z)",
    "s(?x,?x) :- p(?x,?y), p(?y,?x)",
    "s(?x,?x) :- p(?x,?y), p(?y,?z), p(?z,?w), p(?x,?w)",
    "r(?x,?z) :- p(?x,?y), q(?y,?z), ?w(?x,?z)",
    "s(?x,?x) :- ?w(?x,?y), ?w(?y,?x)",
];

const SMALL_SETS: [&[&str]; 20] = [
    &["p(a,a)", "p(a,b)", "p(b,a)"],
    &["p(a,a)", "p(b,b)", "p(a,b)"],
    &["p(a,b)"],
    &["p(a,b)", "p(b,c)"],
    &["p(a,b)", "p(b,a)"],
    &["p(a,b)", "q(a,b)"],
    &["p(a,b)", "q(b,c)"],
    &["p(a,b)", "p(b,c)", "p(a,c)"],
    &["p(a,b)", "p(b,c)", "p(c,a)"],
    &["p(a,b)", "p(b,c)", "q(a,c)"],
    &["p(a,b)", "p(b,c)", "r(a,c)"],
    &["p(a,b)", "p(b,c)", "p(b,d)"],
    &["p(a,b)", "p(b,a)", "q(a,b)"],
    &["p(a,a)", "p(a,b)", "q(b,a)"],
    &["p(a,1)", "p(a,20)", "p(b,20)"],
    &["p(a,b)", "p(b,c)", "p(c,d)", "p(a,c)"],
    &["p(a,b)", "p(a,c)", "p(b,d)", "p(c,d)"],
    &["p(a,b)", "p(b,c)", "p(c,d)", "r(a,c)"],
    &["p(a,b)", "p(b,a)", "p(b,c)", "q(c,a)"],
    &["p(a,b)", "q(b,c)", "r(c,a)", "p(c,a)"],
];

/// (facts, how many of them are certain — taken from the end of the list)
const LARGE_SETS: [(&[&str], usize); 10] = [
    (&["p(a,b)", "p(b,c)", "p(c,d)", "p(d,e)", "p(a,c)", "p(c,e)"], 0),
    (&["p(a,b)", "p(b,a)", "p(b,c)", "p(c,b)", "p(c,a)", "p(a,c)"], 0),
    (&["p(a,b)", "p(b,c)", "q(a,b)", "q(b,c)", "r(a,c)", "p(c,a)", "q(c,d)"], 1),
    (&["p(a,b)", "p(a,c)", "p(b,d)", "p(c,d)", "p(d,e)", "p(d,f)", "p(e,g)", "p(f,g)"], 0),
    (&["p(a,b)", "p(b,c)", "p(c,d)", "p(d,a)", "p(a,c)", "p(b,d)", "q(a,b)", "q(c,d)", "r(a,d)"], 1),
    (&["p(a,b)", "p(b,c)", "p(c,d)", "p(d,a)", "p(a,c)", "p(b,d)", "q(a,b)", "q(b,c)", "q(c,d)", "q(d,a)"], 0),
    (&["p(a,b)", "p(b,c)", "p(c,d)", "p(d,e)", "p(e,f)", "p(f,g)", "p(a,c)", "p(b,d)", "p(c,e)", "p(d,f)", "p(e,g)", "p(a,g)"], 0),
    (&["p(a,b)", "p(a,c)", "p(a,d)", "p(b,a)", "p(b,c)", "p(b,d)", "p(c,a)", "p(c,b)", "p(c,d)", "p(d,a)", "p(d,b)", "p(d,c)"], 0),
    (&["p(a,b)", "p(b,c)", "p(c,a)", "q(a,b)", "q(b,c)", "q(c,a)", "r(a,b)", "r(b,c)", "r(c,a)", "p(a,a)", "q(b,b)", "r(c,c)"], 0),
    (&["p(a,1)", "p(a,20)", "p(b,1)", "p(b,20)", "q(a,1)", "q(b,20)", "p(a,b)", "p(b,a)"], 2),
];
const SPREAD: [f64; 12] = [0.9, 0.2, 0.7, 0.4, 0.5, 0.6, 0.3, 0.8, 0.1, 0.95, 0.35, 0.65];

pub struct Prog {
    pub rules: Vec<Rule>,
    pub family: &'static str,
}

fn programs(sy: &Symbols, thorough: bool) -> (Vec<Prog>, u64) {
    let parse = |t: &str| rd::parse_rule(t, sy).unwrap_or_else(|e| panic!("{}: {}", t, e));
    let mut v = Vec::new();
    let core: Vec<Rule> = c05::CORE.iter().map(|t| parse(t)).collect();
    for r in &core {
        v.push(Prog { rules: vec![r.clone()], family: "single" });
    }
    let pool: Vec<Rule> = if thorough { core.clone() } else { SUBCORE.iter().map(|t| parse(t)).collect() };
    let mut excluded = 0;
    for a in &pool {
        for b in &pool {
            let rules = vec![a.clone(), b.clone()];
            if rd::stratify(&rules).is_err() {
                excluded += 1;
                continue;
            }
            v.push(Prog { rules, family: "pair" });
        }
    }
    for f in FAMILIES {
        let rules: Vec<Rule> = f.iter().map(|t| parse(t)).collect();
        rd::stratify(&rules).expect("family program must be stratifiable");
        v.push(Prog { rules, family: "family" });
    }
    for f in NEG_FAMILIES {
        let rules: Vec<Rule> = f.iter().map(|t| parse(t)).collect();
        rd::stratify(&rules).expect("negation family program must be stratifiable");
        assert!(!c05::features(&rules).neg_conclusion_consumed, "negation family: nothing may read the negated rule's conclusion");
        v.push(Prog { rules, family: "negfamily" });
    }
    for t in EXTRA_SINGLES {
        v.push(Prog { rules: vec![parse(t)], family: "single_extra" });
    }
    (v, excluded)
}

/// every non-empty set of <= 3 facts over {a,b} x {p,q} x {a,b} (92 sets)
fn universe_sets(sy: &Symbols) -> Vec<Vec<Fact>> {
    let mut uni: Vec<Fact> = Vec::new();
    for s in ["a", "b"] {
        for p in ["p", "q"] {
            for o in ["a", "b"] {
                uni.push([sy.sym(s), sy.sym(p), sy.sym(o)]);
            }
        }
    }
    let n = uni.len();
    let mut out = Vec::new();
    for i in 0..n {
        out.push(vec![uni[i]]);
        for j in (i + 1)..n {
            out.push(vec![uni[i], uni[j]]);
            for k in (j + 1)..n {
                out.push(vec![uni[i], uni[j], uni[k]]);
            }
        }
    }
    out
}

/// one input of a program: the ordered entry list, which modes run on it, and (alternative entry
/// point) the seed ids handed to infer_new_facts_with_sdd_seed_specs for the uncertain entries
pub struct Input {
    pub entries: Vec<Entry>,
    /// only the exact modes (DNF, SDD): used for the additional insertion orders
    pub exact_only: bool,
    pub seed_ids: Option<Vec<u32>>,
}
impl Input {
    fn all(entries: Vec<Entry>) -> Input {
        Input { entries, exact_only: false, seed_ids: None }
    }
    fn exact(entries: Vec<Entry>) -> Input {
        Input { entries, exact_only: true, seed_ids: None }
    }
}

/// all assignments of `choices` (indices into the 5 probability choices) to `facts`
fn assignments(facts: &[Fact], allowed: &[usize], out: &mut Vec<Vec<Entry>>) {
    let choices: [Option<f64>; 5] = [None, Some(0.0), Some(0.3), Some(0.5), Some(1.0)];
    let k = facts.len();
    let mut digits = vec![0usize; k];
    loop {
        out.push(facts.iter().zip(digits.iter()).map(|(f, d)| (*f, choices[allowed[*d]])).collect());
        let mut i = 0;
        while i < k {
            digits[i] += 1;
            if digits[i] < allowed.len() {
                break;
            }
            digits[i] = 0;
            i += 1;
        }
        if i == k {
            break;
        }
    }
}

fn permutations<TT: Clone>(v: &[TT]) -> Vec<Vec<TT>> {
    if v.len() <= 1 {
        return vec![v.to_vec()];
    }
    let mut out = Vec::new();
    for i in 0..v.len() {
        let mut rest = v.to_vec();
        let x = rest.remove(i);
        for mut p in permutations(&rest) {
            p.insert(0, x.clone());
            out.push(p);
        }
    }
    out
}

/// The inputs of one program, in groups that share one expectation (the same entries as a multiset):
/// sharding is by group, so that the reference runs once per group.
fn inputs(sy: &Symbols, prog: &Prog, thorough: bool, uni: &[Vec<Fact>]) -> Vec<(&'static str, Vec<Input>)> {
    let mut out: Vec<(&'static str, Vec<Input>)> = Vec::new();
    let positive = prog.rules.iter().all(|r| r.neg.is_empty());
    let pair = prog.family == "pair";
    // a positive program that derives nothing from all the facts derives nothing in any world
    let derives_nothing = |facts: &[Fact]| -> bool { positive && rd::model_set(&prog.rules, facts, sy, NonNumeric::Zero).map_or(false, |m| m.len() == facts.len()) };
    for set in SMALL_SETS {
        let facts: Vec<Fact> = set.iter().map(|t| rd::parse_fact(t, sy).unwrap()).collect();
        if derives_nothing(&facts) {
            continue;
        }
        let k = facts.len();
        // pairs in the quick tier: every assignment of {0,0.3,0.5,1}; everything else also "certain"
        let allowed: &[usize] = if pair && !thorough { &[1, 2, 3, 4] } else { &[0, 1, 2, 3, 4] };
        let mut lists = Vec::new();
        assignments(&facts, allowed, &mut lists);
        out.extend(lists.into_iter().map(|l| ("curated_set_assignments", vec![Input::all(l)])));
        // insertion orders (seed numbering / variable order): fixed all-uncertain assignment, EVERY order;
        // for 4 facts 6 of the 24 orders run in all modes and the other 18 in the exact modes
        let fixed: Vec<Entry> = facts.iter().enumerate().map(|(i, f)| (*f, Some([0.3, 0.5, 0.5, 0.3][i % 4]))).collect();
        let perms = permutations(&fixed);
        let mut group: Vec<Input> = Vec::new();
        for (i, p) in perms.iter().enumerate().skip(1) {
            if k == 4 && i % 4 != 0 {
                group.push(Input::exact(p.clone()));
            } else {
                group.push(Input::all(p.clone()));
            }
        }
        // alternative entry point infer_new_facts_with_sdd_seed_specs: Independent seeds with caller-chosen
        // ids, so the variable order of the diagram (= order of the seed list) differs from the id order
        // and ids may have gaps
        if !pair {
            let orders: Vec<Vec<Entry>> = if k <= 3 { perms.clone() } else { vec![perms[0].clone(), perms[perms.len() - 1].clone()] };
            let dense: Vec<u32> = (0..k as u32).collect();
            let gapped: Vec<u32> = [0u32, 2, 5, 9][..k].to_vec();
            for o in &orders {
                for ids in permutations(&dense).into_iter().chain(permutations(&gapped)) {
                    group.push(Input { entries: o.clone(), exact_only: true, seed_ids: Some(ids) });
                }
            }
            out.push(("orders_and_seed_specs", std::mem::take(&mut group)));
            // the same with the first fact certain
            if k >= 2 {
                let mut g2 = Vec::new();
                let mut withc = fixed.clone();
                withc[0].1 = None;
                let dense: Vec<u32> = (0..(k - 1) as u32).collect();
                let gapped: Vec<u32> = [1u32, 4, 6][..k - 1].to_vec();
                let orders = if k <= 3 { permutations(&withc) } else { vec![withc.clone()] };
                for o in &orders {
                    for ids in permutations(&dense).into_iter().chain(permutations(&gapped)) {
                        g2.push(Input { entries: o.clone(), exact_only: true, seed_ids: Some(ids) });
                    }
                }
                out.push(("seed_specs_with_certain_fact", g2));
            }
        } else if !group.is_empty() {
            out.push(("orders_and_seed_specs", group));
        }
    }
    // exhaustive small universe: every set of <= 3 facts over {a,b}x{p,q}x{a,b} with every assignment of
    // {certain,0,0.3,0.5,1} (3 facts in the quick tier: every assignment of {certain,0.5} and (0.3,0.5,0.3))
    if !pair {
        for facts in uni {
            if derives_nothing(facts) {
                continue;
            }
            let allowed: &[usize] = if facts.len() <= 2 || thorough { &[0, 1, 2, 3, 4] } else { &[0, 3] };
            let mut lists = Vec::new();
            assignments(facts, allowed, &mut lists);
            if facts.len() == 3 && !thorough {
                // one all-uncertain assignment with two different weights (a mix-up of seeds is invisible with equal weights)
                lists.push(facts.iter().enumerate().map(|(i, f)| (*f, Some([0.3, 0.5, 0.3][i]))).collect());
            }
            out.extend(lists.into_iter().map(|l| ("universe_set_assignments", vec![Input::all(l)])));
        }
    }
    for (set, ncertain) in LARGE_SETS {
        let facts: Vec<Fact> = set.iter().map(|t| rd::parse_fact(t, sy).unwrap()).collect();
        let nunc = facts.len() - ncertain;
        if nunc > 8 && !thorough {
            continue;
        }
        if nunc > 8 && pair {
            // 2^n worlds x fixpoint per case: the big graphs run on singles and families only
            continue;
        }
        if derives_nothing(&facts) {
            continue;
        }
        let list: Vec<Entry> = facts.iter().enumerate().map(|(i, f)| (*f, if i < nunc { Some(SPREAD[i % 12]) } else { None })).collect();
        let mut group = vec![Input::all(list.clone())];
        let mut rev = list.clone();
        rev.reverse();
        group.push(Input::all(rev));
        // four more rotations in the exact modes (variable order of the diagram)
        for j in [1usize, 2, 4, 5] {
            let mut rot = list.clone();
            rot.rotate_left(list.len() * j / 6);
            group.push(Input::exact(rot));
        }
        out.push(("large_sets", group));
    }
    out
}

// ---------------------------------------------------------------------------------------------
// the subject

fn build(rules: &[Rule], entries: &[Entry], sy: &Symbols) -> Reasoner {
    let mut r = Reasoner::new();
    for rule in rules {
        let dict = r.dictionary.clone();
        let mut enc = |s: &str| dict.write().unwrap().encode(s);
        let kr = c05::to_krule(rule, sy, &mut enc);
        r.add_rule(kr);
    }
    for (f, p) in entries {
        match p {
            None => r.add_abox_triple(sy.name(f[0]), sy.name(f[1]), sy.name(f[2])),
            Some(p) => r.add_tagged_triple(sy.name(f[0]), sy.name(f[1]), sy.name(f[2]), *p),
        }
    }
    r
}

/// reported probability of every fact in the store after inference
fn run_with<P: Provenance>(prov: P, rules: &[Rule], entries: &[Entry], sy: &Symbols, dec: &Decoder) -> Result<BTreeMap<Fact, f64>, String> {
    guarded(|| {
        let mut r = build(rules, entries, sy);
        let (_derived, tags) = r.infer_new_facts_with_provenance(prov);
        let mut out = BTreeMap::new();
        for t in r.dataset_index.query(None, None, None) {
            let p = tags.provenance().recover_probability(&tags.get_tag(&t));
            out.insert(dec.fact(&r, &t), p);
        }
        out
    })
}

/// the alternative entry point of the decision-diagram mode: rules and certain facts on the Reasoner,
/// every uncertain entry as SeedSpec::Independent with the id given for it (in list order)
fn run_seed_specs(rules: &[Rule], entries: &[Entry], ids: &[u32], sy: &Symbols, dec: &Decoder) -> Result<BTreeMap<Fact, f64>, String> {
    guarded(|| {
        let certain: Vec<Entry> = entries.iter().filter(|e| e.1.is_none()).cloned().collect();
        let mut r = build(rules, &certain, sy);
        let mut seeds: Vec<SeedSpec> = Vec::new();
        let mut k = 0;
        for (f, p) in entries {
            if let Some(p) = p {
                let triple = {
                    let mut d = r.dictionary.write().unwrap();
                    Triple { subject: d.encode(sy.name(f[0])), predicate: d.encode(sy.name(f[1])), object: d.encode(sy.name(f[2])) }
                };
                seeds.push(SeedSpec::Independent { triple, prob: *p, seed_id: ids[k] });
                k += 1;
            }
        }
        let (_derived, tags) = infer_new_facts_with_sdd_seed_specs(&mut r, seeds);
        let mut out = BTreeMap::new();
        for t in r.dataset_index.query(None, None, None) {
            let p = tags.provenance().recover_probability(&tags.get_tag(&t));
            out.insert(dec.fact(&r, &t), p);
        }
        out
    })
}

pub fn run_mode(mode: Mode, rules: &[Rule], entries: &[Entry], seed_ids: Option<&[u32]>, sy: &Symbols, dec: &Decoder) -> Result<BTreeMap<Fact, f64>, String> {
    match mode {
        Mode::Dnf => run_with(DnfWmcProvenance::new(), rules, entries, sy, dec),
        Mode::Sdd => run_with(SddProvenance::new(), rules, entries, sy, dec),
        Mode::MinMax => run_with(MinMaxProbability, rules, entries, sy, dec),
        Mode::Bool => run_with(BooleanProvenance, rules, entries, sy, dec),
        Mode::SddSeeds => match seed_ids {
            Some(ids) if ids.len() == entries.iter().filter(|e| e.1.is_some()).count() => run_seed_specs(rules, entries, ids, sy, dec),
            _ => Err("harness: seed-spec mode without one id per uncertain entry".to_string()),
        },
    }
}

// ---------------------------------------------------------------------------------------------
// oracle

pub struct Expect {
    pub exact: BTreeMap<Fact, f64>,
    pub minmax: Option<BTreeMap<Fact, f64>>,
    pub boolean: BTreeSet<Fact>,
    /// the other reading of "plain derivability" in the Boolean mode: input facts with probability 0
    /// count as present (the statement does not say which one is meant). Some iff it differs.
    pub boolean_keeping_p0: Option<BTreeSet<Fact>>,
    pub open: bool,
}

fn split(entries: &[Entry]) -> (Vec<Fact>, Vec<(Fact, f64)>) {
    let certain = entries.iter().filter(|e| e.1.is_none()).map(|e| e.0).collect();
    let uncertain = entries.iter().filter_map(|e| e.1.map(|p| (e.0, p))).collect();
    (certain, uncertain)
}

fn close(a: &BTreeMap<Fact, f64>, b: &BTreeMap<Fact, f64>) -> bool {
    let keys: BTreeSet<&Fact> = a.keys().chain(b.keys()).collect();
    keys.iter().all(|k| (a.get(*k).copied().unwrap_or(0.0) - b.get(*k).copied().unwrap_or(0.0)).abs() <= 1e-12)
}

pub fn expect(rules: &[Rule], entries: &[Entry], sy: &Symbols) -> Result<Expect, String> {
    let (certain, uncertain) = split(entries);
    let exact = rd::worlds(rules, &certain, &uncertain, sy, NonNumeric::TypeError)?;
    let mut open = false;
    if rules.iter().any(|r| r.filters.iter().any(|f| matches!(f.rhs, rd::Rhs::Num(_)))) {
        let other = rd::worlds(rules, &certain, &uncertain, sy, NonNumeric::Zero)?;
        open = !close(&exact, &other);
    }
    let has_neg = rules.iter().any(|r| !r.neg.is_empty());
    let minmax = if has_neg {
        None
    } else {
        let input: Vec<(Fact, f64)> = entries.iter().map(|e| (e.0, e.1.unwrap_or(1.0))).collect();
        Some(rd::eval(&MaxMinSr, rules, &input, sy, NonNumeric::TypeError)?.into_iter().map(|(f, (v, _))| (f, v)).collect())
    };
    let present: Vec<Fact> = entries.iter().filter(|e| e.1.map_or(true, |p| p > 0.0)).map(|e| e.0).collect();
    let boolean = rd::model_set(rules, &present, sy, NonNumeric::TypeError)?;
    let mut boolean_keeping_p0 = None;
    if present.len() != entries.len() {
        let all: Vec<Fact> = entries.iter().map(|e| e.0).collect();
        let alt = rd::model_set(rules, &all, sy, NonNumeric::TypeError)?;
        // (under the first reading a p=0 fact is in the store with value 0, under the second with value 1)
        boolean_keeping_p0 = Some(alt);
    }
    Ok(Expect { exact, minmax, boolean, boolean_keeping_p0, open })
}

fn entries_json(entries: &[Entry], sy: &Symbols) -> Value {
    Value::Array(entries.iter().map(|(f, p)| json!([sy.fact_str(f), p])).collect())
}

pub fn case_json(rules: &[Rule], entries: &[Entry], seed_ids: Option<&[u32]>, mode: Mode, sy: &Symbols) -> Value {
    let mut v = json!({
        "rules": rules.iter().map(|r| rd::rule_str(r, sy)).collect::<Vec<_>>(),
        "entries": entries_json(entries, sy),
        "mode": mode.name(),
    });
    if let (Mode::SddSeeds, Some(ids)) = (mode, seed_ids) {
        v["seed_ids"] = json!(ids);
    }
    v
}

fn fstr(f: &Fact, sy: &Symbols) -> String {
    if f.iter().any(|s| *s == c05::FOREIGN) {
        format!("<foreign term {:?}>", f)
    } else {
        sy.fact_str(f)
    }
}

/// every fact whose reported probability differs from the expected one (a fact that is not in the
/// store reports nothing: that is a difference iff its expected probability is positive)
fn compare(reported: &BTreeMap<Fact, f64>, expected: &BTreeMap<Fact, f64>, sy: &Symbols) -> Vec<String> {
    let mut diffs = Vec::new();
    for (f, rep) in reported {
        let exp = expected.get(f).copied().unwrap_or(0.0);
        if !((rep - exp).abs() <= 1e-9) {
            diffs.push(format!("{}: reported {} expected {}", fstr(f, sy), rep, exp));
        }
    }
    for (f, exp) in expected {
        if *exp > 1e-12 && !reported.contains_key(f) {
            diffs.push(format!("{}: expected {} but the fact is not in the store", fstr(f, sy), exp));
        }
    }
    diffs
}

/// lo(f) - 1e-9 <= reported(f) <= hi(f) + 1e-9 for every fact (absent = 0)
fn between(reported: &BTreeMap<Fact, f64>, lo: &BTreeMap<Fact, f64>, hi: &BTreeMap<Fact, f64>) -> bool {
    let keys: BTreeSet<&Fact> = reported.keys().chain(lo.keys()).chain(hi.keys()).collect();
    keys.iter().all(|k| {
        let r = reported.get(*k).copied().unwrap_or(0.0);
        let l = lo.get(*k).copied().unwrap_or(0.0);
        let h = hi.get(*k).copied().unwrap_or(0.0);
        r.is_finite() && l - 1e-9 <= r && r <= h + 1e-9
    })
}

fn expected_for(mode: Mode, exp: &Expect) -> Option<BTreeMap<Fact, f64>> {
    match mode {
        Mode::Dnf | Mode::Sdd | Mode::SddSeeds => Some(exp.exact.clone()),
        Mode::MinMax => exp.minmax.clone(),
        Mode::Bool => Some(exp.boolean.iter().map(|f| (*f, 1.0)).collect()),
    }
}

/// the oracle of `mode` when every world is evaluated with a single pass over the negated rules
/// after the positive fixpoint (diagnosis only)
fn single_pass_expectation(mode: Mode, rules: &[Rule], entries: &[Entry], sy: &Symbols) -> Option<BTreeMap<Fact, f64>> {
    let (certain, uncertain) = split(entries);
    let model_of = |facts: &[Fact]| c05::emulate(rules, facts, &[Toggle::SingleNegPass], sy, NonNumeric::TypeError).ok_or_else(|| "no emulation".to_string());
    match mode {
        Mode::Dnf | Mode::Sdd | Mode::SddSeeds => rd::worlds_with(&certain, &uncertain, &model_of).ok(),
        Mode::Bool => {
            let present: Vec<Fact> = entries.iter().filter(|e| e.1.map_or(true, |p| p > 0.0)).map(|e| e.0).collect();
            model_of(&present).ok().map(|m| m.into_iter().map(|f| (f, 1.0)).collect())
        }
        Mode::MinMax => None,
    }
}

/// Boolean mode, second reading of "plain derivability" (probability-0 inputs count as present): does
/// the observation agree with it exactly?
fn agrees_with_other_boolean_reading(mode: Mode, obs: &Observation, exp: &Expect, sy: &Symbols) -> bool {
    if mode != Mode::Bool {
        return false;
    }
    match (&exp.boolean_keeping_p0, obs) {
        (Some(alt), Ok(_)) => {
            let alt: BTreeMap<Fact, f64> = alt.iter().map(|f| (*f, 1.0)).collect();
            problem_of(obs, &alt, sy).is_none()
        }
        _ => false,
    }
}

#[allow(clippy::too_many_arguments)]
fn judge(out: &mut ShardOut, rules: &[Rule], entries: &[Entry], seed_ids: Option<&[u32]>, mode: Mode, exp: &Expect, feats: &Features, sy: &Symbols, dec: &Decoder) -> bool {
    let expected = match expected_for(mode, exp) {
        Some(e) => e,
        None => {
            out.count("runs_not_judged_minmax_with_negation", 1);
            return true;
        }
    };
    let obs = run_mode(mode, rules, entries, seed_ids, sy, dec);
    if problem_of(&obs, &expected, sy).is_none() {
        return true;
    }
    if agrees_with_other_boolean_reading(mode, &obs, exp, sy) {
        out.count("boolean_runs_agreeing_with_the_reading_that_keeps_probability_0_inputs", 1);
        return true;
    }
    // Re-execute. The harness side is a pure function of the case; the subject iterates hash maps
    // with a per-process random state, so its result may legitimately depend on the run. A failing
    // observation is a failure of the property whether or not the next run repeats it; the variation
    // is recorded as a tag (never as part of a known finding's scope).
    let again = run_mode(mode, rules, entries, seed_ids, sy, dec);
    let varies = !same_obs(&obs, &again);
    if varies {
        out.count("failing_runs_whose_result_varies_between_runs", 1);
    }
    report(out, rules, entries, seed_ids, mode, &obs, &expected, varies, feats, sy);
    false
}

type Observation = Result<BTreeMap<Fact, f64>, String>;

fn same_obs(a: &Observation, b: &Observation) -> bool {
    match (a, b) {
        (Ok(a), Ok(b)) => close(a, b) && a.len() == b.len(),
        (Err(a), Err(b)) => a == b,
        _ => false,
    }
}

fn problem_of(o: &Observation, expected: &BTreeMap<Fact, f64>, sy: &Symbols) -> Option<(&'static str, String)> {
    match o {
        Err(msg) => Some(("panic", msg.clone())),
        Ok(rep) => {
            let d = compare(rep, expected, sy);
            if d.is_empty() {
                None
            } else {
                Some(("reported_probability_differs_from_possible_worlds", d.join("; ")))
            }
        }
    }
}

#[allow(clippy::too_many_arguments)]
fn report(out: &mut ShardOut, rules: &[Rule], entries: &[Entry], seed_ids: Option<&[u32]>, mode: Mode, obs: &Observation, expected: &BTreeMap<Fact, f64>, varies: bool, feats: &Features, sy: &Symbols) {
    let (symptom, detail) = match problem_of(obs, expected, sy) {
        Some(p) => p,
        None => return,
    };
    let mut tags = vec![format!("mode={}", mode.name()), format!("rules={}", rules.len())];
    if varies {
        tags.push("result_varies_between_runs".into());
    }
    let mut add = |b: bool, s: &str| {
        if b {
            tags.push(s.to_string())
        }
    };
    add(feats.has_negation, "program_has_negated_atom");
    add(feats.neg_conclusion_consumed, "program_reads_conclusion_of_negated_rule");
    add(feats.recursive, "program_recursive");
    add(feats.has_filter, "program_has_filter");
    add(feats.has_varpred_premise, "program_has_variable_predicate_premise");
    add(feats.has_3plus, "program_has_rule_with_3plus_premises");
    add(entries.iter().any(|e| e.1.is_none()), "input_has_certain_facts");
    add(feats.has_2plus_negated_atoms, "program_has_rule_with_2plus_negated_atoms");
    add(feats.has_ground_negated_atom, "program_has_ground_negated_atom");
    add(feats.has_filter_and_negation, "program_has_rule_with_filter_and_negated_atom");
    add(feats.has_4plus, "program_has_rule_with_4plus_premises");
    if let Some(ids) = seed_ids {
        let mut sorted = ids.to_vec();
        sorted.sort();
        add(sorted.as_slice() != ids, "seed_ids_not_in_list_order");
        add(sorted.iter().enumerate().any(|(i, v)| *v != i as u32), "seed_ids_with_gaps");
    }
    // scope: every reported value lies between what one pass over the negated rules (after the positive
    // fixpoint) gives and the complete value. The pass reads tags while it improves them, in store
    // iteration order, so any value in between can come out; values outside are not explained by it.
    let mut explained = false;
    if let (Ok(rep), true) = (obs, feats.has_negation) {
        if let Some(alt) = single_pass_expectation(mode, rules, entries, sy) {
            explained = between(rep, &alt, expected);
        }
    }
    tags.push(if explained { "explained_by=single_pass_over_negated_rules_after_positive_fixpoint".into() } else { "explained_by=nothing".to_string() });
    out.fail(case_json(rules, entries, seed_ids, mode, sy), symptom, detail, tags);
}

// ---------------------------------------------------------------------------------------------
// run / replay

fn run(ctx: &Ctx) -> ShardOut {
    let mut out = ShardOut::default();
    let sy = symbols();
    let dec = Decoder::new(&sy);
    let (progs, excluded) = programs(&sy, ctx.thorough());
    if ctx.shard == 0 {
        out.count("programs", progs.len() as u64);
        out.count("pairs_excluded_more_than_one_stratum", excluded);
    }
    let uni = universe_sets(&sy);
    let mut idx: u64 = 0;
    'outer: for (pi, prog) in progs.iter().enumerate() {
        let feats = c05::features(&prog.rules);
        let groups = inputs(&sy, prog, ctx.thorough(), &uni);
        for (origin, group) in &groups {
          // one unit of the walk per group: the inputs of a group share one expectation
          idx += 1;
          if !ctx.mine(idx) {
              continue;
          }
          let exp = match expect(&prog.rules, &group[0].entries, &sy) {
              Ok(e) => e,
              Err(e) => {
                  out.machinery_errors.push(format!("reference rejected a generated case: {}", e));
                  continue;
              }
          };
          for input in group {
            let entries = &input.entries;
            if ctx.expired() {
                out.capped.push(format!("wall-clock cap: shard {} stopped at program {} of {}", ctx.shard, pi, progs.len()));
                break 'outer;
            }
            if exp.open {
                out.count("cases_not_judged_filter_on_non_numeric_binding", 1);
                continue;
            }
            out.evaluations += 1;
            out.count(&format!("cases_{}", prog.family), 1);
            out.count(&format!("inputs_{}", origin), 1);
            let seed_ids = input.seed_ids.as_deref();
            let modes: &[Mode] = if seed_ids.is_some() {
                &[Mode::SddSeeds]
            } else if input.exact_only {
                &EXACT_MODES
            } else {
                &MODES
            };
            if let Some(ids) = seed_ids {
                out.count("seed_spec_runs", 1);
                let mut sorted = ids.to_vec();
                sorted.sort();
                if sorted.as_slice() != ids {
                    out.count("seed_spec_runs_ids_not_in_list_order", 1);
                }
                if sorted.iter().enumerate().any(|(i, v)| *v != i as u32) {
                    out.count("seed_spec_runs_ids_with_gaps", 1);
                }
            } else if input.exact_only {
                out.count("inputs_run_in_exact_modes_only", 1);
            }
            if exp.boolean_keeping_p0.as_ref().map_or(false, |alt| *alt != exp.boolean) && seed_ids.is_none() && !input.exact_only {
                out.count("cases_where_the_two_boolean_readings_of_probability_0_differ", 1);
            }
            let mut ok = true;
            for m in modes.iter().copied() {
                out.count("mode_runs", 1);
                ok &= judge(&mut out, &prog.rules, entries, seed_ids, m, &exp, &feats, &sy, &dec);
            }
            if !ok {
                out.count("cases_with_a_failing_mode", 1);
            }
            if feats.has_negation && !feats.neg_conclusion_consumed {
                out.count("cases_negation_fully_judged_nothing_reads_the_negated_conclusion", 1);
                let (certain, uncertain) = split(entries);
                // vacuity of the negation families: does some negated atom actually block (or weaken) a derivation?
                let pos_only: Vec<Rule> = prog.rules.iter().map(|r| Rule { neg: vec![], ..r.clone() }).collect();
                if let Ok(w) = rd::worlds(&pos_only, &certain, &uncertain, &sy, NonNumeric::TypeError) {
                    if !close(&w, &exp.exact) {
                        out.count("cases_where_a_negated_atom_changes_a_probability", 1);
                        if feats.has_2plus_negated_atoms {
                            out.count("cases_where_a_negated_atom_changes_a_probability_rule_with_2plus_negated_atoms", 1);
                        }
                        if feats.has_filter_and_negation {
                            out.count("cases_where_a_negated_atom_changes_a_probability_rule_with_filter", 1);
                        }
                        if feats.has_ground_negated_atom {
                            out.count("cases_where_a_negated_atom_changes_a_probability_ground_negated_atom", 1);
                        }
                    }
                }
            }
            // vacuity
            let inputs_set: BTreeSet<Fact> = entries.iter().map(|e| e.0).collect();
            let nunc = entries.iter().filter(|e| e.1.is_some()).count();
            out.max("max_uncertain_facts", nunc as u64);
            let fractional: Vec<(&Fact, &f64)> = exp.exact.iter().filter(|(f, p)| !inputs_set.contains(*f) && **p > 1e-9 && **p < 1.0 - 1e-9).collect();
            if !fractional.is_empty() {
                out.count("cases_with_fractional_derived_probability", 1);
                let key: Vec<(Fact, u64)> = entries.iter().map(|e| (e.0, e.1.map_or(u64::MAX, |p| p.to_bits()))).collect();
                out.nontrivial(&(prog.rules.iter().map(|r| rd::rule_str(r, &sy)).collect::<Vec<_>>(), key));
            }
            let sig: Vec<(Fact, i64)> = exp.exact.iter().map(|(f, p)| (*f, (p * 1e9).round() as i64)).collect();
            out.outcome(&sig);
            if feats.recursive {
                out.count("cases_recursive_program", 1);
            }
            if let Some(mm) = &exp.minmax {
                if mm.iter().any(|(f, v)| (exp.exact.get(f).copied().unwrap_or(0.0) - v).abs() > 1e-9) {
                    out.count("cases_where_minmax_differs_from_exact", 1);
                }
            }
            let present: Vec<Fact> = entries.iter().filter(|e| e.1.map_or(true, |p| p > 0.0)).map(|e| e.0).collect();
            if rd::late_derivations(&prog.rules, &present, &sy, NonNumeric::TypeError).unwrap_or(0) > 0 {
                out.count("cases_with_late_second_proof", 1);
            }
            if inputs_set.iter().any(|f| {
                entries.iter().any(|e| e.0 == *f && e.1.map_or(false, |p| p > 0.0 && p < 1.0)) && exp.exact.get(f).map_or(false, |p| {
                    let own = entries.iter().find(|e| e.0 == *f).and_then(|e| e.1).unwrap_or(1.0);
                    *p > own + 1e-9
                })
            }) {
                out.count("cases_uncertain_input_also_derivable", 1);
            }
            if feats.has_negation {
                out.count("cases_program_with_negation", 1);
            }
            if !fractional.is_empty() && out.counters.get("cases_with_fractional_derived_probability").copied().unwrap_or(0) % 2999 == 7 {
                out.sample(json!({"rules": prog.rules.iter().map(|r| rd::rule_str(r, &sy)).collect::<Vec<_>>(), "entries": entries_json(entries, &sy),
                    "exact": exp.exact.iter().map(|(f, p)| json!([sy.fact_str(f), p])).collect::<Vec<_>>()}));
            }
          }
        }
    }
    out
}

fn replay(_ctx: &Ctx, case: &Value) -> ShardOut {
    let mut out = ShardOut::default();
    let sy = symbols();
    let dec = Decoder::new(&sy);
    let rules: Result<Vec<Rule>, String> = case["rules"].as_array().map(|a| a.iter().filter_map(|v| v.as_str()).map(|t| rd::parse_rule(t, &sy)).collect()).unwrap_or(Ok(vec![]));
    let entries: Result<Vec<Entry>, String> = case["entries"]
        .as_array()
        .map(|a| a.iter().map(|e| rd::parse_fact(e[0].as_str().unwrap_or(""), &sy).map(|f| (f, e[1].as_f64()))).collect())
        .unwrap_or(Ok(vec![]));
    let (rules, entries) = match (rules, entries) {
        (Ok(r), Ok(e)) => (r, e),
        (r, e) => {
            out.machinery_errors.push(format!("cannot parse replay case: {:?} {:?}", r.err(), e.err()));
            return out;
        }
    };
    let seed_ids: Option<Vec<u32>> = case["seed_ids"].as_array().map(|a| a.iter().filter_map(|v| v.as_u64().map(|x| x as u32)).collect());
    let modes: Vec<Mode> = match case["mode"].as_str().and_then(|n| ALL_MODE_NAMES.iter().copied().find(|m| m.name() == n)) {
        Some(m) => vec![m],
        None => MODES.to_vec(),
    };
    if modes.contains(&Mode::SddSeeds) && seed_ids.as_ref().map_or(true, |ids| ids.len() != entries.iter().filter(|e| e.1.is_some()).count()) {
        out.machinery_errors.push("replay case of the seed-spec entry point without one seed id per uncertain entry".to_string());
        return out;
    }
    let seed_ids = seed_ids.as_deref();
    let exp = match expect(&rules, &entries, &sy) {
        Ok(e) => e,
        Err(e) => {
            out.machinery_errors.push(format!("reference rejects the case: {}", e));
            return out;
        }
    };
    out.evaluations += 1;
    if exp.open {
        out.count("cases_not_judged_filter_on_non_numeric_binding", 1);
        return out;
    }
    let feats = c05::features(&rules);
    for m in modes {
        let expected = match expected_for(m, &exp) {
            Some(e) => e,
            None => {
                out.count("runs_not_judged_minmax_with_negation", 1);
                continue;
            }
        };
        // the subject's result may depend on the store's (random) iteration order: 8 executions; the
        // first failing one is reported
        let ids = if m == Mode::SddSeeds { seed_ids } else { None };
        let obs: Vec<Observation> = (0..8).map(|_| run_mode(m, &rules, &entries, ids, &sy, &dec)).collect();
        let varies = obs.iter().any(|o| !same_obs(o, &obs[0]));
        for o in &obs {
            if problem_of(o, &expected, &sy).is_some() {
                if agrees_with_other_boolean_reading(m, o, &exp, &sy) {
                    out.count("boolean_runs_agreeing_with_the_reading_that_keeps_probability_0_inputs", 1);
                    continue;
                }
                report(&mut out, &rules, &entries, ids, m, o, &expected, varies, &feats, &sy);
                break;
            }
        }
    }
    out
}
