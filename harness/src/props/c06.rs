//! C06 — probabilities attached to derived facts equal their possible-worlds probability.
//! E-in: (program, tagged fact list, probability assignment, insertion order) cases, each run through
//! infer_new_facts_with_provenance in the four modes and compared with R-worlds / (max,min) / derivability.
use crate::infra::{guarded, Ctx, PropDef, ShardOut};
use crate::props::c05::{self, Decoder, Features, Toggle};
use crate::reference::datalog::{self as rd, Fact, MaxMinSr, NonNumeric, Rule, Symbols};
use datalog::reasoning::Reasoner;
use serde_json::{json, Value};
use shared::provenance::{BooleanProvenance, DnfWmcProvenance, MinMaxProbability, Provenance};
use shared::sdd::SddProvenance;
use std::collections::{BTreeMap, BTreeSet};

pub const DEF: PropDef = PropDef {
    id: "C06",
    level: "exploration",
    rule: "case = (program, ordered list of certain/tagged facts, mode). Programs: the 40 single rules of the C05 core, every ordered pair of a 14-rule probabilistic sub-core (thorough: of the whole core) that one stratum of negation can evaluate, and 8 three/four-rule programs of the late-improvement family (a second proof of an already consumed fact arrives one round later), mutual recursion and negation over derived facts. Inputs: 18 fact sets of <=4 facts (chains, cycles, shortcut+tail, diamond, shared evidence, an input that is also derivable, numerics) with EVERY assignment of {certain,0,0.3,0.5,1} to their facts (pairs in the quick tier: of {0,0.3,0.5,1}), and in every insertion order (<=3 facts) / 6 orders (4 facts) with a fixed all-uncertain assignment; plus larger graphs with 6..8 (thorough: ..12) uncertain facts with a fixed spread of distinct probabilities in 2 orders. Modes: DnfWmcProvenance, SddProvenance (oracle: R-worlds over all 2^n subsets, 1e-9), MinMaxProbability (oracle: (max,min) least fixpoint; not judged for programs with negation), BooleanProvenance (oracle: stratified model of the facts with p>0). Non-trivial = some fact not among the inputs has exact probability strictly between 0 and 1; distinct = distinct (program, fact list with probabilities).",
    assumptions: &[
        "R-worlds = sum over all subsets of the uncertain facts of the world weight x [fact in the least (stratified) model of the world] (harness/src/reference/datalog.rs)",
        "reported probability of a fact = Provenance::recover_probability(TagStore::get_tag(fact)) for every fact in the store after inference; a fact with positive exact probability that is absent from the store is a failure, a fact in the store with reported probability 0 and exact probability 0 is not",
        "min-max with negation is not fixed by the statement (no reading of NOT in 'best derivation's weakest input'): not judged",
        "cases where a numeric filter meets a non-numeric binding and the two readings differ in some world are not judged",
        "every fact is inserted once (no triple both certain and tagged, no duplicate tagged triple)",
        "the store hands facts out in HashMap order (random per process): a wrong probability that changes from run to run is still a failure (tag result_varies_between_runs), a replay executes the case 8 times",
        "failure tag explained_by=single_pass_over_negated_rules_after_positive_fixpoint: every reported value lies between the value R-worlds gives when each world is evaluated with one pass over the negated rules and the exact value",
    ],
    run,
    replay,
    cap_s: (50, 840),
    shards: 0,
};

pub fn symbols() -> Symbols {
    Symbols::new(&["a", "b", "c", "d", "e", "f", "g", "1", "20", "p", "q", "r", "s", "t"])
}

#[derive(Clone, Copy, PartialEq, Eq, Debug, Hash, PartialOrd, Ord)]
pub enum Mode {
    Dnf,
    Sdd,
    MinMax,
    Bool,
}
pub const MODES: [Mode; 4] = [Mode::Dnf, Mode::Sdd, Mode::MinMax, Mode::Bool];
impl Mode {
    pub fn name(&self) -> &'static str {
        match self {
            Mode::Dnf => "dnf_wmc",
            Mode::Sdd => "sdd",
            Mode::MinMax => "minmax",
            Mode::Bool => "boolean",
        }
    }
}

/// a fact with its probability (None = certain, inserted with add_abox_triple)
pub type Entry = (Fact, Option<f64>);

const SUBCORE: [&str; 14] = [
    "q(?x,?y) :- p(?x,?y)",
    "p(?x,?y) :- q(?x,?y)",
    "q(?y,?x) :- p(?x,?y)",
    "p(?y,?x) :- p(?x,?y)",
    "p(?x,?z) :- p(?x,?y), p(?y,?z)",
    "q(?x,?z) :- q(?x,?y), p(?y,?z)",
    "q(?x,?z) :- p(?x,?y), p(?y,?z)",
    "r(?x,?z) :- p(?x,?y), q(?y,?z)",
    "r(?x,?y) :- ?w(?x,?y)",
    "r(?x,?x) :- p(?x,?y)",
    "q(?x,?y), r(?y,?x) :- p(?x,?y)",
    "q(?x,?y) :- p(?x,?y), not p(?y,?x)",
    "r(?x,?y) :- p(?x,?y), not q(?x,?y)",
    "q(?x,?y) :- p(?x,?z), p(?y,?z), ?x != ?y",
];

const FAMILIES: [&[&str]; 8] = [
    // transitive closure + a consumer of it: over a shortcut graph t(a,c) is improved one round after t(a,d) consumed it
    &["t(?x,?y) :- p(?x,?y)", "t(?x,?z) :- t(?x,?y), p(?y,?z)", "s(?x,?x) :- t(?x,?y)"],
    // second proof of q(a,c) arrives one round after s(a,a) was first derived from q(a,c)
    &["t(?x,?y) :- p(?x,?y)", "q(?x,?z) :- t(?x,?y), p(?y,?z)", "q(?x,?y) :- r(?x,?y)", "s(?x,?x) :- q(?x,?y)"],
    &["q(?x,?z) :- p(?x,?y), p(?y,?z)", "q(?x,?y) :- r(?x,?y)", "s(?x,?x) :- q(?x,?y)"],
    // negation of an input over a derived closure
    &["t(?x,?y) :- p(?x,?y)", "t(?x,?z) :- t(?x,?y), t(?y,?z)", "s(?y,?x) :- t(?x,?y), not p(?x,?y)"],
    // mutual recursion
    &["q(?x,?y) :- p(?x,?y)", "p(?y,?x) :- q(?x,?y)", "r(?x,?z) :- p(?x,?y), q(?y,?z)"],
    // right-linear closure and a two-premise consumer
    &["t(?x,?y) :- p(?x,?y)", "t(?x,?z) :- p(?x,?y), t(?y,?z)", "s(?x,?y) :- t(?x,?y), t(?y,?x)"],
    // negation of a derived, recursive predicate
    &["t(?x,?y) :- p(?x,?y)", "t(?x,?z) :- t(?x,?y), p(?y,?z)", "s(?x,?y) :- p(?x,?y), not t(?y,?x)"],
    // two-hop and closure feeding each other through q
    &["q(?x,?z) :- p(?x,?y), p(?y,?z)", "p(?x,?y) :- q(?x,?y)", "s(?x,?x) :- p(?x,?y)"],
];

const SMALL_SETS: [&[&str]; 18] = [
    &["p(a,b)"],
    &["p(a,b)", "p(b,c)"],
    &["p(a,b)", "p(b,a)"],
    &["p(a,b)", "q(a,b)"],
    &["p(a,b)", "q(b,c)"],
    &["p(a,b)", "p(b,c)", "p(a,c)"],
    &["p(a,b)", "p(b,c)", "p(c,a)"],
    &["p(a,b)", "p(b,c)", "q(a,c)"],
    &["p(a,b)", "p(b,c)", "r(a,c)"],
    &["p(a,b)", "p(b,c)", "p(b,d)"],
    &["p(a,b)", "p(b,a)", "q(a,b)"],
    &["p(a,a)", "p(a,b)", "q(b,a)"],
    &["p(a,1)", "p(a,20)", "p(b,20)"],
    &["p(a,b)", "p(b,c)", "p(c,d)", "p(a,c)"],
    &["p(a,b)", "p(a,c)", "p(b,d)", "p(c,d)"],
    &["p(a,b)", "p(b,c)", "p(c,d)", "r(a,c)"],
    &["p(a,b)", "p(b,a)", "p(b,c)", "q(c,a)"],
    &["p(a,b)", "q(b,c)", "r(c,a)", "p(c,a)"],
];

/// (facts, how many of them are certain — taken from the end of the list)
const LARGE_SETS: [(&[&str], usize); 10] = [
    (&["p(a,b)", "p(b,c)", "p(c,d)", "p(d,e)", "p(a,c)", "p(c,e)"], 0),
    (&["p(a,b)", "p(b,a)", "p(b,c)", "p(c,b)", "p(c,a)", "p(a,c)"], 0),
    (&["p(a,b)", "p(b,c)", "q(a,b)", "q(b,c)", "r(a,c)", "p(c,a)", "q(c,d)"], 1),
    (&["p(a,b)", "p(a,c)", "p(b,d)", "p(c,d)", "p(d,e)", "p(d,f)", "p(e,g)", "p(f,g)"], 0),
    (&["p(a,b)", "p(b,c)", "p(c,d)", "p(d,a)", "p(a,c)", "p(b,d)", "q(a,b)", "q(c,d)", "r(a,d)"], 1),
    (&["p(a,b)", "p(b,c)", "p(c,d)", "p(d,a)", "p(a,c)", "p(b,d)", "q(a,b)", "q(b,c)", "q(c,d)", "q(d,a)"], 0),
    (&["p(a,b)", "p(b,c)", "p(c,d)", "p(d,e)", "p(e,f)", "p(f,g)", "p(a,c)", "p(b,d)", "p(c,e)", "p(d,f)", "p(e,g)", "p(a,g)"], 0),
    (&["p(a,b)", "p(a,c)", "p(a,d)", "p(b,a)", "p(b,c)", "p(b,d)", "p(c,a)", "p(c,b)", "p(c,d)", "p(d,a)", "p(d,b)", "p(d,c)"], 0),
    (&["p(a,b)", "p(b,c)", "p(c,a)", "q(a,b)", "q(b,c)", "q(c,a)", "r(a,b)", "r(b,c)", "r(c,a)", "p(a,a)", "q(b,b)", "r(c,c)"], 0),
    (&["p(a,1)", "p(a,20)", "p(b,1)", "p(b,20)", "q(a,1)", "q(b,20)", "p(a,b)", "p(b,a)"], 2),
];
const SPREAD: [f64; 12] = [0.9, 0.2, 0.7, 0.4, 0.5, 0.6, 0.3, 0.8, 0.1, 0.95, 0.35, 0.65];

pub struct Prog {
    pub rules: Vec<Rule>,
    pub family: &'static str,
}

fn programs(sy: &Symbols, thorough: bool) -> (Vec<Prog>, u64) {
    let parse = |t: &str| rd::parse_rule(t, sy).unwrap_or_else(|e| panic!("{}: {}", t, e));
    let mut v = Vec::new();
    let core: Vec<Rule> = c05::CORE.iter().map(|t| parse(t)).collect();
    for r in &core {
        v.push(Prog { rules: vec![r.clone()], family: "single" });
    }
    let pool: Vec<Rule> = if thorough { core.clone() } else { SUBCORE.iter().map(|t| parse(t)).collect() };
    let mut excluded = 0;
    for a in &pool {
        for b in &pool {
            let rules = vec![a.clone(), b.clone()];
            if rd::stratify(&rules).is_err() {
                excluded += 1;
                continue;
            }
            v.push(Prog { rules, family: "pair" });
        }
    }
    for f in FAMILIES {
        let rules: Vec<Rule> = f.iter().map(|t| parse(t)).collect();
        rd::stratify(&rules).expect("family program must be stratifiable");
        v.push(Prog { rules, family: "family" });
    }
    (v, excluded)
}

fn permutations<TT: Clone>(v: &[TT]) -> Vec<Vec<TT>> {
    if v.len() <= 1 {
        return vec![v.to_vec()];
    }
    let mut out = Vec::new();
    for i in 0..v.len() {
        let mut rest = v.to_vec();
        let x = rest.remove(i);
        for mut p in permutations(&rest) {
            p.insert(0, x.clone());
            out.push(p);
        }
    }
    out
}

/// the input lists of one program
fn inputs(sy: &Symbols, prog: &Prog, thorough: bool) -> Vec<Vec<Entry>> {
    let mut out: Vec<Vec<Entry>> = Vec::new();
    let choices: [Option<f64>; 5] = [None, Some(0.0), Some(0.3), Some(0.5), Some(1.0)];
    let positive = prog.rules.iter().all(|r| r.neg.is_empty());
    for set in SMALL_SETS {
        let facts: Vec<Fact> = set.iter().map(|t| rd::parse_fact(t, sy).unwrap()).collect();
        // a positive program that derives nothing from all the facts derives nothing in any world
        if positive {
            if let Ok(m) = rd::model_set(&prog.rules, &facts, sy, NonNumeric::Zero) {
                if m.len() == facts.len() {
                    continue;
                }
            }
        }
        let k = facts.len();
        // pairs in the quick tier: every assignment of {0,0.3,0.5,1}; everything else also "certain"
        let first = if prog.family == "pair" && !thorough { 1 } else { 0 };
        let mut digits = vec![first; k];
        loop {
            out.push(facts.iter().zip(digits.iter()).map(|(f, d)| (*f, choices[*d])).collect());
            let mut i = 0;
            while i < k {
                digits[i] += 1;
                if digits[i] < 5 {
                    break;
                }
                digits[i] = first;
                i += 1;
            }
            if i == k {
                break;
            }
        }
        // insertion orders (seed numbering): fixed all-uncertain assignment
        let fixed: Vec<Entry> = facts.iter().enumerate().map(|(i, f)| (*f, Some([0.3, 0.5, 0.5, 0.3][i % 4]))).collect();
        let mut perms = permutations(&fixed);
        if k == 4 {
            perms = perms.into_iter().step_by(4).collect();
        }
        for p in perms.into_iter().skip(1) {
            out.push(p);
        }
    }
    for (set, ncertain) in LARGE_SETS {
        let facts: Vec<Fact> = set.iter().map(|t| rd::parse_fact(t, sy).unwrap()).collect();
        let nunc = facts.len() - ncertain;
        if nunc > 8 && !thorough {
            continue;
        }
        if nunc > 8 && prog.family == "pair" {
            // 2^n worlds x fixpoint per case: the big graphs run on singles and families only
            continue;
        }
        if positive {
            if let Ok(m) = rd::model_set(&prog.rules, &facts, sy, NonNumeric::Zero) {
                if m.len() == facts.len() {
                    continue;
                }
            }
        }
        let list: Vec<Entry> = facts.iter().enumerate().map(|(i, f)| (*f, if i < nunc { Some(SPREAD[i % 12]) } else { None })).collect();
        out.push(list.clone());
        let mut rev = list;
        rev.reverse();
        out.push(rev);
    }
    out
}

// ---------------------------------------------------------------------------------------------
// the subject

fn build(rules: &[Rule], entries: &[Entry], sy: &Symbols) -> Reasoner {
    let mut r = Reasoner::new();
    for rule in rules {
        let dict = r.dictionary.clone();
        let mut enc = |s: &str| dict.write().unwrap().encode(s);
        let kr = c05::to_krule(rule, sy, &mut enc);
        r.add_rule(kr);
    }
    for (f, p) in entries {
        match p {
            None => r.add_abox_triple(sy.name(f[0]), sy.name(f[1]), sy.name(f[2])),
            Some(p) => r.add_tagged_triple(sy.name(f[0]), sy.name(f[1]), sy.name(f[2]), *p),
        }
    }
    r
}

/// reported probability of every fact in the store after inference
fn run_with<P: Provenance>(prov: P, rules: &[Rule], entries: &[Entry], sy: &Symbols, dec: &Decoder) -> Result<BTreeMap<Fact, f64>, String> {
    guarded(|| {
        let mut r = build(rules, entries, sy);
        let (_derived, tags) = r.infer_new_facts_with_provenance(prov);
        let mut out = BTreeMap::new();
        for t in r.dataset_index.query(None, None, None) {
            let p = tags.provenance().recover_probability(&tags.get_tag(&t));
            out.insert(dec.fact(&r, &t), p);
        }
        out
    })
}

pub fn run_mode(mode: Mode, rules: &[Rule], entries: &[Entry], sy: &Symbols, dec: &Decoder) -> Result<BTreeMap<Fact, f64>, String> {
    match mode {
        Mode::Dnf => run_with(DnfWmcProvenance::new(), rules, entries, sy, dec),
        Mode::Sdd => run_with(SddProvenance::new(), rules, entries, sy, dec),
        Mode::MinMax => run_with(MinMaxProbability, rules, entries, sy, dec),
        Mode::Bool => run_with(BooleanProvenance, rules, entries, sy, dec),
    }
}

// ---------------------------------------------------------------------------------------------
// oracle

pub struct Expect {
    pub exact: BTreeMap<Fact, f64>,
    pub minmax: Option<BTreeMap<Fact, f64>>,
    pub boolean: BTreeSet<Fact>,
    pub open: bool,
}

fn split(entries: &[Entry]) -> (Vec<Fact>, Vec<(Fact, f64)>) {
    let certain = entries.iter().filter(|e| e.1.is_none()).map(|e| e.0).collect();
    let uncertain = entries.iter().filter_map(|e| e.1.map(|p| (e.0, p))).collect();
    (certain, uncertain)
}

fn close(a: &BTreeMap<Fact, f64>, b: &BTreeMap<Fact, f64>) -> bool {
    let keys: BTreeSet<&Fact> = a.keys().chain(b.keys()).collect();
    keys.iter().all(|k| (a.get(*k).copied().unwrap_or(0.0) - b.get(*k).copied().unwrap_or(0.0)).abs() <= 1e-12)
}

pub fn expect(rules: &[Rule], entries: &[Entry], sy: &Symbols) -> Result<Expect, String> {
    let (certain, uncertain) = split(entries);
    let exact = rd::worlds(rules, &certain, &uncertain, sy, NonNumeric::TypeError)?;
    let mut open = false;
    if rules.iter().any(|r| r.filters.iter().any(|f| matches!(f.rhs, rd::Rhs::Num(_)))) {
        let other = rd::worlds(rules, &certain, &uncertain, sy, NonNumeric::Zero)?;
        open = !close(&exact, &other);
    }
    let has_neg = rules.iter().any(|r| !r.neg.is_empty());
    let minmax = if has_neg {
        None
    } else {
        let input: Vec<(Fact, f64)> = entries.iter().map(|e| (e.0, e.1.unwrap_or(1.0))).collect();
        Some(rd::eval(&MaxMinSr, rules, &input, sy, NonNumeric::TypeError)?.into_iter().map(|(f, (v, _))| (f, v)).collect())
    };
    let present: Vec<Fact> = entries.iter().filter(|e| e.1.map_or(true, |p| p > 0.0)).map(|e| e.0).collect();
    let boolean = rd::model_set(rules, &present, sy, NonNumeric::TypeError)?;
    Ok(Expect { exact, minmax, boolean, open })
}

fn entries_json(entries: &[Entry], sy: &Symbols) -> Value {
    Value::Array(entries.iter().map(|(f, p)| json!([sy.fact_str(f), p])).collect())
}

pub fn case_json(rules: &[Rule], entries: &[Entry], mode: Mode, sy: &Symbols) -> Value {
    json!({
        "rules": rules.iter().map(|r| rd::rule_str(r, sy)).collect::<Vec<_>>(),
        "entries": entries_json(entries, sy),
        "mode": mode.name(),
    })
}

fn fstr(f: &Fact, sy: &Symbols) -> String {
    if f.iter().any(|s| *s == c05::FOREIGN) {
        format!("<foreign term {:?}>", f)
    } else {
        sy.fact_str(f)
    }
}

/// every fact whose reported probability differs from the expected one (a fact that is not in the
/// store reports nothing: that is a difference iff its expected probability is positive)
fn compare(reported: &BTreeMap<Fact, f64>, expected: &BTreeMap<Fact, f64>, sy: &Symbols) -> Vec<String> {
    let mut diffs = Vec::new();
    for (f, rep) in reported {
        let exp = expected.get(f).copied().unwrap_or(0.0);
        if !((rep - exp).abs() <= 1e-9) {
            diffs.push(format!("{}: reported {} expected {}", fstr(f, sy), rep, exp));
        }
    }
    for (f, exp) in expected {
        if *exp > 1e-12 && !reported.contains_key(f) {
            diffs.push(format!("{}: expected {} but the fact is not in the store", fstr(f, sy), exp));
        }
    }
    diffs
}

/// lo(f) - 1e-9 <= reported(f) <= hi(f) + 1e-9 for every fact (absent = 0)
fn between(reported: &BTreeMap<Fact, f64>, lo: &BTreeMap<Fact, f64>, hi: &BTreeMap<Fact, f64>) -> bool {
    let keys: BTreeSet<&Fact> = reported.keys().chain(lo.keys()).chain(hi.keys()).collect();
    keys.iter().all(|k| {
        let r = reported.get(*k).copied().unwrap_or(0.0);
        let l = lo.get(*k).copied().unwrap_or(0.0);
        let h = hi.get(*k).copied().unwrap_or(0.0);
        r.is_finite() && l - 1e-9 <= r && r <= h + 1e-9
    })
}

fn expected_for(mode: Mode, exp: &Expect) -> Option<BTreeMap<Fact, f64>> {
    match mode {
        Mode::Dnf | Mode::Sdd => Some(exp.exact.clone()),
        Mode::MinMax => exp.minmax.clone(),
        Mode::Bool => Some(exp.boolean.iter().map(|f| (*f, 1.0)).collect()),
    }
}

/// the oracle of `mode` when every world is evaluated with a single pass over the negated rules
/// after the positive fixpoint (diagnosis only)
fn single_pass_expectation(mode: Mode, rules: &[Rule], entries: &[Entry], sy: &Symbols) -> Option<BTreeMap<Fact, f64>> {
    let (certain, uncertain) = split(entries);
    let model_of = |facts: &[Fact]| c05::emulate(rules, facts, &[Toggle::SingleNegPass], sy, NonNumeric::TypeError).ok_or_else(|| "no emulation".to_string());
    match mode {
        Mode::Dnf | Mode::Sdd => rd::worlds_with(&certain, &uncertain, &model_of).ok(),
        Mode::Bool => {
            let present: Vec<Fact> = entries.iter().filter(|e| e.1.map_or(true, |p| p > 0.0)).map(|e| e.0).collect();
            model_of(&present).ok().map(|m| m.into_iter().map(|f| (f, 1.0)).collect())
        }
        Mode::MinMax => None,
    }
}

fn judge(out: &mut ShardOut, rules: &[Rule], entries: &[Entry], mode: Mode, exp: &Expect, feats: &Features, sy: &Symbols, dec: &Decoder) -> bool {
    let expected = match expected_for(mode, exp) {
        Some(e) => e,
        None => {
            out.count("runs_not_judged_minmax_with_negation", 1);
            return true;
        }
    };
    let obs = run_mode(mode, rules, entries, sy, dec);
    if problem_of(&obs, &expected, sy).is_none() {
        return true;
    }
    // Re-execute. The harness side is a pure function of the case; the subject iterates hash maps
    // with a per-process random state, so its result may legitimately depend on the run. A failing
    // observation is a failure of the property whether or not the next run repeats it; the variation
    // is recorded as a tag (never as part of a known finding's scope).
    let again = run_mode(mode, rules, entries, sy, dec);
    let varies = !same_obs(&obs, &again);
    if varies {
        out.count("failing_runs_whose_result_varies_between_runs", 1);
    }
    report(out, rules, entries, mode, &obs, &expected, varies, feats, sy);
    false
}

type Observation = Result<BTreeMap<Fact, f64>, String>;

fn same_obs(a: &Observation, b: &Observation) -> bool {
    match (a, b) {
        (Ok(a), Ok(b)) => close(a, b) && a.len() == b.len(),
        (Err(a), Err(b)) => a == b,
        _ => false,
    }
}

fn problem_of(o: &Observation, expected: &BTreeMap<Fact, f64>, sy: &Symbols) -> Option<(&'static str, String)> {
    match o {
        Err(msg) => Some(("panic", msg.clone())),
        Ok(rep) => {
            let d = compare(rep, expected, sy);
            if d.is_empty() {
                None
            } else {
                Some(("reported_probability_differs_from_possible_worlds", d.join("; ")))
            }
        }
    }
}

#[allow(clippy::too_many_arguments)]
fn report(out: &mut ShardOut, rules: &[Rule], entries: &[Entry], mode: Mode, obs: &Observation, expected: &BTreeMap<Fact, f64>, varies: bool, feats: &Features, sy: &Symbols) {
    let (symptom, detail) = match problem_of(obs, expected, sy) {
        Some(p) => p,
        None => return,
    };
    let mut tags = vec![format!("mode={}", mode.name()), format!("rules={}", rules.len())];
    if varies {
        tags.push("result_varies_between_runs".into());
    }
    let mut add = |b: bool, s: &str| {
        if b {
            tags.push(s.to_string())
        }
    };
    add(feats.has_negation, "program_has_negated_atom");
    add(feats.neg_conclusion_consumed, "program_reads_conclusion_of_negated_rule");
    add(feats.recursive, "program_recursive");
    add(feats.has_filter, "program_has_filter");
    add(feats.has_varpred_premise, "program_has_variable_predicate_premise");
    add(feats.has_3plus, "program_has_rule_with_3plus_premises");
    add(entries.iter().any(|e| e.1.is_none()), "input_has_certain_facts");
    // scope: every reported value lies between what one pass over the negated rules (after the positive
    // fixpoint) gives and the complete value. The pass reads tags while it improves them, in store
    // iteration order, so any value in between can come out; values outside are not explained by it.
    let mut explained = false;
    if let (Ok(rep), true) = (obs, feats.has_negation) {
        if let Some(alt) = single_pass_expectation(mode, rules, entries, sy) {
            explained = between(rep, &alt, expected);
        }
    }
    tags.push(if explained { "explained_by=single_pass_over_negated_rules_after_positive_fixpoint".into() } else { "explained_by=nothing".to_string() });
    out.fail(case_json(rules, entries, mode, sy), symptom, detail, tags);
}

// ---------------------------------------------------------------------------------------------
// run / replay

fn run(ctx: &Ctx) -> ShardOut {
    let mut out = ShardOut::default();
    let sy = symbols();
    let dec = Decoder::new(&sy);
    let (progs, excluded) = programs(&sy, ctx.thorough());
    if ctx.shard == 0 {
        out.count("programs", progs.len() as u64);
        out.count("pairs_excluded_more_than_one_stratum", excluded);
    }
    let mut idx: u64 = 0;
    'outer: for (pi, prog) in progs.iter().enumerate() {
        let feats = c05::features(&prog.rules);
        let lists = inputs(&sy, prog, ctx.thorough());
        for entries in &lists {
            idx += 1;
            if !ctx.mine(idx) {
                continue;
            }
            if ctx.expired() {
                out.capped.push(format!("wall-clock cap: shard {} stopped at program {} of {}", ctx.shard, pi, progs.len()));
                break 'outer;
            }
            let exp = match expect(&prog.rules, entries, &sy) {
                Ok(e) => e,
                Err(e) => {
                    out.machinery_errors.push(format!("reference rejected a generated case: {}", e));
                    continue;
                }
            };
            if exp.open {
                out.count("cases_not_judged_filter_on_non_numeric_binding", 1);
                continue;
            }
            out.evaluations += 1;
            out.count(&format!("cases_{}", prog.family), 1);
            let mut ok = true;
            for m in MODES {
                out.count("mode_runs", 1);
                ok &= judge(&mut out, &prog.rules, entries, m, &exp, &feats, &sy, &dec);
            }
            if !ok {
                out.count("cases_with_a_failing_mode", 1);
            }
            // vacuity
            let inputs_set: BTreeSet<Fact> = entries.iter().map(|e| e.0).collect();
            let nunc = entries.iter().filter(|e| e.1.is_some()).count();
            out.max("max_uncertain_facts", nunc as u64);
            let fractional: Vec<(&Fact, &f64)> = exp.exact.iter().filter(|(f, p)| !inputs_set.contains(*f) && **p > 1e-9 && **p < 1.0 - 1e-9).collect();
            if !fractional.is_empty() {
                out.count("cases_with_fractional_derived_probability", 1);
                let key: Vec<(Fact, u64)> = entries.iter().map(|e| (e.0, e.1.map_or(u64::MAX, |p| p.to_bits()))).collect();
                out.nontrivial(&(prog.rules.iter().map(|r| rd::rule_str(r, &sy)).collect::<Vec<_>>(), key));
            }
            let sig: Vec<(Fact, i64)> = exp.exact.iter().map(|(f, p)| (*f, (p * 1e9).round() as i64)).collect();
            out.outcome(&sig);
            if feats.recursive {
                out.count("cases_recursive_program", 1);
            }
            if let Some(mm) = &exp.minmax {
                if mm.iter().any(|(f, v)| (exp.exact.get(f).copied().unwrap_or(0.0) - v).abs() > 1e-9) {
                    out.count("cases_where_minmax_differs_from_exact", 1);
                }
            }
            let present: Vec<Fact> = entries.iter().filter(|e| e.1.map_or(true, |p| p > 0.0)).map(|e| e.0).collect();
            if rd::late_derivations(&prog.rules, &present, &sy, NonNumeric::TypeError).unwrap_or(0) > 0 {
                out.count("cases_with_late_second_proof", 1);
            }
            if inputs_set.iter().any(|f| {
                entries.iter().any(|e| e.0 == *f && e.1.map_or(false, |p| p > 0.0 && p < 1.0)) && exp.exact.get(f).map_or(false, |p| {
                    let own = entries.iter().find(|e| e.0 == *f).and_then(|e| e.1).unwrap_or(1.0);
                    *p > own + 1e-9
                })
            }) {
                out.count("cases_uncertain_input_also_derivable", 1);
            }
            if feats.has_negation {
                out.count("cases_program_with_negation", 1);
            }
            if !fractional.is_empty() && out.counters.get("cases_with_fractional_derived_probability").copied().unwrap_or(0) % 2999 == 7 {
                out.sample(json!({"rules": prog.rules.iter().map(|r| rd::rule_str(r, &sy)).collect::<Vec<_>>(), "entries": entries_json(entries, &sy),
                    "exact": exp.exact.iter().map(|(f, p)| json!([sy.fact_str(f), p])).collect::<Vec<_>>()}));
            }
        }
    }
    out
}

fn replay(_ctx: &Ctx, case: &Value) -> ShardOut {
    let mut out = ShardOut::default();
    let sy = symbols();
    let dec = Decoder::new(&sy);
    let rules: Result<Vec<Rule>, String> = case["rules"].as_array().map(|a| a.iter().filter_map(|v| v.as_str()).map(|t| rd::parse_rule(t, &sy)).collect()).unwrap_or(Ok(vec![]));
    let entries: Result<Vec<Entry>, String> = case["entries"]
        .as_array()
        .map(|a| a.iter().map(|e| rd::parse_fact(e[0].as_str().unwrap_or(""), &sy).map(|f| (f, e[1].as_f64()))).collect())
        .unwrap_or(Ok(vec![]));
    let (rules, entries) = match (rules, entries) {
        (Ok(r), Ok(e)) => (r, e),
        (r, e) => {
            out.machinery_errors.push(format!("cannot parse replay case: {:?} {:?}", r.err(), e.err()));
            return out;
        }
    };
    let modes: Vec<Mode> = match case["mode"].as_str().and_then(|n| MODES.iter().copied().find(|m| m.name() == n)) {
        Some(m) => vec![m],
        None => MODES.to_vec(),
    };
    let exp = match expect(&rules, &entries, &sy) {
        Ok(e) => e,
        Err(e) => {
            out.machinery_errors.push(format!("reference rejects the case: {}", e));
            return out;
        }
    };
    out.evaluations += 1;
    if exp.open {
        out.count("cases_not_judged_filter_on_non_numeric_binding", 1);
        return out;
    }
    let feats = c05::features(&rules);
    for m in modes {
        let expected = match expected_for(m, &exp) {
            Some(e) => e,
            None => {
                out.count("runs_not_judged_minmax_with_negation", 1);
                continue;
            }
        };
        // the subject's result may depend on the store's (random) iteration order: 8 executions; the
        // first failing one is reported
        let obs: Vec<Observation> = (0..8).map(|_| run_mode(m, &rules, &entries, &sy, &dec)).collect();
        let varies = obs.iter().any(|o| !same_obs(o, &obs[0]));
        for o in &obs {
            if problem_of(o, &expected, &sy).is_some() {
                report(&mut out, &rules, &entries, m, o, &expected, varies, &feats, &sy);
                break;
            }
        }
    }
    out
}
