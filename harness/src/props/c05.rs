//! C05 — rule materialisation computes exactly the least (stratified) model, for every strategy.
//! E-in: bounded-exhaustive enumeration of (program, fact list) cases; every case is run through the
//! four real strategies (twice each) and compared with R-datalog.
use crate::infra::{guarded, Ctx, PropDef, ShardOut};
use crate::reference::datalog::{self as rd, Atom, FOp, Fact, Filter, NonNumeric, Rhs, Rule, Sym, Symbols, T};
use datalog::reasoning::Reasoner;
use serde_json::{json, Value};
use shared::provenance::BooleanProvenance;
use shared::rule::{FilterCondition, Rule as KRule};
use shared::terms::Term;
use shared::triple::Triple;
use std::collections::{BTreeMap, BTreeSet, HashMap};

pub const DEF: PropDef = PropDef {
    id: "C05",
    level: "exploration",
    rule: "case = (program, ordered fact list, layout). Programs: every canonical single rule of the template grammar (families A: 1 premise x head menu; B: every canonical 2-premise body over S{x,y,z,a,w} P{p,q,w,y} O{x,y,z,a,w} (thorough: every first atom x every atom over S/O{x,y,z,w,a,b} P{p,q,x,y,z,w}) with all-variables-exposing conclusions; B': head menu incl. recursive heads on representative 2-premise bodies; C: 3-premise bodies; G: 8 four-premise bodies (chains, star, 4-cycle, variable predicate, constant join node, repeated atom) with exposing and recursive heads; D: numeric/term filters, also on a variable bound in a subject position; E: one safe negated atom; F: shapes of the negated part beyond one atom - a numeric or =/!= filter next to a negated atom, two and three negated atoms, a fully ground negated atom, three premises with negation, conclusions on a predicate the rule does not read) and every ordered pair of the 40-rule core that one stratum of negation can evaluate. Inputs per program: every fact set of <=2 facts (core pairs in quick: <=1; the 14 representative 3-premise bodies with exposing heads: <=3 in both tiers; all 3-premise rules in thorough: <=3) over {a,b,c}x(predicates the program can read or write)x{a,b,c}(+\"1\",\"20\" when the program has a numeric filter), reduced by renaming of constants/predicates the program does not mention, in every insertion order; for programs with a numeric filter additionally the variants of those sets with the numerals replaced by \"5\" (on the >5/<5/>=5 thresholds) and \"20.0\" (second lexical form of 20), \"-1\" in singletons, and - when the filtered variable is bound in a subject position - with one unmentioned data constant replaced throughout by \"5\" or \"20\" (numerals as subjects and join values); plus 32 curated sets (chains, cycles, diamond, stars, numerics, predicate-as-node) in 3 orders. H (large inputs, crossing the 1000-triple chunk size of perform_hash_join_for_rules): 8 rules (2-premise join, copy, repeated variable, variable predicate, 3 premises, both-bound second premise, recursion, two conclusions) on a generated input of size n in {1001, 2001, 2500} (thorough: also 1000, 1500) = chain p(s_i,m_i), q(m_i,o_i), star p(h,s_i), self-loops p(s_i,s_i) for even i (3.5n facts), run by naive, semi-naive and Boolean-provenance materialisation (the parallel strategy, which does not use that join and is quadratic, only in thorough for n<=1500). Every case runs naive, semi-naive, parallel and Boolean-provenance materialisation on a fresh Reasoner and then the same call again. Non-trivial = the least model strictly contains the input (something is derived); distinct = distinct (program, fact set).",
    assumptions: &[
        "oracle = R-datalog (harness/src/reference/datalog.rs): naive least fixpoint, one stratum of safe negation decided at predicate level; programs needing more strata are not generated (counted as excluded)",
        "a numeric filter applied to a non-numeric binding is left open by the statement: cases whose least model differs between the two readings (type error / read as 0) are counted and not judged",
        "numeric filters compare the numeric value of plain decimal numerals (\"20\" and \"20.0\" are different terms with the same value)",
        "ordering filters between two variables are not generated (FilterCondition documents only =/!= for variable operands)",
        "the returned vector is only required to contain derivable facts (first run) and to be empty (second run); set-equality with model minus input is counted, not judged",
        "rules are added through Reasoner::add_rule (which fills rule_index); facts through add_abox_triple; quick: rules before facts, thorough: both layouts",
        "the store hands facts out in HashMap order (random per process): a wrong result that changes from run to run is still a failure (tag result_varies_between_runs), a replay executes the case 8 times (large inputs: 3)",
        "large inputs: worker processes run with RAYON_NUM_THREADS=2, so a join over L matching triples is split into ceil(L / max(L/2, 1000)) chunks (counters max_large_input_join_chunks, large_input_cases_with_a_short_last_chunk); rule shapes whose semi-naive premise order builds a cross product (a premise sharing no variable with the ones joined before it) are not in the large family: termination is only observed within the wall-clock cap",
        "failure tags explained_by=<component>: the reference reproduces the observed wrong store exactly when that component of the program is ignored (negated atoms / filters / rules with >=3 premises / rules reachable only through a constant-predicate premise / second and later passes over the negated rules); explained_by=nothing otherwise",
    ],
    run,
    replay,
    cap_s: (50, 840),
    shards: 0,
};

pub const VARNAMES: [&str; 8] = ["x", "y", "z", "w", "u", "v", "s", "t"];

pub fn symbols() -> Symbols {
    Symbols::new(&["a", "b", "c", "d", "e", "1", "20", "p", "q", "r", "5", "20.0", "-1"])
}
const DATA: [&str; 3] = ["a", "b", "c"];
const PREDS: [&str; 3] = ["p", "q", "r"];

// ---------------------------------------------------------------------------------------------
// program generation

/// canonical form under renaming of variables, of the rule constants {a,b,..} and of the predicates
/// {p,q,r}, each in order of first occurrence (body, negated atoms, filters, heads)
fn canon(r: &Rule, sy: &Symbols) -> Rule {
    let mut vmap: Vec<u8> = Vec::new();
    let mut cmap: Vec<Sym> = Vec::new();
    let mut pmap: Vec<Sym> = Vec::new();
    let data: Vec<Sym> = ["a", "b", "c", "d", "e"].iter().map(|n| sy.sym(n)).collect();
    let preds: Vec<Sym> = PREDS.iter().map(|n| sy.sym(n)).collect();
    fn idx<TT: PartialEq + Copy>(m: &mut Vec<TT>, x: TT) -> usize {
        match m.iter().position(|y| *y == x) {
            Some(i) => i,
            None => {
                m.push(x);
                m.len() - 1
            }
        }
    }
    let mut out = r.clone();
    {
        let mut t = |t: &mut T| match *t {
            T::V(v) => *t = T::V(idx(&mut vmap, v) as u8),
            T::C(c) => {
                if preds.contains(&c) {
                    *t = T::C(preds[idx(&mut pmap, c)]);
                } else if data.contains(&c) {
                    *t = T::C(data[idx(&mut cmap, c)]);
                }
            }
        };
        for a in out.pos.iter_mut() {
            for x in a.iter_mut() {
                t(x);
            }
        }
        for a in out.neg.iter_mut() {
            for x in a.iter_mut() {
                t(x);
            }
        }
    }
    for f in out.filters.iter_mut() {
        f.var = idx(&mut vmap, f.var) as u8;
        if let Rhs::Var(v) = f.rhs {
            f.rhs = Rhs::Var(idx(&mut vmap, v) as u8);
        }
    }
    for a in out.heads.iter_mut() {
        for x in a.iter_mut() {
            match *x {
                T::V(v) => *x = T::V(idx(&mut vmap, v) as u8),
                T::C(c) => {
                    if preds.contains(&c) {
                        *x = T::C(preds[idx(&mut pmap, c)]);
                    } else if data.contains(&c) {
                        *x = T::C(data[idx(&mut cmap, c)]);
                    }
                }
            }
        }
    }
    out
}

fn body_vars(r: &Rule) -> Vec<u8> {
    let mut v = Vec::new();
    for a in &r.pos {
        for t in a {
            if let T::V(x) = t {
                if !v.contains(x) {
                    v.push(*x);
                }
            }
        }
    }
    v
}

fn fresh_pred(body: &[Atom], sy: &Symbols) -> T {
    for p in PREDS {
        let s = sy.sym(p);
        if !body.iter().any(|a| a[1] == T::C(s)) {
            return T::C(s);
        }
    }
    T::C(sy.sym("r"))
}

/// conclusions that carry every body variable (so the complete join result is observable)
fn exposing_heads(body: &[Atom], sy: &Symbols) -> Vec<Atom> {
    let r = Rule { pos: body.to_vec(), ..Default::default() };
    let v = body_vars(&r);
    let f = fresh_pred(body, sy);
    match v.len() {
        0 => vec![[T::C(sy.sym("a")), f, T::C(sy.sym("a"))]],
        1 => vec![[T::V(v[0]), f, T::V(v[0])]],
        2 => vec![[T::V(v[0]), f, T::V(v[1])]],
        3 => vec![[T::V(v[0]), f, T::V(v[1])], [T::V(v[1]), f, T::V(v[2])]],
        _ => {
            let mut hs = Vec::new();
            let mut i = 0;
            while i < v.len() {
                let b = if i + 1 < v.len() { v[i + 1] } else { v[0] };
                hs.push([T::V(v[i]), f, T::V(b)]);
                i += 2;
            }
            hs
        }
    }
}

/// head menu: constant/variable positions, recursion through the first body predicate, variable
/// predicate in the head, two conclusions
fn head_menu(body: &[Atom], sy: &Symbols) -> Vec<Vec<Atom>> {
    let r = Rule { pos: body.to_vec(), ..Default::default() };
    let v = body_vars(&r);
    if v.is_empty() {
        return vec![];
    }
    let first = T::V(v[0]);
    let last = T::V(*v.last().unwrap());
    let f = fresh_pred(body, sy);
    let p0 = body.iter().find_map(|a| if let T::C(_) = a[1] { Some(a[1]) } else { None });
    let a = T::C(sy.sym("a"));
    let b = T::C(sy.sym("b"));
    let mut m: Vec<Vec<Atom>> = Vec::new();
    let h1 = [first, f, last];
    m.push(vec![h1]);
    m.push(vec![[first, f, a]]);
    m.push(vec![[b, f, last]]);
    if let Some(p0) = p0 {
        m.push(vec![[last, p0, first]]);
        m.push(vec![[first, p0, last]]);
        m.push(vec![h1, [last, p0, first]]);
        m.push(vec![[first, p0, a], [first, f, last]]);
    } else {
        m.push(vec![h1, [last, f, first]]);
    }
    // variable predicate in the head: the body's predicate variable if there is one, else a data variable
    let pv = body.iter().find_map(|a| if let T::V(_) = a[1] { Some(a[1]) } else { None });
    match pv {
        Some(pv) => m.push(vec![[last, pv, first]]),
        None => m.push(vec![[first, last, first]]),
    }
    let mut seen = BTreeSet::new();
    m.retain(|h| seen.insert(format!("{:?}", h)));
    m
}

#[derive(Clone)]
pub struct Program {
    pub rules: Vec<Rule>,
    pub family: &'static str,
}

fn var(i: u8) -> T {
    T::V(i)
}

fn single_rules(sy: &Symbols, thorough: bool) -> Vec<Program> {
    let c = |n: &str| T::C(sy.sym(n));
    let (x, y, z, w) = (var(0), var(1), var(2), var(3));
    let mut out: Vec<Program> = Vec::new();
    let mut seen: BTreeSet<String> = BTreeSet::new();
    let mut push = |r: Rule, fam: &'static str, out: &mut Vec<Program>| {
        if !rd::is_safe(&r) {
            return;
        }
        let cr = canon(&r, sy);
        if rd::stratify(std::slice::from_ref(&cr)).is_err() {
            return;
        }
        if seen.insert(rd::rule_str(&cr, sy)) {
            out.push(Program { rules: vec![cr], family: fam });
        }
    };

    // A: every one-premise body x head menu
    let s_terms = [x, y, z, w, c("a"), c("b")];
    let p_terms = [c("p"), c("q"), x, y, z, w];
    let mut bodies1: Vec<Atom> = Vec::new();
    for s in s_terms {
        for p in p_terms {
            for o in s_terms {
                let a = [s, p, o];
                if a.iter().all(|t| matches!(t, T::C(_))) {
                    continue;
                }
                let ca = canon(&Rule { pos: vec![a], ..Default::default() }, sy).pos[0];
                if !bodies1.contains(&ca) {
                    bodies1.push(ca);
                }
            }
        }
    }
    for b in &bodies1 {
        for h in head_menu(&[*b], sy) {
            push(Rule { pos: vec![*b], heads: h, ..Default::default() }, "A_one_premise", &mut out);
        }
    }

    // B: every canonical two-premise body over the join alphabet, all variables exposed
    let a1s: Vec<Atom> = {
        let mut v = Vec::new();
        for s in [x, c("a")] {
            for p in [c("p"), w] {
                for o in [y, x, c("a")] {
                    let a = [s, p, o];
                    if !a.iter().all(|t| matches!(t, T::C(_))) {
                        v.push(a);
                    }
                }
            }
        }
        v
    };
    let a2s: Vec<Atom> = {
        let mut v = Vec::new();
        for s in [x, y, z, c("a"), w] {
            for p in [c("p"), c("q"), w, y] {
                for o in [x, y, z, c("a"), w] {
                    v.push([s, p, o]);
                }
            }
        }
        v
    };
    let (a1s, a2s): (Vec<Atom>, Vec<Atom>) = if thorough {
        // full alphabets: first atom = every canonical one-premise body, second atom = every atom
        let mut v2 = Vec::new();
        for s in s_terms {
            for p in [c("p"), c("q"), x, y, z, w] {
                for o in s_terms {
                    v2.push([s, p, o]);
                }
            }
        }
        (bodies1.clone(), v2)
    } else {
        (a1s, a2s)
    };
    for a1 in &a1s {
        for a2 in &a2s {
            if a2.iter().all(|t| matches!(t, T::C(_))) {
                continue;
            }
            let body = vec![*a1, *a2];
            let h = exposing_heads(&body, sy);
            push(Rule { pos: body, heads: h, ..Default::default() }, "B_two_premise_joins", &mut out);
        }
    }

    // B': head menu (recursive heads, constants, variable predicate, two conclusions) on representative bodies
    let rep2: Vec<Vec<Atom>> = vec![
        vec![[x, c("p"), y], [y, c("p"), z]],
        vec![[x, c("p"), y], [y, c("q"), z]],
        vec![[x, c("q"), y], [y, c("p"), z]],
        vec![[x, c("p"), y], [x, c("q"), z]],
        vec![[x, c("p"), z], [y, c("p"), z]],
        vec![[x, c("p"), y], [y, c("p"), x]],
        vec![[x, c("p"), y], [z, c("q"), w]],
        vec![[x, w, y], [y, w, z]],
        vec![[x, c("p"), y], [y, w, z]],
        vec![[x, w, y], [y, c("p"), z]],
        vec![[x, c("p"), c("a")], [c("a"), c("q"), y]],
        vec![[x, c("p"), x], [x, c("q"), y]],
    ];
    for b in &rep2 {
        for h in head_menu(b, sy) {
            push(Rule { pos: b.clone(), heads: h, ..Default::default() }, "B2_two_premise_heads", &mut out);
        }
    }

    // C: three premises
    let mut rep3: Vec<Vec<Atom>> = vec![
        vec![[x, c("p"), y], [y, c("p"), z], [z, c("p"), w]],
        vec![[x, c("p"), y], [y, c("q"), z], [z, c("r"), w]],
        vec![[x, c("p"), y], [x, c("q"), z], [x, c("r"), w]],
        vec![[x, c("p"), y], [y, c("p"), z], [z, c("p"), x]],
        vec![[x, c("p"), y], [y, c("q"), z], [x, c("r"), z]],
        vec![[x, c("p"), y], [y, c("p"), z], [x, c("p"), z]],
        vec![[x, w, y], [y, w, z], [z, c("p"), x]],
        vec![[x, c("p"), y], [y, c("p"), z], [x, w, z]],
        vec![[x, c("p"), c("a")], [c("a"), c("q"), y], [y, c("r"), z]],
        vec![[x, c("p"), x], [x, c("q"), y], [y, c("r"), y]],
        vec![[x, c("p"), y], [x, c("p"), y], [y, c("q"), z]],
        vec![[x, c("p"), y], [z, c("q"), w], [y, c("r"), z]],
        vec![[x, c("p"), y], [y, c("p"), z], [z, c("q"), z]],
        vec![[x, c("p"), y], [y, c("q"), x], [x, c("p"), z]],
    ];
    if thorough {
        // systematic: chain-ish first two atoms x every third atom of the join alphabet
        for a2 in [[y, c("p"), z], [y, c("q"), z], [x, c("q"), z], [z, c("p"), y]] {
            for s in [x, y, z, w, c("a")] {
                for p in [c("p"), c("q"), c("r"), var(4)] {
                    for o in [x, y, z, w, c("a")] {
                        let a3 = [s, p, o];
                        if a3.iter().all(|t| matches!(t, T::C(_))) {
                            continue;
                        }
                        rep3.push(vec![[x, c("p"), y], a2, a3]);
                    }
                }
            }
        }
    }
    for (i, b) in rep3.iter().enumerate() {
        // the 14 representative bodies with all variables exposed also run on every 3-fact set in the quick tier
        let fam = if i < 14 { "C3_three_premises_exposed" } else { "C_three_premises" };
        push(Rule { pos: b.clone(), heads: exposing_heads(b, sy), ..Default::default() }, fam, &mut out);
    }
    for b in rep3.iter().take(14) {
        for h in head_menu(b, sy).into_iter().skip(3).take(3) {
            push(Rule { pos: b.clone(), heads: h, ..Default::default() }, "C_three_premises", &mut out);
        }
    }

    // G: four premises (the join loops and the semi-naive position loop are generic in n; the parallel
    // strategy sends everything with >= 3 premises through one generic arm)
    let (u, v5) = (var(4), var(5));
    let rep4: Vec<Vec<Atom>> = vec![
        vec![[x, c("p"), y], [y, c("p"), z], [z, c("p"), w], [w, c("p"), u]],
        vec![[x, c("p"), y], [y, c("q"), z], [z, c("p"), w], [w, c("q"), u]],
        vec![[x, c("p"), y], [x, c("p"), z], [x, c("q"), w], [x, c("q"), u]],
        vec![[x, c("p"), y], [y, c("p"), z], [z, c("p"), w], [w, c("p"), x]],
        vec![[x, v5, y], [y, v5, z], [z, c("p"), w], [w, c("p"), x]],
        vec![[x, c("p"), y], [y, c("q"), z], [x, c("r"), z], [z, c("p"), w]],
        vec![[x, c("p"), c("a")], [c("a"), c("q"), y], [y, c("p"), z], [z, c("q"), w]],
        vec![[x, c("p"), y], [y, c("p"), z], [x, c("p"), y], [z, c("q"), w]],
    ];
    for b in &rep4 {
        push(Rule { pos: b.clone(), heads: exposing_heads(b, sy), ..Default::default() }, "G_four_premises", &mut out);
        // recursive head through the first body predicate
        let bv = body_vars(&Rule { pos: b.clone(), ..Default::default() });
        push(Rule { pos: b.clone(), heads: vec![[T::V(bv[0]), c("p"), T::V(*bv.last().unwrap())]], ..Default::default() }, "G_four_premises", &mut out);
    }

    // D: filters
    let fbodies: Vec<(Vec<Atom>, Vec<u8>)> = vec![
        (vec![[x, c("p"), y]], vec![1]),
        (vec![[x, c("p"), y], [y, c("q"), z]], vec![1, 2]),
        (vec![[x, c("p"), y], [x, c("q"), z]], vec![1, 2]),
        (vec![[x, c("p"), z], [y, c("p"), z]], vec![2]),
    ];
    let nums: Vec<(FOp, f64)> = vec![(FOp::Gt, 5.0), (FOp::Lt, 5.0), (FOp::Eq, 20.0), (FOp::Ne, 20.0), (FOp::Ge, 20.0), (FOp::Le, 1.0), (FOp::Gt, 1.0), (FOp::Lt, 20.0)];
    for (b, fv) in &fbodies {
        let r0 = Rule { pos: b.clone(), ..Default::default() };
        let bv = body_vars(&r0);
        let f = fresh_pred(b, sy);
        let p0 = b[0][1];
        let heads: Vec<Vec<Atom>> = vec![vec![[T::V(bv[0]), f, T::V(*bv.last().unwrap())]], vec![[T::V(bv[0]), p0, T::V(*bv.last().unwrap())]], exposing_heads(b, sy)];
        for h in &heads {
            for v in fv {
                for (op, k) in &nums {
                    push(Rule { pos: b.clone(), filters: vec![Filter { var: *v, op: *op, rhs: Rhs::Num(*k) }], heads: h.clone(), ..Default::default() }, "D_filters", &mut out);
                }
            }
            // two numeric filters on the same variable
            push(
                Rule { pos: b.clone(), filters: vec![Filter { var: fv[0], op: FOp::Gt, rhs: Rhs::Num(1.0) }, Filter { var: fv[0], op: FOp::Le, rhs: Rhs::Num(20.0) }], heads: h.clone(), ..Default::default() },
                "D_filters",
                &mut out,
            );
            // term (in)equality between two variables
            for i in 0..bv.len() {
                for j in 0..bv.len() {
                    if i != j {
                        for op in [FOp::Ne, FOp::Eq] {
                            push(Rule { pos: b.clone(), filters: vec![Filter { var: bv[i], op, rhs: Rhs::Var(bv[j]) }], heads: h.clone(), ..Default::default() }, "D_filters", &mut out);
                        }
                    }
                }
            }
        }
    }

    // D (subject side): a numeric filter on a variable bound in a subject position; the fact universe
    // then has numerals as subjects as well
    let sbodies: Vec<(Vec<Atom>, u8)> = vec![(vec![[x, c("p"), y]], 0), (vec![[x, c("p"), y], [x, c("q"), z]], 0), (vec![[y, c("p"), x], [x, c("q"), z]], 0)];
    for (b, fvar) in &sbodies {
        let bv = body_vars(&Rule { pos: b.clone(), ..Default::default() });
        let f = fresh_pred(b, sy);
        for h in [vec![[T::V(bv[0]), f, T::V(*bv.last().unwrap())]], exposing_heads(b, sy)] {
            for (op, k) in [(FOp::Gt, 5.0), (FOp::Lt, 5.0), (FOp::Eq, 20.0), (FOp::Ne, 20.0), (FOp::Ge, 5.0)] {
                push(Rule { pos: b.clone(), filters: vec![Filter { var: *fvar, op, rhs: Rhs::Num(k) }], heads: h.clone(), ..Default::default() }, "D_filters", &mut out);
            }
        }
    }

    // F: shapes of the negated part that the one-atom family E does not have: a filter next to a
    // negated atom, two negated atoms, a fully ground negated atom, three premises with negation.
    // Conclusions use a predicate that occurs nowhere in the rule (no recursion through the negation).
    {
        let b1: Vec<Atom> = vec![[x, c("p"), y]];
        let b2: Vec<Atom> = vec![[x, c("p"), y], [y, c("q"), z]];
        let b2p: Vec<Atom> = vec![[x, c("p"), y], [y, c("p"), z]];
        let b3: Vec<Atom> = vec![[x, c("p"), y], [y, c("p"), z], [z, c("p"), w]];
        let b3q: Vec<Atom> = vec![[x, c("p"), y], [y, c("q"), z], [x, c("p"), z]];
        let numf = |v: u8, op: FOp, k: f64| Filter { var: v, op, rhs: Rhs::Num(k) };
        let varf = |a: u8, op: FOp, b: u8| Filter { var: a, op, rhs: Rhs::Var(b) };
        let mut shapes: Vec<(Vec<Atom>, Vec<Atom>, Vec<Filter>)> = Vec::new();
        // filter + negated atom
        for n in [[y, c("p"), x], [x, c("q"), y], [x, c("p"), x]] {
            for f in [numf(1, FOp::Gt, 5.0), numf(1, FOp::Lt, 5.0), numf(1, FOp::Ne, 20.0), varf(0, FOp::Ne, 1), varf(0, FOp::Eq, 1)] {
                shapes.push((b1.clone(), vec![n], vec![f]));
            }
        }
        for n in [[z, c("p"), x], [x, c("q"), z], [y, c("q"), y]] {
            for f in [numf(2, FOp::Gt, 5.0), numf(2, FOp::Le, 1.0), varf(0, FOp::Ne, 2), varf(1, FOp::Ne, 2)] {
                shapes.push((b2.clone(), vec![n], vec![f]));
            }
        }
        // two (and three) negated atoms
        shapes.push((b1.clone(), vec![[y, c("p"), x], [x, c("q"), y]], vec![]));
        shapes.push((b1.clone(), vec![[y, c("p"), x], [y, c("q"), x]], vec![]));
        shapes.push((b1.clone(), vec![[x, c("q"), y], [y, c("q"), x]], vec![]));
        shapes.push((b1.clone(), vec![[x, c("p"), x], [y, c("p"), y]], vec![]));
        shapes.push((b1.clone(), vec![[y, c("p"), x], [x, c("q"), y], [y, c("q"), x]], vec![]));
        shapes.push((b2p.clone(), vec![[x, c("p"), z], [z, c("p"), x]], vec![]));
        shapes.push((b2p.clone(), vec![[x, c("p"), z], [z, c("q"), x]], vec![]));
        shapes.push((b2.clone(), vec![[x, c("q"), z], [z, c("p"), y]], vec![]));
        shapes.push((b1.clone(), vec![[y, c("p"), x], [x, c("q"), y]], vec![varf(0, FOp::Ne, 1)]));
        // fully ground negated atom (alone and next to a non-ground one)
        for b in [&b1, &b2, &b2p] {
            shapes.push((b.clone(), vec![[c("a"), c("p"), c("a")]], vec![]));
            shapes.push((b.clone(), vec![[c("a"), c("q"), c("b")]], vec![]));
            shapes.push((b.clone(), vec![[c("a"), c("p"), c("b")], [y, c("p"), x]], vec![]));
        }
        // three premises with negation
        for n in [[x, c("p"), w], [w, c("p"), x], [x, c("q"), w], [y, c("p"), y], [c("a"), c("p"), c("a")]] {
            shapes.push((b3.clone(), vec![n], vec![]));
        }
        shapes.push((b3.clone(), vec![[x, c("p"), w], [w, c("q"), x]], vec![]));
        for n in [[x, c("q"), y], [z, c("p"), x], [y, c("p"), z]] {
            shapes.push((b3q.clone(), vec![n], vec![]));
        }
        for (b, n, f) in shapes {
            // conclusion predicate: one that neither the body nor a negated atom mentions
            let all: Vec<Atom> = b.iter().chain(n.iter()).cloned().collect();
            let fp = fresh_pred(&all, sy);
            if all.iter().any(|a| a[1] == fp) {
                continue;
            }
            let mut hs = exposing_heads(&b, sy);
            for h in hs.iter_mut() {
                h[1] = fp;
            }
            let bv = body_vars(&Rule { pos: b.clone(), ..Default::default() });
            push(Rule { pos: b.clone(), neg: n.clone(), filters: f.clone(), heads: hs, ..Default::default() }, "F_negation_shapes", &mut out);
            push(Rule { pos: b.clone(), neg: n.clone(), filters: f.clone(), heads: vec![[T::V(*bv.last().unwrap()), fp, T::V(bv[0])]], ..Default::default() }, "F_negation_shapes", &mut out);
        }
    }

    // E: one safe negated atom
    let nbodies: Vec<Vec<Atom>> = vec![
        vec![[x, c("p"), y]],
        vec![[x, c("p"), y], [y, c("p"), z]],
        vec![[x, c("p"), y], [y, c("q"), z]],
        vec![[x, c("q"), y], [y, c("p"), z]],
        vec![[x, w, y]],
    ];
    for b in &nbodies {
        let r0 = Rule { pos: b.clone(), ..Default::default() };
        let bv = body_vars(&r0);
        let mut negs: Vec<Atom> = Vec::new();
        let terms: Vec<T> = bv.iter().map(|v| T::V(*v)).chain([c("a")]).collect();
        for s in &terms {
            for p in [c("p"), c("q"), c("r")] {
                for o in &terms {
                    if matches!((s, o), (T::C(_), T::C(_))) {
                        continue;
                    }
                    negs.push([*s, p, *o]);
                }
            }
        }
        for n in &negs {
            let mut hs = head_menu(b, sy);
            if !thorough {
                hs.truncate(4);
            }
            hs.push(exposing_heads(b, sy));
            for h in hs {
                push(Rule { pos: b.clone(), neg: vec![*n], heads: h, ..Default::default() }, "E_negation", &mut out);
            }
        }
    }
    out
}

pub const CORE: [&str; 40] = [
    "q(?x,?y) :- p(?x,?y)",
    "p(?x,?y) :- q(?x,?y)",
    "r(?x,?y) :- q(?x,?y)",
    "p(?x,?y) :- r(?x,?y)",
    "q(?y,?x) :- p(?x,?y)",
    "p(?y,?x) :- q(?x,?y)",
    "p(?y,?x) :- p(?x,?y)",
    "p(?x,?z) :- p(?x,?y), p(?y,?z)",
    "q(?x,?z) :- q(?x,?y), p(?y,?z)",
    "q(?x,?z) :- p(?x,?y), q(?y,?z)",
    "q(?x,?z) :- p(?x,?y), p(?y,?z)",
    "r(?x,?z) :- p(?x,?y), q(?y,?z)",
    "r(?x,?y) :- p(?x,?z), q(?y,?z)",
    "q(?x,?y) :- p(?x,?y), p(?y,?x)",
    "q(?x,?x) :- p(?x,?x)",
    "r(?x,?x) :- p(?x,?y)",
    "q(?x,a) :- p(?x,b)",
    "p(a,?y) :- q(?y,a)",
    "r(?x,b) :- p(a,?x), q(?x,?y)",
    "?w(?y,?x) :- ?w(?x,?y)",
    "r(?x,?y) :- ?w(?x,?y)",
    "?w(?x,?z) :- ?w(?x,?y), ?w(?y,?z)",
    "q(?x,?z) :- p(?x,?y), ?w(?y,?z)",
    "?y(?x,?x) :- p(?x,?y)",
    "q(?x,?y), r(?y,?x) :- p(?x,?y)",
    "p(?x,?z), q(?z,?x) :- p(?x,?y), q(?y,?z)",
    "r(?x,?w) :- p(?x,?y), p(?y,?z), p(?z,?w)",
    "p(?x,?w) :- p(?x,?y), q(?y,?z), p(?z,?w)",
    "q(?x,?z) :- p(?x,?y), p(?y,?z), p(?z,?x)",
    "q(?x,?y) :- p(?x,?y), ?y > 5",
    "r(?x,?y) :- q(?x,?y), ?y < 20",
    "q(?x,?y) :- p(?x,?z), p(?y,?z), ?x != ?y",
    "p(?x,?y) :- q(?x,?y), ?y != 20",
    "q(?x,?y) :- p(?x,?y), not p(?y,?x)",
    "r(?x,?y) :- p(?x,?y), not q(?x,?y)",
    "r(?x,?z) :- p(?x,?y), p(?y,?z), not p(?x,?z)",
    "q(?x,?x) :- p(?x,?y), not p(?x,?x)",
    "r(?x,?z) :- r(?x,?y), p(?y,?z), not q(?x,?z)",
    "r(?x,?z) :- p(?x,?y), q(?z,?w)",
    "q(?y,?y) :- p(?x,?y), p(?y,?y)",
];

pub fn core_rules(sy: &Symbols) -> Vec<Rule> {
    CORE.iter().map(|t| rd::parse_rule(t, sy).unwrap_or_else(|e| panic!("core rule {}: {}", t, e))).collect()
}

/// (programs, number of core pairs excluded because one stratum of negation cannot evaluate them)
pub fn programs(sy: &Symbols, thorough: bool) -> (Vec<Program>, u64) {
    let mut v = single_rules(sy, thorough);
    let core = core_rules(sy);
    let mut excluded = 0;
    for a in &core {
        for b in &core {
            let rules = vec![a.clone(), b.clone()];
            if rd::stratify(&rules).is_err() {
                excluded += 1;
                continue;
            }
            v.push(Program { rules, family: "P_core_pairs" });
        }
    }
    (v, excluded)
}

// ---------------------------------------------------------------------------------------------
// structural features of a program (counters, tags)

#[derive(Clone, Debug, Default)]
pub struct Features {
    pub has_3plus: bool,
    pub has_filter: bool,
    pub has_numeric_filter: bool,
    pub has_varpred_premise: bool,
    pub has_negation: bool,
    pub neg_conclusion_consumed: bool,
    pub recursive: bool,
    pub two_heads: bool,
    pub body_constant: bool,
    pub repeated_var_in_atom: bool,
    pub varpred_head: bool,
    pub has_4plus: bool,
    pub has_2plus_negated_atoms: bool,
    pub has_ground_negated_atom: bool,
    pub has_filter_and_negation: bool,
    /// a numeric filter on a variable that occurs in a subject position of a positive atom
    pub numeric_filter_on_subject: bool,
}

fn pred_may_match(a: &Atom, b: &Atom) -> bool {
    match (a[1], b[1]) {
        (T::C(x), T::C(y)) => x == y,
        _ => true,
    }
}

pub fn features(rules: &[Rule]) -> Features {
    let mut f = Features::default();
    let n = rules.len();
    for r in rules {
        f.has_3plus |= r.pos.len() >= 3;
        f.has_filter |= !r.filters.is_empty();
        f.has_numeric_filter |= r.filters.iter().any(|x| matches!(x.rhs, Rhs::Num(_)));
        f.has_varpred_premise |= r.pos.iter().any(|a| matches!(a[1], T::V(_)));
        f.has_negation |= !r.neg.is_empty();
        f.two_heads |= r.heads.len() >= 2;
        f.body_constant |= r.pos.iter().any(|a| matches!(a[0], T::C(_)) || matches!(a[2], T::C(_)));
        f.repeated_var_in_atom |= r.pos.iter().any(|a| (matches!(a[0], T::V(_)) && (a[0] == a[2] || a[0] == a[1])) || (matches!(a[1], T::V(_)) && a[1] == a[2]));
        f.varpred_head |= r.heads.iter().any(|a| matches!(a[1], T::V(_)));
        f.has_4plus |= r.pos.len() >= 4;
        f.has_2plus_negated_atoms |= r.neg.len() >= 2;
        f.has_ground_negated_atom |= r.neg.iter().any(|a| a.iter().all(|t| matches!(t, T::C(_))));
        f.has_filter_and_negation |= !r.filters.is_empty() && !r.neg.is_empty();
        f.numeric_filter_on_subject |= r.filters.iter().any(|x| matches!(x.rhs, Rhs::Num(_)) && r.pos.iter().any(|a| a[0] == T::V(x.var)));
    }
    // some rule reads (positively) what a rule with a negated atom concludes
    for s in rules {
        for r in rules {
            if !r.neg.is_empty() && s.pos.iter().any(|a| r.heads.iter().any(|h| pred_may_match(a, h))) {
                f.neg_conclusion_consumed = true;
            }
        }
    }
    // recursion: cycle in the rule dependency graph (edge i -> j when a head of i may feed a premise of j)
    let mut reach = vec![vec![false; n]; n];
    for i in 0..n {
        for j in 0..n {
            reach[i][j] = rules[i].heads.iter().any(|h| rules[j].pos.iter().any(|a| pred_may_match(a, h)));
        }
    }
    for k in 0..n {
        for i in 0..n {
            for j in 0..n {
                if reach[i][k] && reach[k][j] {
                    reach[i][j] = true;
                }
            }
        }
    }
    f.recursive = (0..n).any(|i| reach[i][i]);
    f
}

// ---------------------------------------------------------------------------------------------
// inputs

/// fact universe a program can react to: subjects/objects {a,b,c} (+ "1","20" with a numeric filter),
/// predicates = every constant predicate of the program, or all of p,q,r if a premise or a
/// conclusion has a variable predicate
fn universe(rules: &[Rule], sy: &Symbols) -> (Vec<Sym>, Vec<Sym>, Vec<Sym>) {
    let f = features(rules);
    let mut preds: Vec<Sym> = Vec::new();
    if f.has_varpred_premise || f.varpred_head {
        preds = PREDS.iter().map(|p| sy.sym(p)).collect();
    } else {
        for r in rules {
            for a in r.pos.iter().chain(r.neg.iter()).chain(r.heads.iter()) {
                if let T::C(c) = a[1] {
                    if !preds.contains(&c) {
                        preds.push(c);
                    }
                }
            }
        }
        preds.sort();
    }
    let subj: Vec<Sym> = DATA.iter().map(|d| sy.sym(d)).collect();
    let mut obj = subj.clone();
    if f.has_numeric_filter {
        obj.push(sy.sym("1"));
        obj.push(sy.sym("20"));
    }
    (subj, preds, obj)
}

/// symbols of {a,b,c} / {p,q,r} that the program does not mention as constants: renaming them is a symmetry
fn free_symbols(rules: &[Rule], sy: &Symbols) -> (Vec<Sym>, Vec<Sym>) {
    let mut used: BTreeSet<Sym> = BTreeSet::new();
    for r in rules {
        for a in r.pos.iter().chain(r.neg.iter()).chain(r.heads.iter()) {
            for t in a {
                if let T::C(c) = t {
                    used.insert(*c);
                }
            }
        }
    }
    let fd = DATA.iter().map(|d| sy.sym(d)).filter(|s| !used.contains(s)).collect();
    let fp = PREDS.iter().map(|d| sy.sym(d)).filter(|s| !used.contains(s)).collect();
    (fd, fp)
}

fn permutations<TT: Clone>(v: &[TT]) -> Vec<Vec<TT>> {
    if v.len() <= 1 {
        return vec![v.to_vec()];
    }
    let mut out = Vec::new();
    for i in 0..v.len() {
        let mut rest = v.to_vec();
        let x = rest.remove(i);
        for mut p in permutations(&rest) {
            p.insert(0, x.clone());
            out.push(p);
        }
    }
    out
}

/// every fact set of <= `k` facts over the program's universe, one representative per orbit of the
/// renamings of unmentioned constants / predicates
fn small_fact_sets(rules: &[Rule], sy: &Symbols, k: usize) -> Vec<Vec<Fact>> {
    let (subj, preds, obj) = universe(rules, sy);
    let mut uni: Vec<Fact> = Vec::new();
    for s in &subj {
        for p in &preds {
            for o in &obj {
                uni.push([*s, *p, *o]);
            }
        }
    }
    let (fd, fp) = free_symbols(rules, sy);
    let fp: Vec<Sym> = fp.into_iter().filter(|p| preds.contains(p)).collect();
    let dperms = permutations(&fd);
    let pperms = permutations(&fp);
    let canon_set = |set: &Vec<Fact>| -> Vec<Fact> {
        let mut best: Option<Vec<Fact>> = None;
        for dp in &dperms {
            for pp in &pperms {
                let map = |s: Sym| -> Sym {
                    if let Some(i) = fd.iter().position(|x| *x == s) {
                        dp[i]
                    } else if let Some(i) = fp.iter().position(|x| *x == s) {
                        pp[i]
                    } else {
                        s
                    }
                };
                let mut img: Vec<Fact> = set.iter().map(|f| [map(f[0]), map(f[1]), map(f[2])]).collect();
                img.sort();
                if best.as_ref().map_or(true, |b| img < *b) {
                    best = Some(img);
                }
            }
        }
        best.unwrap()
    };
    let mut out: BTreeSet<Vec<Fact>> = BTreeSet::new();
    out.insert(vec![]);
    if k >= 1 {
        for f in &uni {
            out.insert(canon_set(&vec![*f]));
        }
    }
    if k >= 2 {
        for i in 0..uni.len() {
            for j in (i + 1)..uni.len() {
                out.insert(canon_set(&vec![uni[i], uni[j]]));
            }
        }
    }
    if k >= 3 {
        for i in 0..uni.len() {
            for j in (i + 1)..uni.len() {
                for l in (j + 1)..uni.len() {
                    out.insert(canon_set(&vec![uni[i], uni[j], uni[l]]));
                }
            }
        }
    }
    // numeric alphabet: variants of the sets above with other numerals. "5" sits on the >5 / <5 / >=5
    // thresholds, "20.0" is a second lexical form of the value 20, "-1" is negative; when the filtered
    // variable is bound in a subject position, one data constant (one the program does not mention) is
    // replaced by a numeral throughout the set, so that numerals also occur as subjects and join values.
    let feats = features(rules);
    if feats.has_numeric_filter {
        let (one, twenty) = (sy.sym("1"), sy.sym("20"));
        let subst = |set: &Vec<Fact>, from: Sym, to: Sym| -> Vec<Fact> {
            let mut v: Vec<Fact> = set.iter().map(|f| [if f[0] == from { to } else { f[0] }, f[1], if f[2] == from { to } else { f[2] }]).collect();
            v.sort();
            v.dedup();
            v
        };
        let base: Vec<Vec<Fact>> = out.iter().cloned().collect();
        for set in &base {
            if set.iter().any(|f| f[2] == one || f[2] == twenty) {
                out.insert(subst(&subst(set, one, sy.sym("5")), twenty, sy.sym("20.0")));
                if set.len() == 1 {
                    out.insert(subst(set, one, sy.sym("-1")));
                }
            }
            if feats.numeric_filter_on_subject {
                for d in &fd {
                    if set.iter().any(|f| f[0] == *d) {
                        for n in ["5", "20"] {
                            out.insert(subst(set, *d, sy.sym(n)));
                        }
                    }
                }
            }
        }
    }
    out.into_iter().collect()
}

pub const CURATED: [&[&str]; 32] = [
    &["p(a,b)", "p(b,c)", "p(c,d)"],
    &["p(a,b)", "p(b,c)", "p(c,d)", "p(d,e)"],
    &["p(a,b)", "p(b,c)", "p(c,a)"],
    &["p(a,b)", "p(b,a)"],
    &["p(a,a)", "p(a,b)"],
    &["p(a,b)", "p(a,c)", "p(b,d)", "p(c,d)"],
    &["p(a,b)", "q(b,c)", "p(c,d)"],
    &["p(a,b)", "q(b,c)", "r(c,d)"],
    &["p(a,b)", "q(a,b)"],
    &["p(a,b)", "q(b,a)"],
    &["p(a,1)", "p(a,20)", "p(b,20)"],
    &["p(a,b)", "p(b,20)", "q(a,1)", "q(b,1)"],
    &["p(a,b)", "p(a,c)", "p(a,d)"],
    &["p(b,a)", "p(c,a)", "p(d,a)"],
    &["p(a,b)", "p(b,c)", "q(a,c)"],
    &["p(a,a)", "p(a,b)", "p(b,a)", "p(b,b)"],
    &["p(a,b)", "q(b,c)", "q(c,b)"],
    &["p(a,a)", "p(b,a)", "q(a,b)"],
    &["p(a,b)", "q(p,a)", "r(q,b)"],
    &["p(a,b)", "p(b,c)", "r(a,b)", "r(c,a)"],
    &["p(a,b)", "q(a,b)", "r(a,b)"],
    &["p(a,b)", "p(c,d)", "q(b,c)"],
    &["p(a,b)", "p(b,c)", "p(c,d)", "p(d,a)"],
    &["p(a,b)", "p(b,a)", "q(a,a)"],
    &["p(1,20)", "p(a,1)", "q(20,a)"],
    &["p(a,b)", "p(b,c)", "p(c,a)", "p(c,d)"],
    &["q(a,b)", "q(b,c)", "r(c,a)"],
    &["p(a,b)", "p(a,c)", "q(b,d)", "q(c,d)"],
    &["p(a,a)", "q(a,a)", "p(b,b)"],
    &["p(a,b)", "q(b,c)", "r(c,a)", "p(a,20)", "q(b,1)"],
    &["p(a,5)", "p(a,20.0)", "p(b,-1)"],
    &["p(a,5)", "q(5,20.0)", "p(5,b)", "q(b,-1)"],
];

fn curated_sets(sy: &Symbols) -> Vec<Vec<Fact>> {
    CURATED.iter().map(|s| s.iter().map(|t| rd::parse_fact(t, sy).unwrap()).collect()).collect()
}

/// the ordered fact lists a program is run on
fn inputs_for(prog: &Program, sy: &Symbols, curated: &[Vec<Fact>], thorough: bool) -> Vec<Vec<Fact>> {
    let mut out: Vec<Vec<Fact>> = Vec::new();
    let pair = prog.rules.len() > 1;
    let k = if pair && !thorough {
        1
    } else if prog.family == "C3_three_premises_exposed" || (thorough && prog.family == "C_three_premises") {
        3
    } else {
        2
    };
    for set in small_fact_sets(&prog.rules, sy, k) {
        for p in permutations(&set) {
            out.push(p);
        }
    }
    for set in curated {
        out.push(set.clone());
        let mut rev = set.clone();
        rev.reverse();
        out.push(rev);
        let mut rot = set.clone();
        rot.rotate_left(1);
        if set.len() > 2 {
            out.push(rot);
        }
    }
    out
}

// ---------------------------------------------------------------------------------------------
// the subject

#[derive(Clone, Copy, PartialEq, Eq, Debug, Hash, PartialOrd, Ord)]
pub enum Strat {
    Naive,
    SemiNaive,
    Parallel,
    ProvBool,
}
pub const STRATS: [Strat; 4] = [Strat::Naive, Strat::SemiNaive, Strat::Parallel, Strat::ProvBool];
impl Strat {
    pub fn name(&self) -> &'static str {
        match self {
            Strat::Naive => "naive",
            Strat::SemiNaive => "semi_naive",
            Strat::Parallel => "parallel",
            Strat::ProvBool => "provenance_boolean",
        }
    }
}

pub fn to_krule(r: &Rule, sy: &Symbols, enc: &mut dyn FnMut(&str) -> u32) -> KRule {
    let mut term = |t: &T| -> Term {
        match t {
            T::C(c) => Term::Constant(enc(sy.name(*c))),
            T::V(v) => Term::Variable(VARNAMES[*v as usize].to_string()),
        }
    };
    let mut pat = |a: &Atom| (term(&a[0]), term(&a[1]), term(&a[2]));
    let premise = r.pos.iter().map(&mut pat).collect();
    let negative_premise = r.neg.iter().map(&mut pat).collect();
    let conclusion = r.heads.iter().map(&mut pat).collect();
    let filters = r
        .filters
        .iter()
        .map(|f| FilterCondition {
            variable: VARNAMES[f.var as usize].to_string(),
            operator: match f.op {
                FOp::Gt => ">",
                FOp::Lt => "<",
                FOp::Ge => ">=",
                FOp::Le => "<=",
                FOp::Eq => "=",
                FOp::Ne => "!=",
            }
            .to_string(),
            value: match f.rhs {
                Rhs::Num(k) => format!("{}", k),
                Rhs::Var(v) => VARNAMES[v as usize].to_string(),
            },
        })
        .collect();
    KRule { premise, negative_premise, filters, conclusion }
}

pub const FOREIGN: Sym = u16::MAX;

pub struct Decoder {
    map: HashMap<String, Sym>,
}
impl Decoder {
    pub fn new(sy: &Symbols) -> Decoder {
        Decoder { map: sy.names.iter().enumerate().map(|(i, n)| (n.clone(), i as Sym)).collect() }
    }
    pub fn fact(&self, r: &Reasoner, t: &Triple) -> Fact {
        let d = r.dictionary.read().unwrap();
        let one = |id: u32| -> Sym { d.decode(id).and_then(|s| self.map.get(s).copied()).unwrap_or(FOREIGN) };
        [one(t.subject), one(t.predicate), one(t.object)]
    }
}

pub fn build_reasoner(rules: &[Rule], facts: &[Fact], facts_first: bool, sy: &Symbols) -> Reasoner {
    let mut r = Reasoner::new();
    let add_rules = |r: &mut Reasoner| {
        for rule in rules {
            let dict = r.dictionary.clone();
            let mut enc = |s: &str| dict.write().unwrap().encode(s);
            let kr = to_krule(rule, sy, &mut enc);
            r.add_rule(kr);
        }
    };
    let add_facts = |r: &mut Reasoner| {
        for f in facts {
            r.add_abox_triple(sy.name(f[0]), sy.name(f[1]), sy.name(f[2]));
        }
    };
    if facts_first {
        add_facts(&mut r);
        add_rules(&mut r);
    } else {
        add_rules(&mut r);
        add_facts(&mut r);
    }
    r
}

#[derive(Clone, PartialEq, Eq, Debug, Hash)]
pub struct Obs {
    pub ret1: Vec<Fact>,
    pub store1: BTreeSet<Fact>,
    pub ret2: Vec<Fact>,
    pub store2: BTreeSet<Fact>,
}

fn infer(r: &mut Reasoner, s: Strat) -> Vec<Triple> {
    match s {
        Strat::Naive => r.infer_new_facts_naive(),
        Strat::SemiNaive => r.infer_new_facts_semi_naive(),
        Strat::Parallel => r.infer_new_facts_semi_naive_parallel(),
        Strat::ProvBool => r.infer_new_facts_with_provenance(BooleanProvenance).0,
    }
}

pub fn store_of(r: &Reasoner, dec: &Decoder) -> BTreeSet<Fact> {
    r.dataset_index.query(None, None, None).iter().map(|t| dec.fact(r, t)).collect()
}

pub fn run_strategy(rules: &[Rule], facts: &[Fact], facts_first: bool, s: Strat, sy: &Symbols, dec: &Decoder) -> Result<Obs, String> {
    guarded(|| {
        let mut r = build_reasoner(rules, facts, facts_first, sy);
        let ret1 = infer(&mut r, s);
        let mut ret1: Vec<Fact> = ret1.iter().map(|t| dec.fact(&r, t)).collect();
        ret1.sort();
        let store1 = store_of(&r, dec);
        let ret2 = infer(&mut r, s);
        let mut ret2: Vec<Fact> = ret2.iter().map(|t| dec.fact(&r, t)).collect();
        ret2.sort();
        let store2 = store_of(&r, dec);
        Obs { ret1, store1, ret2, store2 }
    })
}

// ---------------------------------------------------------------------------------------------
// oracle glue

pub struct Expect {
    pub model: BTreeSet<Fact>,
    pub max_stage: u32,
    /// a numeric filter met a non-numeric binding and the two readings (type error / read as 0)
    /// give different models: the statement does not fix the result, the case is not judged
    pub open: bool,
}

pub fn expect(rules: &[Rule], facts: &[Fact], sy: &Symbols) -> Result<Expect, String> {
    let m1 = rd::least_model(rules, facts, sy, NonNumeric::TypeError)?;
    let max_stage = m1.values().copied().max().unwrap_or(0);
    let model: BTreeSet<Fact> = m1.into_keys().collect();
    let mut open = false;
    if rules.iter().any(|r| r.filters.iter().any(|f| matches!(f.rhs, Rhs::Num(_)))) {
        open = rd::model_set(rules, facts, sy, NonNumeric::Zero)? != model;
    }
    Ok(Expect { model, max_stage, open })
}

fn facts_str(fs: impl IntoIterator<Item = Fact>, sy: &Symbols) -> String {
    let all: Vec<Fact> = fs.into_iter().collect();
    let mut v: Vec<String> = all
        .iter()
        .take(40)
        .map(|f| if f.iter().any(|s| *s == FOREIGN) { format!("<foreign term in {:?}>", f) } else { sy.fact_str(f) })
        .collect();
    if all.len() > 40 {
        v.push(format!("... {} more", all.len() - 40));
    }
    format!("[{}]", v.join(", "))
}

pub fn case_json(rules: &[Rule], facts: &[Fact], facts_first: bool, strat: Strat, sy: &Symbols) -> Value {
    if let Some(n) = large_n_of(facts, sy) {
        // the generated large input is named by its size, not listed
        return json!({
            "rules": rules.iter().map(|r| rd::rule_str(r, sy)).collect::<Vec<_>>(),
            "large_input_n": n,
            "facts_first": facts_first,
            "strategy": strat.name(),
        });
    }
    json!({
        "rules": rules.iter().map(|r| rd::rule_str(r, sy)).collect::<Vec<_>>(),
        "facts": facts.iter().map(|f| sy.fact_str(f)).collect::<Vec<_>>(),
        "facts_first": facts_first,
        "strategy": strat.name(),
    })
}

// ---------------------------------------------------------------------------------------------
// H: large generated inputs. perform_hash_join_for_rules splits the pre-filtered triples of a premise
// into rayon chunks of max(len / threads, 1000): below 1001 matching triples every join is one chunk.
// Input of size n: chain p(s_i,m_i), q(m_i,o_i) for i < n, a star p(h,s_i) for i < n and a
// self-loop p(s_i,s_i) for even i (so p has 2n + ceil(n/2) facts, q has n).

pub const LARGE_RULES: [&str; 8] = [
    "r(?x,?z) :- p(?x,?y), q(?y,?z)",
    "q(?x,?y) :- p(?x,?y)",
    "q(?x,?x) :- p(?x,?x)",
    "r(?x,?y) :- ?w(?x,?y)",
    // three premises, every pair of which shares a variable: the semi-naive strategies join the premises
    // in list order after the delta-fed one, and a premise that shares no variable with the ones before
    // it is joined as a cross product (a chain p,p,q at this size builds 15 million bindings)
    "r(?x,?z) :- p(?x,?y), q(?y,?z), p(?x,?x)",
    "r(?x,?y) :- p(?x,?y), p(?x,?y)",
    "q(?x,?z) :- p(?x,?y), q(?y,?z)",
    "r(?y,?x), q(?x,?y) :- q(?x,?y)",
];

pub fn large_symbols(n: usize) -> Symbols {
    let mut sy = symbols();
    sy.names.push("h".to_string());
    for pre in ["s", "m", "o"] {
        for i in 0..n {
            sy.names.push(format!("{}{}", pre, i));
        }
    }
    sy
}

pub fn large_facts(n: usize, sy: &Symbols) -> Vec<Fact> {
    let base = symbols().names.len();
    let h = base as Sym;
    let s = |i: usize| (base + 1 + i) as Sym;
    let m = |i: usize| (base + 1 + n + i) as Sym;
    let o = |i: usize| (base + 1 + 2 * n + i) as Sym;
    let (p, q) = (sy.sym("p"), sy.sym("q"));
    let mut v = Vec::with_capacity(4 * n);
    for i in 0..n {
        v.push([s(i), p, m(i)]);
        v.push([m(i), q, o(i)]);
        v.push([h, p, s(i)]);
        if i % 2 == 0 {
            v.push([s(i), p, s(i)]);
        }
    }
    debug_assert!(sy.name(h) == "h" && sy.name(s(0)) == "s0" && sy.name(o(n - 1)) == format!("o{}", n - 1));
    v
}

/// Some(n) iff `facts` is the generated large input of size n over `sy`
fn large_n_of(facts: &[Fact], sy: &Symbols) -> Option<usize> {
    if facts.len() < 1000 {
        return None;
    }
    let base = symbols().names.len();
    if sy.names.len() <= base + 1 || (sy.names.len() - base - 1) % 3 != 0 {
        return None;
    }
    let n = (sy.names.len() - base - 1) / 3;
    if facts.len() == 3 * n + (n + 1) / 2 {
        Some(n)
    } else {
        None
    }
}

fn structural_tags(f: &Features, nrules: usize, strat: Strat) -> Vec<String> {
    let mut t = vec![format!("strategy={}", strat.name()), format!("rules={}", nrules)];
    let mut add = |b: bool, s: &str| {
        if b {
            t.push(s.to_string())
        }
    };
    add(f.has_3plus, "program_has_rule_with_3plus_premises");
    add(f.has_filter, "program_has_filter");
    add(f.has_varpred_premise, "program_has_variable_predicate_premise");
    add(f.has_negation, "program_has_negated_atom");
    add(f.neg_conclusion_consumed, "program_reads_conclusion_of_negated_rule");
    add(f.recursive, "program_recursive");
    add(f.has_4plus, "program_has_rule_with_4plus_premises");
    add(f.has_2plus_negated_atoms, "program_has_rule_with_2plus_negated_atoms");
    add(f.has_ground_negated_atom, "program_has_ground_negated_atom");
    add(f.has_filter_and_negation, "program_has_rule_with_filter_and_negated_atom");
    add(f.numeric_filter_on_subject, "program_has_numeric_filter_on_subject_variable");
    t
}

/// Compare one strategy's observation with the oracle; record failures. Returns true if it agreed.
#[allow(clippy::too_many_arguments)]
fn judge(out: &mut ShardOut, rules: &[Rule], facts: &[Fact], facts_first: bool, strat: Strat, exp: &Expect, feats: &Features, sy: &Symbols, dec: &Decoder) -> bool {
    let obs = run_strategy(rules, facts, facts_first, strat, sy, dec);
    let problems = problems_of(&obs, facts, exp, sy);
    if let Ok(o) = &obs {
        // counted, not judged: is the returned vector duplicate-free and equal to what the run added?
        let input: BTreeSet<Fact> = facts.iter().cloned().collect();
        let as_set: BTreeSet<Fact> = o.ret1.iter().cloned().collect();
        if as_set.len() != o.ret1.len() {
            out.count("returned_vector_with_duplicates", 1);
        }
        let added: BTreeSet<Fact> = o.store1.difference(&input).cloned().collect();
        if as_set != added {
            out.count("returned_vector_differs_from_added_facts", 1);
        }
    }
    if problems.is_empty() {
        return true;
    }
    // Re-execute. The harness side is a pure function of the case; the subject iterates hash maps with
    // a per-process random state (the store hands its facts out in that order), so a defective strategy
    // may give a different wrong store on the next run. A failing observation violates the property
    // whether or not the next run repeats it; the variation is recorded as a tag (never part of a
    // known finding's scope).
    let again = run_strategy(rules, facts, facts_first, strat, sy, dec);
    let varies = again != obs;
    if varies {
        out.count("failing_runs_whose_result_varies_between_runs", 1);
    }
    report(out, rules, facts, facts_first, strat, &obs, problems, varies, false, exp, feats, sy);
    false
}

/// record the problems of one failing observation. `stable_only` (replay of a case whose result varies
/// between runs): one failure, without the tags that describe the particular wrong store observed.
#[allow(clippy::too_many_arguments)]
fn report(out: &mut ShardOut, rules: &[Rule], facts: &[Fact], facts_first: bool, strat: Strat, obs: &Result<Obs, String>, problems: Vec<(&'static str, String, Vec<String>)>, varies: bool, stable_only: bool, exp: &Expect, feats: &Features, sy: &Symbols) {
    // scope: if the first run's store is wrong, say which ignored component would explain it exactly;
    // the second-run symptoms of the same execution inherit that scope
    let mut scope: Vec<String> = Vec::new();
    if let Ok(o) = obs {
        if exp.model == o.store1 {
            if !stable_only {
                scope.push("first_run_store_correct".into());
            }
        } else {
            if !stable_only {
                scope.push("first_run_store_differs".into());
            }
            // tags: the components of every inclusion-minimal explanation (a failure is in the scope
            // of "component X ignored" iff some minimal explanation needs X)
            let expl = diagnose(rules, facts, &o.store1, feats, sy);
            if expl.is_empty() {
                scope.push("explained_by=nothing".into());
            }
            for set in &expl {
                scope.extend(set.iter().map(|t| t.tag().to_string()));
            }
        }
    }
    if varies {
        scope.push("result_varies_between_runs".into());
    }
    for (symptom, detail, extra_tags) in problems {
        let mut tags = structural_tags(feats, rules.len(), strat);
        if facts.len() > 1000 {
            tags.push("input_over_1000_facts".into());
        }
        if !stable_only {
            tags.extend(extra_tags);
        }
        tags.extend(scope.iter().cloned());
        out.fail(case_json(rules, facts, facts_first, strat, sy), symptom, detail, tags);
        if stable_only {
            break;
        }
    }
}

fn problems_of(obs: &Result<Obs, String>, _facts: &[Fact], exp: &Expect, sy: &Symbols) -> Vec<(&'static str, String, Vec<String>)> {
    let mut v = Vec::new();
    let obs = match obs {
        Err(msg) => {
            v.push(("panic", msg.clone(), vec![]));
            return v;
        }
        Ok(o) => o,
    };
    let model = &exp.model;
    if *model != obs.store1 {
        let missing: Vec<Fact> = model.difference(&obs.store1).cloned().collect();
        let extra: Vec<Fact> = obs.store1.difference(model).cloned().collect();
        let diff = match (missing.is_empty(), extra.is_empty()) {
            (false, true) => "diff=missing_only",
            (true, false) => "diff=extra_only",
            _ => "diff=missing_and_extra",
        };
        let mut tags = vec![diff.to_string()];
        if extra.iter().any(|f| f.iter().any(|s| *s == FOREIGN)) {
            tags.push("foreign_term_in_store".into());
        }
        v.push((
            "store_differs_from_least_model",
            format!("after the first run the store lacks {} and has underivable {}; least model = {}", facts_str(missing, sy), facts_str(extra, sy), facts_str(model.iter().cloned(), sy)),
            tags,
        ));
    }
    if v.is_empty() {
        // "every derived fact has a derivation": whatever the call reports as derived must be in the model
        let bogus: Vec<Fact> = obs.ret1.iter().filter(|f| !model.contains(*f)).cloned().collect();
        if !bogus.is_empty() {
            v.push(("reported_fact_without_derivation", format!("first run returned {} which are not in the least model", facts_str(bogus, sy)), vec![]));
        }
    }
    if !obs.ret2.is_empty() {
        v.push(("second_run_derives", format!("second run returned {}", facts_str(obs.ret2.iter().cloned(), sy)), vec![]));
    }
    if obs.store2 != obs.store1 {
        let added: Vec<Fact> = obs.store2.difference(&obs.store1).cloned().collect();
        let removed: Vec<Fact> = obs.store1.difference(&obs.store2).cloned().collect();
        v.push(("second_run_changes_store", format!("second run added {} and removed {}", facts_str(added, sy), facts_str(removed, sy)), vec![]));
    }
    v
}

// ---------------------------------------------------------------------------------------------
// diagnosis of a wrong store: which syntactic component of the program would the run have to
// ignore for the reference to reproduce exactly the observed store? (generic hypotheses, computed
// from the case and the observation; used only to scope failure tags narrowly)

#[derive(Clone, Copy, PartialEq, Eq, Debug, PartialOrd, Ord)]
pub enum Toggle {
    NegIgnored,
    FiltersIgnored,
    Rules3PlusDropped,
    ConstPredTrigger,
    SingleNegPass,
}
impl Toggle {
    pub fn tag(&self) -> &'static str {
        match self {
            Toggle::NegIgnored => "explained_by=negated_atoms_ignored",
            Toggle::FiltersIgnored => "explained_by=filters_ignored",
            Toggle::Rules3PlusDropped => "explained_by=rules_with_3plus_premises_dropped",
            Toggle::ConstPredTrigger => "explained_by=rules_triggered_only_by_new_facts_with_a_constant_premise_predicate",
            Toggle::SingleNegPass => "explained_by=single_pass_over_negated_rules_after_positive_fixpoint",
        }
    }
}

/// the store the reference produces when the components named in `set` are ignored
pub fn emulate(rules: &[Rule], facts: &[Fact], set: &[Toggle], sy: &Symbols, nn: NonNumeric) -> Option<BTreeSet<Fact>> {
    let has = |t: Toggle| set.contains(&t);
    if has(Toggle::NegIgnored) && has(Toggle::SingleNegPass) {
        return None;
    }
    let mut rs: Vec<Rule> = Vec::new();
    for r in rules {
        if has(Toggle::Rules3PlusDropped) && r.pos.len() >= 3 {
            continue;
        }
        let mut r = r.clone();
        if has(Toggle::FiltersIgnored) {
            r.filters.clear();
        }
        if has(Toggle::NegIgnored) {
            r.neg.clear();
        }
        rs.push(r);
    }
    // semi-naive rounds in which a rule is looked at only for new facts whose predicate is a
    // constant predicate of one of its premises (positive programs only)
    let trigger_eval = |rs: &[Rule], start: &BTreeSet<Fact>| -> BTreeSet<Fact> {
        let mut all = start.clone();
        let mut delta = start.clone();
        loop {
            let mut new: BTreeSet<Fact> = BTreeSet::new();
            for r in rs {
                let cps: Vec<Sym> = r.pos.iter().filter_map(|a| if let T::C(c) = a[1] { Some(c) } else { None }).collect();
                for inst in rd::instances(r, &all, sy, nn) {
                    if inst.body.iter().any(|f| delta.contains(f) && cps.contains(&f[1])) {
                        for h in inst.heads {
                            if !all.contains(&h) {
                                new.insert(h);
                            }
                        }
                    }
                }
            }
            if new.is_empty() {
                return all;
            }
            all.extend(new.iter().cloned());
            delta = new;
        }
    };
    let input: BTreeSet<Fact> = facts.iter().cloned().collect();
    if has(Toggle::SingleNegPass) {
        let pos: Vec<Rule> = rs.iter().filter(|r| r.neg.is_empty()).cloned().collect();
        let m0 = if has(Toggle::ConstPredTrigger) { trigger_eval(&pos, &input) } else { rd::model_set(&pos, facts, sy, nn).ok()? };
        let mut m = m0.clone();
        for r in rs.iter().filter(|r| !r.neg.is_empty()) {
            for inst in rd::instances(r, &m0, sy, nn) {
                if inst.neg.iter().all(|g| !m0.contains(g)) {
                    m.extend(inst.heads);
                }
            }
        }
        return Some(m);
    }
    if has(Toggle::ConstPredTrigger) {
        if rs.iter().any(|r| !r.neg.is_empty()) {
            return None;
        }
        return Some(trigger_eval(&rs, &input));
    }
    rd::model_set(&rs, facts, sy, nn).ok()
}

/// every inclusion-minimal set of ignored components that reproduces `observed` exactly (empty = no explanation)
pub fn diagnose(rules: &[Rule], facts: &[Fact], observed: &BTreeSet<Fact>, feats: &Features, sy: &Symbols) -> Vec<Vec<Toggle>> {
    let mut applicable: Vec<Toggle> = Vec::new();
    if feats.has_negation {
        applicable.push(Toggle::NegIgnored);
        applicable.push(Toggle::SingleNegPass);
    }
    if feats.has_filter {
        applicable.push(Toggle::FiltersIgnored);
    }
    if feats.has_3plus {
        applicable.push(Toggle::Rules3PlusDropped);
    }
    if feats.has_varpred_premise {
        applicable.push(Toggle::ConstPredTrigger);
    }
    let n = applicable.len();
    let mut masks: Vec<u32> = (1..(1u32 << n)).collect();
    masks.sort_by_key(|m| (m.count_ones(), *m));
    let mut found: Vec<u32> = Vec::new();
    for m in masks {
        if found.iter().any(|f| m & f == *f) {
            continue; // a subset already explains it
        }
        let set: Vec<Toggle> = (0..n).filter(|i| m & (1 << i) != 0).map(|i| applicable[i]).collect();
        // cases in which the two readings of a filter on a non-numeric binding differ are not judged,
        // but a program with some filters ignored may still meet one: try both
        for nn in [NonNumeric::TypeError, NonNumeric::Zero] {
            if emulate(rules, facts, &set, sy, nn).as_ref() == Some(observed) {
                found.push(m);
                break;
            }
            if !feats.has_numeric_filter || set.contains(&Toggle::FiltersIgnored) {
                break;
            }
        }
    }
    found.iter().map(|m| (0..n).filter(|i| m & (1 << i) != 0).map(|i| applicable[i]).collect()).collect()
}

// ---------------------------------------------------------------------------------------------
// run / replay

fn run(ctx: &Ctx) -> ShardOut {
    let mut out = ShardOut::default();
    let sy = symbols();
    let dec = Decoder::new(&sy);
    let (progs, excluded_pairs) = programs(&sy, ctx.thorough());
    let curated = curated_sets(&sy);
    if ctx.shard == 0 {
        out.count("programs", progs.len() as u64);
        out.count("core_pairs_excluded_more_than_one_stratum", excluded_pairs);
        let mut fam: BTreeMap<&str, u64> = BTreeMap::new();
        for p in &progs {
            *fam.entry(p.family).or_insert(0) += 1;
        }
        for (k, v) in fam {
            out.count(&format!("programs_{}", k), v);
        }
    }
    let layouts: &[bool] = if ctx.thorough() { &[false, true] } else { &[false] };
    let mut idx: u64 = 0;
    let mut completed_programs = 0u64;
    'outer: for (pi, prog) in progs.iter().enumerate() {
        // shard by program: input generation (symmetry reduction) is the expensive part of the walk
        idx += 1;
        if !ctx.mine(idx) {
            continue;
        }
        let feats = features(&prog.rules);
        let inputs = inputs_for(prog, &sy, &curated, ctx.thorough());
        for facts in &inputs {
            if ctx.expired() {
                out.capped.push(format!("wall-clock cap: shard {} stopped at program {} of {} ({} of its programs completed)", ctx.shard, pi, progs.len(), completed_programs));
                break 'outer;
            }
            let exp = match expect(&prog.rules, facts, &sy) {
                Ok(e) => e,
                Err(e) => {
                    out.machinery_errors.push(format!("reference rejected a generated program: {}", e));
                    continue;
                }
            };
            if exp.open {
                out.count("cases_not_judged_filter_on_non_numeric_binding", 1);
                continue;
            }
            out.count(&format!("cases_{}", prog.family), 1);
            let input: BTreeSet<Fact> = facts.iter().cloned().collect();
            for &ff in layouts {
                out.evaluations += 1;
                let mut all_ok = true;
                for s in STRATS {
                    out.count("strategy_runs", 2);
                    all_ok &= judge(&mut out, &prog.rules, facts, ff, s, &exp, &feats, &sy, &dec);
                }
                if !all_ok {
                    out.count("cases_with_a_failing_strategy", 1);
                }
            }
            // vacuity counters
            let m = &exp.model;
            let derives = m.len() > input.len();
            if derives {
                let mut fs: Vec<Fact> = input.iter().cloned().collect();
                fs.sort();
                out.nontrivial(&(prog.rules.iter().map(|r| rd::rule_str(r, &sy)).collect::<Vec<_>>(), fs));
                out.count("cases_deriving_something", 1);
            }
            out.outcome(m);
            if exp.max_stage >= 2 {
                out.count("cases_needing_2plus_rounds", 1);
            }
            out.max("max_rounds", exp.max_stage as u64);
            out.max("max_model_size", m.len() as u64);
            if feats.recursive {
                out.count("cases_recursive_program", 1);
                if derives && exp.max_stage >= 2 {
                    out.count("cases_recursive_program_multi_round", 1);
                }
            }
            if feats.has_negation {
                out.count("cases_program_with_negation", 1);
                let pos_only: Vec<Rule> = prog.rules.iter().map(|r| Rule { neg: vec![], ..r.clone() }).collect();
                if rd::model_set(&pos_only, facts, &sy, NonNumeric::TypeError).ok().as_ref() != Some(m) {
                    out.count("cases_negation_blocks_a_derivation", 1);
                }
            }
            if feats.has_filter {
                out.count("cases_program_with_filter", 1);
                let nof: Vec<Rule> = prog.rules.iter().map(|r| Rule { filters: vec![], ..r.clone() }).collect();
                if rd::model_set(&nof, facts, &sy, NonNumeric::TypeError).ok().as_ref() != Some(m) {
                    out.count("cases_filter_blocks_a_derivation", 1);
                }
            }
            if input.iter().any(|f| m.contains(f)) && derives {
                // an input fact that is also derivable by a rule from the other inputs
                let others_derive = input.iter().any(|f| {
                    let rest: Vec<Fact> = input.iter().filter(|g| *g != f).cloned().collect();
                    rd::model_set(&prog.rules, &rest, &sy, NonNumeric::TypeError).map(|mm| mm.contains(f)).unwrap_or(false)
                });
                if others_derive {
                    out.count("cases_input_fact_also_derivable", 1);
                }
            }
            if derives && exp.max_stage >= 2 && out.counters.get("cases_needing_2plus_rounds").copied().unwrap_or(0) % 499 == 1 {
                out.sample(json!({"rules": prog.rules.iter().map(|r| rd::rule_str(r, &sy)).collect::<Vec<_>>(), "facts": facts.iter().map(|f| sy.fact_str(f)).collect::<Vec<_>>(), "least_model": m.iter().map(|f| sy.fact_str(f)).collect::<Vec<_>>(), "rounds": exp.max_stage}));
            }
        }
        completed_programs += 1;
    }

    // H: large generated inputs (one unit of the walk per (size, rule))
    let sizes: &[usize] = if ctx.thorough() { &[1000, 1001, 1500, 2001, 2500] } else { &[1001, 2001, 2500] };
    let threads: usize = std::env::var("RAYON_NUM_THREADS").ok().and_then(|v| v.parse().ok()).filter(|t| *t > 0).unwrap_or_else(|| std::thread::available_parallelism().map(|n| n.get()).unwrap_or(1));
    'large: for &n in sizes {
        let mut built: Option<(Symbols, Decoder, Vec<Fact>)> = None;
        for text in LARGE_RULES.iter() {
            idx += 1;
            if !ctx.mine(idx) {
                continue;
            }
            if ctx.expired() {
                out.capped.push(format!("wall-clock cap: shard {} stopped in the large-input family at size {}", ctx.shard, n));
                break 'large;
            }
            let (lsy, ldec, facts) = built.get_or_insert_with(|| {
                let lsy = large_symbols(n);
                let ldec = Decoder::new(&lsy);
                let facts = large_facts(n, &lsy);
                (lsy, ldec, facts)
            });
            let rules = match rd::parse_rule(text, lsy) {
                Ok(r) => vec![r],
                Err(e) => {
                    out.machinery_errors.push(format!("large-input rule does not parse: {}", e));
                    continue;
                }
            };
            let feats = features(&rules);
            let exp = match expect(&rules, facts, lsy) {
                Ok(e) => e,
                Err(e) => {
                    out.machinery_errors.push(format!("reference rejected a large-input program: {}", e));
                    continue;
                }
            };
            out.evaluations += 1;
            out.count("cases_H_large_inputs", 1);
            let mut all_ok = true;
            for s in STRATS {
                // the parallel strategy does not go through perform_hash_join_for_rules (it matches pattern by
                // pattern, quadratic in the input): thorough tier only, sizes <= 1500
                if s == Strat::Parallel && (!ctx.thorough() || n > 1500) {
                    out.count("large_input_runs_without_parallel_strategy", 1);
                    continue;
                }
                out.count("strategy_runs", 2);
                out.count("large_input_strategy_runs", 2);
                all_ok &= judge(&mut out, &rules, facts, false, s, &exp, &feats, lsy, ldec);
            }
            if !all_ok {
                out.count("cases_with_a_failing_strategy", 1);
            }
            // vacuity: how many chunks does the first join of each premise see (chunk = max(len/threads, 1000))
            let input: BTreeSet<Fact> = facts.iter().cloned().collect();
            let mut max_chunks = 0u64;
            let mut uneven = false;
            for a in &rules[0].pos {
                let probe = Rule { pos: vec![*a], heads: vec![*a], ..Default::default() };
                let len = rd::instances(&probe, &input, lsy, NonNumeric::TypeError).len();
                if len > 0 {
                    let chunk = std::cmp::max(len / threads.max(1), 1000);
                    max_chunks = max_chunks.max(((len + chunk - 1) / chunk) as u64);
                    uneven |= len > chunk && len % chunk != 0;
                }
            }
            out.max("max_large_input_join_chunks", max_chunks);
            if max_chunks >= 2 {
                out.count("large_input_cases_with_a_join_split_into_2plus_chunks", 1);
            }
            if uneven {
                out.count("large_input_cases_with_a_short_last_chunk", 1);
            }
            let derived = exp.model.len() - input.len();
            out.max("max_large_input_derived_facts", derived as u64);
            out.max("max_large_input_rounds", exp.max_stage as u64);
            if derived > 1000 {
                out.count("large_input_cases_deriving_1001plus_facts", 1);
            }
            if derived > 0 {
                out.nontrivial(&(text.to_string(), n));
                out.count("cases_deriving_something", 1);
            }
            out.outcome(&exp.model);
        }
    }
    out
}

fn strat_by_name(n: &str) -> Option<Strat> {
    STRATS.iter().copied().find(|s| s.name() == n)
}

fn replay(_ctx: &Ctx, case: &Value) -> ShardOut {
    let mut out = ShardOut::default();
    // a case of the large-input family names its input by size
    let large_n = case["large_input_n"].as_u64().map(|n| n as usize).filter(|n| *n >= 1 && *n <= 10_000);
    let sy = match large_n {
        Some(n) => large_symbols(n),
        None => symbols(),
    };
    let dec = Decoder::new(&sy);
    let strs = |k: &str| -> Vec<String> { case[k].as_array().map(|a| a.iter().filter_map(|v| v.as_str().map(|s| s.to_string())).collect()).unwrap_or_default() };
    let rules: Result<Vec<Rule>, String> = strs("rules").iter().map(|t| rd::parse_rule(t, &sy)).collect();
    let facts: Result<Vec<Fact>, String> = match large_n {
        Some(n) => Ok(large_facts(n, &sy)),
        None => strs("facts").iter().map(|t| rd::parse_fact(t, &sy)).collect(),
    };
    let (rules, facts) = match (rules, facts) {
        (Ok(r), Ok(f)) => (r, f),
        (r, f) => {
            out.machinery_errors.push(format!("cannot parse replay case: {:?} {:?}", r.err(), f.err()));
            return out;
        }
    };
    let ff = case["facts_first"].as_bool().unwrap_or(false);
    let strats: Vec<Strat> = match case["strategy"].as_str().and_then(strat_by_name) {
        Some(s) => vec![s],
        None => STRATS.to_vec(),
    };
    let exp = match expect(&rules, &facts, &sy) {
        Ok(e) => e,
        Err(e) => {
            out.machinery_errors.push(format!("reference rejects the program: {}", e));
            return out;
        }
    };
    if exp.open {
        out.count("cases_not_judged_filter_on_non_numeric_binding", 1);
        out.evaluations += 1;
        return out;
    }
    let feats = features(&rules);
    for s in strats {
        // a defective strategy may depend on the store's (random) iteration order: 8 executions; if they
        // differ, the first failing one is reported with the run-independent tags only
        let reps = if large_n.is_some() { 3 } else { 8 };
        let obs: Vec<Result<Obs, String>> = (0..reps).map(|_| run_strategy(&rules, &facts, ff, s, &sy, &dec)).collect();
        out.evaluations += obs.len() as u64;
        let varies = obs.iter().any(|o| *o != obs[0]);
        for o in &obs {
            let problems = problems_of(o, &facts, &exp, &sy);
            if !problems.is_empty() {
                report(&mut out, &rules, &facts, ff, s, o, problems, varies, varies, &exp, &feats, &sy);
                break;
            }
        }
    }
    out
}
