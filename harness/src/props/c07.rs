//! C07 — decision diagrams exact, canonical, interruption-safe.
//! Part A: exhaustive operand pairs over 3 variables (6 introduction orders).
//! Part B: explicit-state tree search over operation sequences with late variable introduction.
//! Part C: fault enumeration over every checkpoint / node budget of every budgeted operation,
//!         then continued use of the same manager.
//! Reference: truth tables (reference/boolfn.rs). Handles are never compared across managers
//! (node numbering depends on HashMap iteration order inside `compress`); within one manager
//! the tracker enforces "equal tables <=> equal handles" over every handle ever returned.
use crate::infra::{guarded, Ctx, PropDef, ShardOut};
use crate::reference::boolfn::{self as bf, Table, B3, B6, BV};
use serde_json::{json, Value};
use shared::diff_sdd::wmc_gradient;
use shared::sdd::{BoolOp, SddBudgetError, SddId, SddManager, SddOperationBudget, VarKind};
use std::collections::HashMap;

pub const DEF: PropDef = PropDef {
    id: "C07",
    level: "model_checking",
    rule: "Part A (counters a_*): for each of the 6 orders of introducing 3 variables all 256 functions are built from minterms in one real SddManager, then every one of the 256x256x{And,Or} operand pairs is applied and must return the handle already denoting that truth table (canonicity => exactness); per function: negate, wmc under 3 weight vectors (one with 0/1 weights), enumerate_models, wmc_gradient; exactly_one over all 16 ordered lists of distinct variables declared ExclusiveGroup with (p,1.0) weights, and f AND exactly_one(S) for all 256 f (handle, wmc, gradient). Part B (states/transitions/traces): plain tree search without de-duplication, every node re-executed from a fresh manager, over op sequences {introduce next variable, literal, apply(h_i,h_j,And|Or), negate(h_i), exactly_one(first k)} from start states with n0 variables already introduced and two seed handles (exactly_one of all, (x_old AND x_new) OR NOT x_mid); three alphabets: full (all literals, all ordered pairs, all k), core (literals of newest+oldest variable, pairs i<j, exactly_one of first 2 / of all), mini (literals of newest variable, pairs i<j, negate of newest handle, exactly_one of all); at every leaf additionally a sweep of every op of the (core or full) alphabet on the same manager, so sequences are one longer than the tree depth. quick: universe 6: full depth 2+1 and core depth 3+1 from n0=0..5, mini depth 4+1 from n0=1,3,5. thorough: universe 6 full depth 3+1 (n0=0..5), universe 8 full 2+1 and core 3+1 (n0=0..7), universe 8 mini 4+1 (n0=1,3,5,7), universe 6 mini 5+1 (n0=1,3,5). Every handle carries its truth table over the fixed universe (later variables = don't care); after every op every pool handle is re-checked (enumerate_models, wmc), the result's gradient is checked at each node, and the tracker invariant equal table <=> equal handle must hold over every handle the manager ever returned. Part C (counters c_*): for every budgeted operation (try_literal: 18 cases; try_negate: all 256 functions; try_exactly_one: lists over 1..4 (thorough 6) variables, fresh or with literals present; try_apply: all 16x16x2 pairs over 2 variables and over 3 variables quick = NPN-representative x NPN-representative plus 6 diverse functions squared, thorough = all 256x256x2) operands are prepared sparsely from minterms in a fresh manager, the checkpoints c of an uninterrupted run are counted, then for every k in [0,c+2] a fresh identically prepared manager runs the operation with a deadline callback that answers false from its k-th call on, and for every node budget n in {0} + [nodes before, nodes after + 1]; the result must be Err or Ok(handle denoting the expected table, canonical in that manager); after EVERY run the same manager is used unbudgeted: the same operation, a second route to the same function (De Morgan / double negation / reversed list), the dual apply, (heavy mode) all ordered pairs of the key handles under And/Or and a rebuild of every key function from minterms in the other association order, and a re-check of every tracked handle (enumerate_models + wmc). Bound 2: after every first exhaustion (each k, each n) a second budgeted operation (the same again; thorough also the dual apply) is interrupted at every k2 and every n2, then the manager is used again. Each operation's procedure runs in a forked child so that a stack overflow of a corrupted diagram is a recorded failure. Round-3 additions. Part B: (i) alphabets full and core also contain exactly_one over the k NEWEST variables (lists containing the newest variable but not the oldest); (ii) a fourth alphabet 'budget' (counters b_try_*): introduce next variable, literals of the newest variable, unbudgeted apply of pool pairs i<j, negate of the newest handle, exactly_one(all), exactly_one(2 newest) and the budgeted twins try_apply(i<j, And|Or), try_negate(newest handle), try_exactly_one(all), each under the interruption selectors D(k) = deadline callback false from its k-th call (tree: k in {2,12}; leaf sweep: {1,4,16,64,100000}) and N(j) = node budget of the current node count + j (tree: j in {0,2}; sweep: {0,1,3}; sweep also swapped operand order and try_negate of every handle); Err leaves the pool unchanged, Ok(h) must be the canonical handle of the formula (observed, models, wmc) and is deliberately not added to the pool so the tree shape does not depend on where the subject gives up; Err without the deadline having answered false under a D selector = spurious_exhaustion; after every op the pool is re-checked, so an exhaustion is followed by variable introduction (vtree growth), exactly_one, further budgeted and unbudgeted operations on the same manager, with operands over up to 6 (thorough 8) variables built across introductions; quick: universe 6 depth 2+1 from n0=1..5 (so: budgeted op, then variable introduction, then every op of the sweep alphabet); thorough: also universe 8 depth 2+1 from n0=3..7, universe 6 depth 3+1 from n0=2,4 and universe 8 depth 3+1 from n0=6. Part C: (iii) sufficiency clause: node budgets n1+1 and 2*n1+64, where n1 is the largest node count any run of the same operation on an identically prepared manager ended with, must give Ok (Err = spurious_exhaustion), also for the second operation of bound 2; (iv) deadline and node budget in one budget (4 combinations per operation); (v) try_apply/try_negate under the five other introduction orders of 3 variables (the 6 diverse functions squared; thorough also NPN x NPN); (vi) try_apply (every ordered pair, And|Or) and try_negate over a family of 6 operands on 4 and on 5 variables (parity, majority, x0x1|x2x3(x4), exactly-one, oldest xor newest, implication chain) under ascending and descending introduction order, every k and every n as before (quick: 4 variables ascending = unordered pairs x And|Or, 4 variables descending = unordered pairs x And, 5 variables ascending = 4 pairs; thorough: every ordered pair, both ops, both orders); (vii) try_exactly_one over every ordered list of <=4 distinct variables out of 4 (thorough also out of 5): fresh, with the diagram of the list's tail already built (inner caches hit), and with the listed variables declared ExclusiveGroup (p,1.0) during the call (result wmc and gradient checked, then re-declared Independent), under the ascending and a permuted introduction order. Non-trivial: A = pair of distinct non-complementary non-constant operands whose result differs from both, key (a,b,op); B = op sequence (keys only for depth <= 3, all counted in b_nontrivial_nodes) whose last op yields a non-constant function depending on a variable introduced inside the sequence after a handle existed and on an older variable; C = operation for which at least one interruption strictly inside (k >= 1, or a node budget that let at least one allocation happen / was above the initial count) returned Err and the manager was then used again, key (operation, operands); B budget alphabet = sequence (depth <= 3) in which an earlier budgeted op returned Err after >= 1 passed checkpoint or >= 1 allocated node and the same manager was then used by the last op / the sweep, key (universe, n0, ops).",
    assumptions: &[
        "reference model: truth tables over a fixed universe, WMC and dWMC/dp by direct summation (harness/src/reference/boolfn.rs)",
        "WMC/gradient are compared only where the truth-table sum is unambiguous: Independent variables with pos+neg = 1 (as registered by ensure_variable), and ExclusiveGroup variables (p,1.0) only for functions of the form f AND exactly_one(S) in which every model fixes every group variable; the un-smoothed WMC of other functions under (p,1.0) weights is left open by the statement and not checked",
        "float tolerance 1e-9",
        "handles are compared only inside one manager; across managers only denoted functions are compared (node numbering depends on HashMap iteration order in compress)",
        "a budgeted operation returning Err although the deadline callback never answered false and the node budget was usize::MAX counts as a violation (nothing was exhausted)",
        "likewise Err under a node budget strictly larger than the node count the manager holds after the same operation ran to completion on an identically prepared manager (deadline never false): under every reading of 'node budget n' (total nodes, inclusive or exclusive, or newly allocated nodes) such a budget is not exhausted; the budget equal to that count is left open",
        "part B budgeted operations: an Ok result is checked but not pooled (the search tree must not depend on the subject's choice of where to give up); which interruptions end in Err is not prescribed, the counters b_try_err / b_try_interior_err show how many did",
        "constants TRUE/FALSE produced by an op are checked but not added to the part B handle pool; apply(h_i,h_i) is not part of the part B alphabet (covered by the part A diagonal)",
    ],
    run,
    replay,
    cap_s: (45, 780),
    shards: 0,
};

const EPS: f64 = 1e-9;

// ---------------------------------------------------------------------------------------------
// Session: one real manager + the reference bookkeeping for it
// ---------------------------------------------------------------------------------------------

#[derive(Debug, Clone)]
pub struct Fail {
    pub symptom: &'static str,
    pub detail: String,
}
type R<X> = Result<X, Fail>;
fn fail<X>(symptom: &'static str, detail: String) -> R<X> {
    Err(Fail { symptom, detail })
}

/// add context to a failure lazily (the hot paths must not format strings)
fn ctxf<X>(r: R<X>, f: impl FnOnce() -> String) -> R<X> {
    r.map_err(|e| Fail { symptom: e.symptom, detail: format!("{}: {}", f(), e.detail) })
}

fn bop(and: bool) -> BoolOp {
    if and {
        BoolOp::And
    } else {
        BoolOp::Or
    }
}
fn opname(and: bool) -> &'static str {
    if and {
        "And"
    } else {
        "Or"
    }
}

pub struct Sess<T: Table> {
    pub m: SddManager,
    pub n: usize,
    /// introduced variable ids (= table positions), in introduction order
    pub vars: Vec<u32>,
    /// reference weights per position; (0,1) for positions not introduced (exact: picks one cofactor)
    pub w: Vec<(f64, f64)>,
    pub exclusive: Vec<bool>,
    by_table: HashMap<T, SddId>,
    by_handle: HashMap<SddId, T>,
    pub tracked: Vec<SddId>,
    lit: Vec<[T; 2]>,
}

impl<T: Table> Sess<T> {
    pub fn new(n: usize) -> Self {
        let mut s = Sess {
            m: SddManager::new(),
            n,
            vars: Vec::new(),
            w: vec![(0.0, 1.0); n],
            exclusive: vec![false; n],
            by_table: HashMap::new(),
            by_handle: HashMap::new(),
            tracked: Vec::new(),
            lit: (0..n).map(|i| [bf::literal::<T>(n, i, false), bf::literal::<T>(n, i, true)]).collect(),
        };
        let f: T = bf::constant(n, false);
        let t: T = bf::constant(n, true);
        s.by_table.insert(f.clone(), SddId::FALSE);
        s.by_table.insert(t.clone(), SddId::TRUE);
        s.by_handle.insert(SddId::FALSE, f);
        s.by_handle.insert(SddId::TRUE, t);
        s.tracked.push(SddId::FALSE);
        s.tracked.push(SddId::TRUE);
        s
    }
    pub fn tfalse(&self) -> T {
        bf::constant(self.n, false)
    }
    pub fn ttrue(&self) -> T {
        bf::constant(self.n, true)
    }
    pub fn tlit(&self, var: u32, pol: bool) -> T {
        self.lit[var as usize][pol as usize].clone()
    }
    /// introduce (or re-weight) an Independent variable
    pub fn intro(&mut self, var: u32, p: f64) {
        self.m.ensure_variable(var, p);
        if !self.vars.contains(&var) {
            self.vars.push(var);
        }
        self.w[var as usize] = (p, 1.0 - p);
        self.exclusive[var as usize] = false;
    }
    /// re-declare an introduced variable as a member of an exclusive group with weights (p, 1.0)
    pub fn set_exclusive(&mut self, var: u32, p: f64, group: u32) {
        assert!(self.vars.contains(&var));
        self.m.ensure_variable_weights(var, p, 1.0, VarKind::ExclusiveGroup(group));
        self.w[var as usize] = (p, 1.0);
        self.exclusive[var as usize] = true;
    }
    pub fn table_of(&self, h: SddId) -> Option<&T> {
        self.by_handle.get(&h)
    }
    pub fn handle_of(&self, t: &T) -> Option<SddId> {
        self.by_table.get(t).copied()
    }
    /// Record that the real manager returned `h` for a formula whose truth table is `t`.
    /// Enforces equal tables <=> equal handles over everything seen in this manager.
    /// Returns true when the handle is new.
    pub fn observe(&mut self, h: SddId, t: &T, what: &str) -> R<bool> {
        if let Some(t0) = self.by_handle.get(&h) {
            if t0 != t {
                return fail(
                    "wrong_function",
                    format!("{}: returned {:?}, which denotes {} in this manager, but the formula denotes {}", what, h, t0.hex(), t.hex()),
                );
            }
            return Ok(false);
        }
        if let Some(h0) = self.by_table.get(t) {
            return fail(
                "not_canonical",
                format!("{}: returned new handle {:?} for function {}, which already has handle {:?}", what, h, t.hex(), h0),
            );
        }
        self.by_handle.insert(h, t.clone());
        self.by_table.insert(t.clone(), h);
        self.tracked.push(h);
        Ok(true)
    }
    /// enumerate_models(h) must cover exactly the assignments of `t`
    pub fn denotes(&self, h: SddId, t: &T, what: &str) -> R<()> {
        let cubes = self.m.enumerate_models(h);
        for c in &cubes {
            for &(v, _) in c {
                if !self.vars.contains(&v) {
                    return fail("models_mismatch", format!("{}: enumerate_models({:?}) mentions variable {} which was never introduced", what, h, v));
                }
            }
        }
        // union of the cubes, computed with table operations (and validated like bf::from_cubes)
        let mut got: T = self.tfalse();
        for c in &cubes {
            let mut ct: T = self.ttrue();
            for &(v, p) in c {
                if c.contains(&(v, !p)) {
                    return fail("models_mismatch", format!("{}: enumerate_models({:?}) has a model assigning both polarities to {}: {:?}", what, h, v, c));
                }
                ct = ct.and(&self.lit[v as usize][p as usize]);
            }
            got = got.or(&ct);
        }
        if &got != t {
            return fail("models_mismatch", format!("{}: enumerate_models({:?}) denotes {}, the formula denotes {}", what, h, got.hex(), t.hex()));
        }
        Ok(())
    }
    pub fn wmc_ok(&self, h: SddId, t: &T, what: &str) -> R<()> {
        let got = self.m.wmc(h);
        let exp = bf::wmc(t, &self.w);
        if !((got - exp).abs() <= EPS) {
            return fail("wmc_mismatch", format!("{}: wmc({:?}) = {}, truth-table sum of {} under weights {:?} = {}", what, h, got, t.hex(), self.w, exp));
        }
        Ok(())
    }
    pub fn grad_ok(&mut self, h: SddId, t: &T, what: &str) -> R<()> {
        let g = wmc_gradient(&mut self.m, h);
        for (v, _) in g.iter() {
            if !self.vars.contains(v) {
                return fail("gradient_mismatch", format!("{}: gradient has an entry for variable {} which was never introduced", what, v));
            }
        }
        for &v in &self.vars {
            let got = g.get(&v).copied().unwrap_or(0.0);
            let exp = bf::dwmc(t, &self.w, v as usize, self.exclusive[v as usize]);
            if !((got - exp).abs() <= EPS) {
                return fail(
                    "gradient_mismatch",
                    format!("{}: wmc_gradient({:?})[{}] = {}, direct derivative of {} under weights {:?} = {}", what, h, v, got, t.hex(), self.w, exp),
                );
            }
        }
        // the gradient must leave the weights as they were
        ctxf(self.wmc_ok(h, t, what), || "wmc after wmc_gradient (weights must be restored)".to_string())
    }
    /// observe + denotation + wmc for a freshly returned handle
    pub fn check_new(&mut self, h: SddId, t: &T, what: &str) -> R<bool> {
        let new = self.observe(h, t, what)?;
        self.denotes(h, t, what)?;
        self.wmc_ok(h, t, what)?;
        Ok(new)
    }
    /// every handle ever seen in this manager still denotes its function and has the exact WMC
    pub fn check_all(&self, what: &str) -> R<u64> {
        let mut n = 0;
        for h in &self.tracked {
            let t = &self.by_handle[h];
            self.denotes(*h, t, what)?;
            self.wmc_ok(*h, t, what)?;
            n += 1;
        }
        Ok(n)
    }
    // ---- unbudgeted operations, each observed against the reference ----
    pub fn literal(&mut self, var: u32, pol: bool) -> R<SddId> {
        let h = self.m.literal(var, pol);
        let t = self.tlit(var, pol);
        ctxf(self.observe(h, &t, "literal"), || format!("literal({},{})", var, pol))?;
        Ok(h)
    }
    pub fn apply(&mut self, a: SddId, b: SddId, and: bool) -> R<SddId> {
        let ta = self.by_handle[&a].clone();
        let tb = self.by_handle[&b].clone();
        let t = if and { ta.and(&tb) } else { ta.or(&tb) };
        let h = self.m.apply(a, b, bop(and));
        ctxf(self.observe(h, &t, "apply"), || format!("apply({:?} [{}], {:?} [{}], {})", a, ta.hex(), b, tb.hex(), opname(and)))?;
        Ok(h)
    }
    pub fn negate(&mut self, a: SddId) -> R<SddId> {
        let ta = self.by_handle[&a].clone();
        let h = self.m.negate(a);
        ctxf(self.observe(h, &ta.not(), "negate"), || format!("negate({:?} [{}])", a, ta.hex()))?;
        Ok(h)
    }
    pub fn exactly_one(&mut self, list: &[u32]) -> R<SddId> {
        let pos: Vec<usize> = list.iter().map(|v| *v as usize).collect();
        let t: T = bf::exactly_one(self.n, &pos);
        let h = self.m.exactly_one(list);
        ctxf(self.observe(h, &t, "exactly_one"), || format!("exactly_one({:?})", list))?;
        Ok(h)
    }
    /// cube of minterm `m` over the introduced variables: ((l_a AND l_b) AND l_c), `rev` flips the order
    pub fn cube(&mut self, m: usize, rev: bool) -> R<SddId> {
        let mut vs: Vec<u32> = self.vars.clone();
        vs.sort();
        if rev {
            vs.reverse();
        }
        let mut acc = SddId::TRUE;
        for v in vs {
            let l = self.literal(v, (m >> v) & 1 == 1)?;
            acc = self.apply(acc, l, true)?;
        }
        Ok(acc)
    }
    /// Build the function `t` (which must not depend on positions that were not introduced) as an
    /// OR-chain of minterm cubes over the introduced variables. `rev`: other association order.
    pub fn build(&mut self, t: &T, rev: bool) -> R<SddId> {
        let mut ms: Vec<usize> = Vec::new();
        let intro_mask: usize = self.vars.iter().map(|v| 1usize << v).sum();
        for m in 0..(1usize << self.n) {
            if m & !intro_mask == 0 && t.get(m) {
                ms.push(m);
            }
        }
        if rev {
            ms.reverse();
        }
        let mut acc = SddId::FALSE;
        for m in ms {
            let c = self.cube(m, rev)?;
            acc = self.apply(acc, c, false)?;
        }
        let what = format!("OR of minterm cubes of {}", t.hex());
        self.observe(acc, t, &what)?;
        Ok(acc)
    }
}

fn hs(h: SddId) -> String {
    format!("{:?}", h)
}

/// run a closure that talks to the subject; a panic of the subject is a failure
fn guard<X>(f: impl FnOnce() -> R<X>) -> R<X> {
    match guarded(f) {
        Ok(r) => r,
        Err(msg) => fail("panic", format!("the subject panicked: {}", msg)),
    }
}

// ---------------------------------------------------------------------------------------------
// Part A — all operand pairs over 3 variables
// ---------------------------------------------------------------------------------------------

const ORDERS3: [[u32; 3]; 6] = [[0, 1, 2], [0, 2, 1], [1, 0, 2], [1, 2, 0], [2, 0, 1], [2, 1, 0]];
/// weight vectors (probability per variable id); the last one has 0/1 weights
const WEIGHTS3: [[f64; 3]; 3] = [[0.5, 0.5, 0.5], [0.3, 0.6, 0.9], [0.0, 1.0, 0.25]];
const AD3: [f64; 3] = [0.2, 0.3, 0.45];

/// fresh manager with the three variables introduced in `order` and all 256 functions built
fn a_prepare(order: &[u32; 3]) -> R<(Sess<B3>, Vec<SddId>)> {
    let mut s: Sess<B3> = Sess::new(3);
    for &v in order {
        s.intro(v, WEIGHTS3[0][v as usize]);
    }
    let mut cubes = Vec::new();
    for m in 0..8usize {
        let c = s.cube(m, false)?;
        let t = B3(1u8 << m);
        s.check_new(c, &t, &format!("minterm cube {}", m))?;
        cubes.push(c);
    }
    let mut h = vec![SddId::FALSE; 256];
    for f in 1..256usize {
        let low = f.trailing_zeros() as usize;
        let rest = f & (f - 1);
        let x = s.apply(h[rest], cubes[low], false)?;
        s.check_new(x, &B3(f as u8), &format!("function {:#04x} from minterms", f))?;
        h[f] = x;
    }
    if h[255] != SddId::TRUE {
        return fail("not_canonical", format!("OR of all 8 minterms is {:?}, not TRUE", h[255]));
    }
    Ok((s, h))
}

fn a_set_weights(s: &mut Sess<B3>, wi: usize) {
    for v in 0..3u32 {
        s.intro(v, WEIGHTS3[wi][v as usize]);
    }
}

/// per-function checks of row `a`
fn a_function_checks(s: &mut Sess<B3>, h: &[SddId], a: usize, out: &mut ShardOut) -> R<()> {
    let ta = B3(a as u8);
    let na = s.negate(h[a])?;
    if na != h[(!(a as u8)) as usize] {
        return fail("not_canonical", format!("negate({:#04x}) = {:?}, but {:#04x} has handle {:?}", a, na, !(a as u8), h[(!(a as u8)) as usize]));
    }
    out.count("a_negations", 1);
    s.denotes(h[a], &ta, "part A enumerate_models")?;
    out.count("a_model_enumerations", 1);
    for wi in 0..3 {
        a_set_weights(s, wi);
        s.wmc_ok(h[a], &ta, &format!("part A wmc, weight vector {}", wi))?;
        out.count("a_wmc_checks", 1);
        s.grad_ok(h[a], &ta, &format!("part A gradient, weight vector {}", wi))?;
        out.count("a_gradient_checks", 1);
    }
    a_set_weights(s, 0);
    Ok(())
}

fn a_apply_one(s: &mut Sess<B3>, h: &[SddId], a: usize, b: usize, and: bool) -> R<()> {
    let r = s.apply(h[a], h[b], and)?;
    let exp = if and { a & b } else { a | b };
    if r != h[exp] {
        // (observe() has already established that r denotes the right function or failed)
        return fail("not_canonical", format!("apply({:#04x},{:#04x},{}) = {:?}, expected the handle {:?} of {:#04x}", a, b, opname(and), r, h[exp], exp));
    }
    Ok(())
}

fn a_lists() -> Vec<Vec<u32>> {
    let mut lists: Vec<Vec<u32>> = Vec::new();
    for mask in 0..8u32 {
        let vs: Vec<u32> = (0..3).filter(|v| mask >> v & 1 == 1).collect();
        for p in bf::permutations(&vs) {
            lists.push(p);
        }
    }
    lists
}

/// exactly_one over one ordered list: group variables declared ExclusiveGroup with (p,1.0)
fn a_exactly_one(s: &mut Sess<B3>, h: &[SddId], list: &[u32], out: &mut ShardOut) -> R<()> {
    a_set_weights(s, 1);
    for &v in list {
        s.set_exclusive(v, AD3[v as usize], 7);
    }
    let pos: Vec<usize> = list.iter().map(|v| *v as usize).collect();
    let teo: B3 = bf::exactly_one(3, &pos);
    let eo = s.exactly_one(list)?;
    if eo != h[teo.0 as usize] {
        return fail("not_canonical", format!("exactly_one({:?}) = {:?}, expected the handle {:?} of {}", list, eo, h[teo.0 as usize], teo.hex()));
    }
    s.denotes(eo, &teo, "exactly_one")?;
    out.count("a_exactly_one_lists", 1);
    for f in 0..256usize {
        let g = s.apply(h[f], eo, true)?;
        let tg = B3(f as u8 & teo.0);
        if g != h[tg.0 as usize] {
            return fail("not_canonical", format!("apply({:#04x}, exactly_one({:?}), And) = {:?}, expected {:?}", f, list, g, h[tg.0 as usize]));
        }
        ctxf(s.wmc_ok(g, &tg, "wmc"), || format!("{:#04x} AND exactly_one({:?}) under exclusive-group weights", f, list))?;
        ctxf(s.grad_ok(g, &tg, "gradient"), || format!("{:#04x} AND exactly_one({:?}) under exclusive-group weights", f, list))?;
        out.count("a_exclusive_products", 1);
    }
    a_set_weights(s, 0);
    Ok(())
}

fn a_case(oi: usize, kind: &str, a: usize, b: usize, and: bool, list: &[u32], ctx: &Ctx) -> Value {
    json!({"part": "A", "order": ORDERS3[oi], "order_idx": oi, "kind": kind, "a": a, "b": b, "op": opname(and), "list": list,
           "shard": ctx.shard, "nshards": ctx.nshards})
}

fn a_tags(kind: &str, and: bool) -> Vec<String> {
    let mut t = vec!["part=A".to_string(), format!("kind={}", kind)];
    if kind == "apply" {
        t.push(format!("op={}", opname(and)));
    }
    t
}

/// Walk this shard's share of part A for one order. `stop` = replay mode: walk the same history
/// and stop after the given (kind, a, b, and / list index) item. Returns the first failure with its case.
fn a_walk(oi: usize, ctx: &Ctx, out: &mut ShardOut, stop: Option<(&str, usize, usize, bool)>) -> Result<(), (Value, Vec<String>, Fail)> {
    let order = &ORDERS3[oi];
    let (mut s, h) = match guard(|| a_prepare(order)) {
        Ok(x) => x,
        Err(f) => return Err((a_case(oi, "prepare", 0, 0, true, &[], ctx), a_tags("prepare", true), f)),
    };
    out.count("a_managers", 1);
    out.max("max_a_nodes_after_build", s.m.node_count() as u64);
    for a in 0..256usize {
        if !ctx.mine((oi * 256 + a) as u64) {
            continue;
        }
        if let Err(f) = guard(|| a_function_checks(&mut s, &h, a, out)) {
            return Err((a_case(oi, "fn", a, 0, true, &[], ctx), a_tags("fn", true), f));
        }
        if let Some(("fn", sa, _, _)) = stop {
            if sa == a {
                return Ok(());
            }
        }
        for b in 0..256usize {
            for and in [true, false] {
                out.evaluations += 1;
                out.count("a_apply_pairs", 1);
                if let Err(f) = guard(|| a_apply_one(&mut s, &h, a, b, and)) {
                    return Err((a_case(oi, "apply", a, b, and, &[], ctx), a_tags("apply", and), f));
                }
                let r = if and { a & b } else { a | b };
                if a != 0 && a != 255 && b != 0 && b != 255 && a != b && a != (!b & 255) && r != a && r != b {
                    out.nontrivial(&("A", a, b, and));
                    out.count("a_nontrivial_pairs", 1);
                }
                if let Some(("apply", sa, sb, sand)) = stop {
                    if (sa, sb, sand) == (a, b, and) {
                        return Ok(());
                    }
                }
            }
        }
    }
    // exactly_one lists, sharded by list index
    for (li, list) in a_lists().iter().enumerate() {
        if !ctx.mine((oi * 16 + li) as u64) {
            continue;
        }
        out.evaluations += 1;
        if let Err(f) = guard(|| a_exactly_one(&mut s, &h, list, out)) {
            return Err((a_case(oi, "eo", li, 0, true, list, ctx), a_tags("eo", true), f));
        }
        if let Some(("eo", sl, _, _)) = stop {
            if sl == li {
                return Ok(());
            }
        }
    }
    // final: everything this manager ever returned is still right
    if let Err(f) = guard(|| s.check_all("part A final re-check of all 256 handles").map(|_| ())) {
        return Err((a_case(oi, "final", 0, 0, true, &[], ctx), a_tags("final", true), f));
    }
    out.outcome(&("A-distinct-handles", s.tracked.len()));
    out.max("max_a_distinct_handles", s.tracked.len() as u64);
    Ok(())
}

/// re-execute an A case from its recorded history; Some(fail) if it fails again
fn a_reexec(case: &Value) -> Option<(Vec<String>, Fail)> {
    let oi = case["order_idx"].as_u64().unwrap_or(0) as usize % 6;
    let kind = case["kind"].as_str().unwrap_or("apply").to_string();
    let a = case["a"].as_u64().unwrap_or(0) as usize;
    let b = case["b"].as_u64().unwrap_or(0) as usize;
    let and = case["op"].as_str() != Some("Or");
    let ctx2 = Ctx {
        shard: case["shard"].as_u64().unwrap_or(0) as usize,
        nshards: (case["nshards"].as_u64().unwrap_or(1) as usize).max(1),
        ..Ctx::for_replay(crate::infra::Tier::Quick)
    };
    let mut scratch = ShardOut::default();
    let stop = match kind.as_str() {
        "fn" => Some(("fn", a, 0, true)),
        "apply" => Some(("apply", a, b, and)),
        "eo" => Some(("eo", a, 0, true)),
        _ => None,
    };
    match a_walk(oi, &ctx2, &mut scratch, stop) {
        Ok(()) => None,
        Err((_c, tags, f)) => Some((tags, f)),
    }
}

fn run_a(ctx: &Ctx, out: &mut ShardOut) {
    for oi in 0..6 {
        if ctx.expired() {
            out.capped.push(format!("part A: wall-clock cap hit before order {}", oi));
            return;
        }
        mark(ctx, || json!({"part": "A", "order_idx": oi, "kind": "whole order (crash while walking this shard's rows)", "shard": ctx.shard, "nshards": ctx.nshards}));
        if let Err((case, tags, f)) = a_walk(oi, ctx, out, None) {
            record(out, case, tags, f, &|c| a_reexec(c));
        }
    }
    if ctx.shard == 0 {
        out.sample(json!({"part": "A", "order": ORDERS3[3], "a": "0x96", "b": "0xe8", "op": "And", "expected_result": "0x80",
                          "note": "one of the 256x256x2 pairs applied for each of the 6 orders"}));
    }
}

/// Record a failure after re-executing it from scratch (up to 6 times, because node numbering and
/// checkpoint order inside the subject depend on HashMap iteration order). Never reproduced =>
/// machinery error, not a verdict.
fn record(out: &mut ShardOut, case: Value, tags: Vec<String>, f: Fail, reexec: &dyn Fn(&Value) -> Option<(Vec<String>, Fail)>) {
    for attempt in 0..6 {
        if let Some((tags2, f2)) = reexec(&case) {
            // any failure of the re-execution confirms the case; the recorded symptom and tags are
            // those of the re-execution (the first observation is kept in the detail)
            let mut tags = tags2;
            if attempt > 0 {
                tags.push("needed_retries".into());
            }
            out.fail(case, f2.symptom, format!("{} [first observation: {} / {}; reproduced on re-execution {}]", f2.detail, f.symptom, f.detail, attempt + 1), tags);
            return;
        }
    }
    let _ = tags;
    out.machinery_errors.push(format!("C07: failure not reproduced in 6 re-executions from scratch: {} / {} / case {}", f.symptom, f.detail, case));
}

// ---------------------------------------------------------------------------------------------
// Part B — tree search over operation sequences with late variable introduction
// ---------------------------------------------------------------------------------------------

/// variable ids in introduction order (deliberately not monotone: exercises the weight-vector resize)
const B_ORDER: [u32; 8] = [1, 0, 3, 2, 5, 4, 7, 6];
const B_P: [f64; 8] = [0.3, 0.6, 0.9, 0.25, 0.5, 0.125, 0.7, 0.2];

/// how a budgeted part B operation is interrupted; both forms are computed from the state of the
/// manager at the moment of the call, so a sequence is replayable without a counting run
#[derive(Clone, Copy, Debug, PartialEq, Eq, Hash)]
enum FSel {
    /// the deadline callback answers false from its k-th call (0-based) on
    D(u32),
    /// node budget = node count before the call + j (j allocations succeed, the next one fails)
    N(u32),
}

#[derive(Clone, Debug, PartialEq, Eq, Hash)]
enum BOp {
    Intro,
    Lit(u32, bool),
    Apply(usize, usize, bool),
    Neg(usize),
    /// exactly_one of the first k variables in introduction order
    Eo(usize),
    /// exactly_one of the k NEWEST variables (contains the newest variable, not the oldest when k < n)
    EoS(usize),
    /// budgeted twins; an Err leaves the pool as it is, an Ok result is observed like the
    /// unbudgeted result (function, canonicity, models, wmc) but is not added to the pool, so the
    /// shape of the search tree does not depend on where the subject decides to give up
    TryApply(usize, usize, bool, FSel),
    TryNeg(usize, FSel),
    TryEo(usize, FSel),
}

impl BOp {
    fn kind(&self) -> &'static str {
        match self {
            BOp::Intro => "Intro",
            BOp::Lit(..) => "Lit",
            BOp::Apply(..) => "Apply",
            BOp::Neg(..) => "Neg",
            BOp::Eo(..) => "Eo",
            BOp::EoS(..) => "EoS",
            BOp::TryApply(..) => "TryApply",
            BOp::TryNeg(..) => "TryNeg",
            BOp::TryEo(..) => "TryEo",
        }
    }
    fn is_try(&self) -> bool {
        matches!(self, BOp::TryApply(..) | BOp::TryNeg(..) | BOp::TryEo(..))
    }
    fn to_json(&self) -> Value {
        let sel = |s: &FSel| match s {
            FSel::D(k) => ("D", *k),
            FSel::N(j) => ("N", *j),
        };
        match self {
            BOp::Intro => json!(["Intro"]),
            BOp::Lit(v, p) => json!(["Lit", v, p]),
            BOp::Apply(i, j, and) => json!(["Apply", i, j, opname(*and)]),
            BOp::Neg(i) => json!(["Neg", i]),
            BOp::Eo(k) => json!(["Eo", k]),
            BOp::EoS(k) => json!(["EoS", k]),
            BOp::TryApply(i, j, and, s) => json!(["TryApply", i, j, opname(*and), sel(s).0, sel(s).1]),
            BOp::TryNeg(i, s) => json!(["TryNeg", i, sel(s).0, sel(s).1]),
            BOp::TryEo(k, s) => json!(["TryEo", k, sel(s).0, sel(s).1]),
        }
    }
    fn from_json(v: &Value) -> Option<BOp> {
        let a = v.as_array()?;
        let u = |i: usize| a.get(i).and_then(|x| x.as_u64()).map(|x| x as usize);
        let sel = |i: usize| -> Option<FSel> {
            match a.get(i)?.as_str()? {
                "D" => Some(FSel::D(u(i + 1)? as u32)),
                "N" => Some(FSel::N(u(i + 1)? as u32)),
                _ => None,
            }
        };
        match a.first()?.as_str()? {
            "Intro" => Some(BOp::Intro),
            "Lit" => Some(BOp::Lit(u(1)? as u32, a.get(2)?.as_bool()?)),
            "Apply" => Some(BOp::Apply(u(1)?, u(2)?, a.get(3)?.as_str()? == "And")),
            "Neg" => Some(BOp::Neg(u(1)?)),
            "Eo" => Some(BOp::Eo(u(1)?)),
            "EoS" => Some(BOp::EoS(u(1)?)),
            "TryApply" => Some(BOp::TryApply(u(1)?, u(2)?, a.get(3)?.as_str()? == "And", sel(4)?)),
            "TryNeg" => Some(BOp::TryNeg(u(1)?, sel(2)?)),
            "TryEo" => Some(BOp::TryEo(u(1)?, sel(2)?)),
            _ => None,
        }
    }
}

#[derive(Clone, Copy, Debug)]
struct BCfg {
    nuni: usize,
    depth: usize,
    /// 0 = mini, 1 = core, 2 = full
    alpha: u8,
    /// start states (number of variables already introduced)
    starts: &'static [usize],
}

fn alpha_name(a: u8) -> &'static str {
    match a {
        0 => "mini",
        1 => "core",
        3 => "budget",
        4 => "budget_sweep",
        _ => "full",
    }
}

/// interruption selectors of the budget alphabet in tree positions / in the leaf sweep
const B_SEL_TREE: [FSel; 4] = [FSel::D(2), FSel::D(12), FSel::N(0), FSel::N(2)];
const B_SEL_SWEEP: [FSel; 8] = [FSel::D(1), FSel::D(4), FSel::D(16), FSel::D(64), FSel::D(100_000), FSel::N(0), FSel::N(1), FSel::N(3)];

/// budget alphabet (alpha 3 in the tree, 4 in the leaf sweep): introduce the next variable,
/// literals of the newest variable, unbudgeted apply of pairs i < j, negate of the newest pool
/// handle, exactly_one(all) and exactly_one(2 newest), and the budgeted twins try_apply(i < j),
/// try_negate(newest handle; sweep: every handle), try_exactly_one(all) under every selector
fn b_budget_alphabet(n: usize, s: usize, sweep: bool, nuni: usize) -> Vec<BOp> {
    let sels: &[FSel] = if sweep { &B_SEL_SWEEP } else { &B_SEL_TREE };
    let mut v = Vec::new();
    if n < nuni {
        v.push(BOp::Intro);
    }
    if n >= 1 {
        v.push(BOp::Lit(B_ORDER[n - 1], true));
        v.push(BOp::Lit(B_ORDER[n - 1], false));
    }
    for i in 0..s {
        for j in (i + 1)..s {
            for and in [true, false] {
                v.push(BOp::Apply(i, j, and));
                for sel in sels {
                    v.push(BOp::TryApply(i, j, and, *sel));
                    if sweep {
                        v.push(BOp::TryApply(j, i, and, *sel));
                    }
                }
            }
        }
    }
    for i in 0..s {
        if !sweep && i + 1 != s {
            continue;
        }
        if i + 1 == s {
            v.push(BOp::Neg(i));
        }
        for sel in sels {
            v.push(BOp::TryNeg(i, *sel));
        }
    }
    if n >= 2 {
        v.push(BOp::Eo(n));
        for sel in sels {
            v.push(BOp::TryEo(n, *sel));
        }
    }
    if n >= 3 {
        v.push(BOp::EoS(2));
    }
    v
}

/// reference-level state: how many variables are introduced, the tables of the pool handles,
/// and the order positions of variables introduced while a handle already existed
#[derive(Clone)]
struct BRef<T: Table> {
    n: usize,
    pool: Vec<T>,
    late: Vec<usize>,
}

/// Alphabet in a state with n variables and s pool handles.
/// full: every literal, every ordered pair i != j, every negate, exactly_one(first k) for every k.
/// core: literals of the newest and the oldest variable, pairs i < j, every negate, exactly_one(first 2 | all).
/// mini: literals of the newest variable, pairs i < j, negate of the newest pool handle, exactly_one(all).
fn b_alphabet(n: usize, s: usize, alpha: u8, nuni: usize) -> Vec<BOp> {
    if alpha == 3 || alpha == 4 {
        return b_budget_alphabet(n, s, alpha == 4, nuni);
    }
    let mut v = Vec::new();
    if n < nuni {
        v.push(BOp::Intro);
    }
    let mut lit_vars: Vec<u32> = Vec::new();
    if alpha == 2 {
        lit_vars.extend_from_slice(&B_ORDER[..n]);
    } else if n >= 1 {
        lit_vars.push(B_ORDER[n - 1]);
        if n >= 2 && alpha == 1 {
            lit_vars.push(B_ORDER[0]);
        }
    }
    for x in lit_vars {
        v.push(BOp::Lit(x, true));
        v.push(BOp::Lit(x, false));
    }
    for i in 0..s {
        for j in 0..s {
            if i == j || (alpha != 2 && i > j) {
                continue;
            }
            v.push(BOp::Apply(i, j, true));
            v.push(BOp::Apply(i, j, false));
        }
    }
    for i in 0..s {
        if alpha == 0 && i + 1 != s {
            continue;
        }
        v.push(BOp::Neg(i));
    }
    match alpha {
        2 => {
            for k in 1..=n {
                v.push(BOp::Eo(k));
            }
            // lists that contain the newest variable but not the oldest
            for k in 1..n {
                v.push(BOp::EoS(k));
            }
        }
        1 => {
            if n >= 2 {
                v.push(BOp::Eo(2));
            }
            if n >= 3 {
                v.push(BOp::Eo(n));
                v.push(BOp::EoS(2));
            }
        }
        _ => {
            if n >= 2 {
                v.push(BOp::Eo(n));
            }
        }
    }
    v
}

/// reference semantics of one op; returns the table of the produced handle (None for Intro)
fn b_ref_step<T: Table>(st: &mut BRef<T>, op: &BOp, nuni: usize) -> Option<T> {
    let t: T = match op {
        BOp::Intro => {
            if !st.pool.is_empty() {
                st.late.push(st.n);
            }
            st.n += 1;
            return None;
        }
        BOp::Lit(v, p) => bf::literal(nuni, *v as usize, *p),
        BOp::Apply(i, j, and) => {
            if *and {
                st.pool[*i].and(&st.pool[*j])
            } else {
                st.pool[*i].or(&st.pool[*j])
            }
        }
        BOp::Neg(i) | BOp::TryNeg(i, _) => st.pool[*i].not(),
        BOp::TryApply(i, j, and, _) => {
            if *and {
                st.pool[*i].and(&st.pool[*j])
            } else {
                st.pool[*i].or(&st.pool[*j])
            }
        }
        BOp::Eo(k) | BOp::TryEo(k, _) => {
            let pos: Vec<usize> = B_ORDER[..*k].iter().map(|v| *v as usize).collect();
            bf::exactly_one(nuni, &pos)
        }
        BOp::EoS(k) => {
            let pos: Vec<usize> = b_eos_list(st.n, *k).iter().map(|v| *v as usize).collect();
            bf::exactly_one(nuni, &pos)
        }
    };
    if !op.is_try() && bf::is_const(&t).is_none() && !st.pool.contains(&t) {
        st.pool.push(t.clone());
    }
    Some(t)
}

/// the k newest of n introduced variables, newest first
fn b_eos_list(n: usize, k: usize) -> Vec<u32> {
    let k = k.min(n);
    B_ORDER[n - k..n].iter().rev().copied().collect()
}

/// seed formulas of the start state with n0 variables, as reference tables
fn b_seed_tables<T: Table>(n0: usize, nuni: usize) -> Vec<T> {
    let x = |k: usize, pol: bool| bf::literal::<T>(nuni, B_ORDER[k] as usize, pol);
    let mut v = Vec::new();
    match n0 {
        0 => {}
        1 => v.push(x(0, true)),
        _ => {
            let pos: Vec<usize> = B_ORDER[..n0].iter().map(|v| *v as usize).collect();
            v.push(bf::exactly_one::<T>(nuni, &pos));
            if n0 == 2 {
                v.push(x(0, true).or(&x(1, false)));
            } else {
                v.push(x(0, true).and(&x(n0 - 1, true)).or(&x(n0 / 2, false)));
            }
        }
    }
    v
}

fn b_ref_start<T: Table>(n0: usize, nuni: usize) -> BRef<T> {
    BRef { n: n0, pool: b_seed_tables(n0, nuni), late: Vec::new() }
}

struct BReal<T: Table> {
    s: Sess<T>,
    pool: Vec<SddId>,
}

fn b_real_start<T: Table>(n0: usize, nuni: usize) -> R<BReal<T>> {
    let mut s: Sess<T> = Sess::new(nuni);
    for k in 0..n0 {
        let v = B_ORDER[k];
        s.intro(v, B_P[v as usize]);
    }
    let mut pool = Vec::new();
    let seeds: Vec<T> = b_seed_tables(n0, nuni);
    match n0 {
        0 => {}
        1 => pool.push(s.literal(B_ORDER[0], true)?),
        _ => {
            pool.push(s.exactly_one(&B_ORDER[..n0])?);
            let a = s.literal(B_ORDER[0], true)?;
            if n0 == 2 {
                let b = s.literal(B_ORDER[1], false)?;
                pool.push(s.apply(a, b, false)?);
            } else {
                let b = s.literal(B_ORDER[n0 - 1], true)?;
                let c = s.literal(B_ORDER[n0 / 2], false)?;
                let ab = s.apply(a, b, true)?;
                pool.push(s.apply(ab, c, false)?);
            }
        }
    }
    for (h, t) in pool.iter().zip(seeds.iter()) {
        s.check_new(*h, t, "seed handle")?;
    }
    Ok(BReal { s, pool })
}

/// what the budgeted operations of one executed sequence did (vacuity counters of the budget alphabet)
#[derive(Default, Clone)]
struct BTry {
    tries: u64,
    oks: u64,
    errs: u64,
    /// Err after at least one checkpoint passed or at least one node was allocated
    interior_errs: u64,
    /// an interior exhaustion happened earlier in this manager and then ...
    err_then_intro: u64,
    err_then_eo: u64,
    err_then_unbudgeted_apply_or_negate: u64,
    err_then_budgeted: u64,
    /// budgeted operation whose formula depends on >= 4 variables
    wide: u64,
    wide_interior_errs: u64,
    /// (state of the current manager) an interior exhaustion has happened
    dirty: bool,
}

/// run one budgeted operation of part B under `sel` and classify the result
fn b_try<T: Table>(r: &mut BReal<T>, sel: FSel, t: &T, what: &dyn Fn() -> String, ts: &mut BTry, f: &mut dyn FnMut(&mut SddManager, &mut SddOperationBudget<'_>) -> Result<SddId, SddBudgetError>) -> R<Option<SddId>> {
    let nodes_before = r.s.m.node_count();
    let mut calls: u64 = 0;
    let mut fired = false;
    let max_nodes = match sel {
        FSel::N(j) => nodes_before + j as usize,
        FSel::D(_) => usize::MAX,
    };
    let res = {
        let mut cb = || {
            let ok = match sel {
                FSel::D(k) => calls < k as u64,
                FSel::N(_) => true,
            };
            calls += 1;
            if !ok {
                fired = true;
            }
            ok
        };
        let mut budget = SddOperationBudget::new(max_nodes, &mut cb);
        f(&mut r.s.m, &mut budget)
    };
    let nodes_after = r.s.m.node_count();
    let nvars_dep = (0..r.s.n).filter(|i| bf::depends_on(t, *i)).count();
    ts.tries += 1;
    if ts.dirty {
        ts.err_then_budgeted += 1;
    }
    if nvars_dep >= 4 {
        ts.wide += 1;
    }
    match res {
        Ok(h) => {
            ts.oks += 1;
            ctxf(r.s.observe(h, t, "budgeted result"), || format!("{} under {:?} returned Ok({})", what(), sel, hs(h)))?;
            Ok(Some(h))
        }
        Err(e) => {
            ts.errs += 1;
            if !fired && matches!(sel, FSel::D(_)) {
                return fail("spurious_exhaustion", format!("{} under {:?} returned Err({:?}) although the deadline callback answered true {} times and never false, and the node budget was usize::MAX", what(), sel, e, calls));
            }
            if calls >= 2 || nodes_after > nodes_before {
                ts.interior_errs += 1;
                ts.dirty = true;
                if nvars_dep >= 4 {
                    ts.wide_interior_errs += 1;
                }
            }
            Ok(None)
        }
    }
}

/// one op on the real manager, compared with the reference step; afterwards every pool handle is re-checked
fn b_real_step<T: Table>(r: &mut BReal<T>, st: &mut BRef<T>, op: &BOp, nuni: usize, recheck_pool: bool, ts: &mut BTry) -> R<Option<(SddId, T)>> {
    if ts.dirty {
        match op {
            BOp::Intro => ts.err_then_intro += 1,
            BOp::Eo(_) | BOp::EoS(_) => ts.err_then_eo += 1,
            BOp::Apply(..) | BOp::Neg(_) => ts.err_then_unbudgeted_apply_or_negate += 1,
            _ => {}
        }
    }
    let h = match op {
        BOp::Intro => {
            let v = B_ORDER[st.n];
            r.s.intro(v, B_P[v as usize]);
            None
        }
        BOp::Lit(v, p) => Some(r.s.literal(*v, *p)?),
        BOp::Apply(i, j, and) => Some(r.s.apply(r.pool[*i], r.pool[*j], *and)?),
        BOp::Neg(i) => Some(r.s.negate(r.pool[*i])?),
        BOp::Eo(k) => Some(r.s.exactly_one(&B_ORDER[..*k])?),
        BOp::EoS(k) => Some(r.s.exactly_one(&b_eos_list(st.n, *k))?),
        BOp::TryApply(i, j, and, sel) => {
            let (a, b) = (r.pool[*i], r.pool[*j]);
            let t = if *and { st.pool[*i].and(&st.pool[*j]) } else { st.pool[*i].or(&st.pool[*j]) };
            let o = bop(*and);
            b_try(r, *sel, &t, &|| format!("try_apply(pool {} [{}], pool {} [{}], {})", i, st.pool[*i].hex(), j, st.pool[*j].hex(), opname(*and)), ts, &mut |m, bud| m.try_apply(a, b, o, bud))?
        }
        BOp::TryNeg(i, sel) => {
            let a = r.pool[*i];
            let t = st.pool[*i].not();
            b_try(r, *sel, &t, &|| format!("try_negate(pool {} [{}])", i, st.pool[*i].hex()), ts, &mut |m, bud| m.try_negate(a, bud))?
        }
        BOp::TryEo(k, sel) => {
            let list: Vec<u32> = B_ORDER[..*k].to_vec();
            let pos: Vec<usize> = list.iter().map(|v| *v as usize).collect();
            let t: T = bf::exactly_one(nuni, &pos);
            b_try(r, *sel, &t, &|| format!("try_exactly_one({:?})", list), ts, &mut |m, bud| m.try_exactly_one(&list, bud))?
        }
    };
    let before = st.pool.len();
    let t = b_ref_step(st, op, nuni);
    let res = match (h, t) {
        (Some(h), Some(t)) => {
            // (the Sess wrappers have observed h against the same table; this guards the glue itself)
            if r.s.table_of(h) != Some(&t) {
                return fail("wrong_function", format!("{:?}: handle {:?} is tracked with another table than the reference step {}", op, h, t.hex()));
            }
            ctxf(r.s.denotes(h, &t, "result"), || format!("result of {:?}", op))?;
            ctxf(r.s.wmc_ok(h, &t, "result"), || format!("result of {:?}", op))?;
            if st.pool.len() > before {
                r.pool.push(h);
            }
            Some((h, t))
        }
        _ => None,
    };
    for (i, h) in r.pool.iter().enumerate() {
        if !recheck_pool {
            break;
        }
        let what = || format!("pool handle {} re-checked after {:?}", i, op);
        ctxf(r.s.denotes(*h, &st.pool[i], "pool"), what)?;
        ctxf(r.s.wmc_ok(*h, &st.pool[i], "pool"), what)?;
    }
    Ok(res)
}

struct BNodeStats {
    sweep_ops: u64,
    tracked: usize,
    nodes: usize,
    /// budgeted operations of the prefix (all ops but the last) / of the whole execution including the leaf sweep
    tree_try: BTry,
    all_try: BTry,
}

impl BTry {
    /// counters of `self` minus those of `prefix`, as (name, value)
    fn delta(&self, prefix: &BTry) -> Vec<(&'static str, u64)> {
        vec![
            ("b_try_ops", self.tries - prefix.tries),
            ("b_try_ok", self.oks - prefix.oks),
            ("b_try_err", self.errs - prefix.errs),
            ("b_try_interior_err", self.interior_errs - prefix.interior_errs),
            ("b_try_interior_err_then_intro", self.err_then_intro - prefix.err_then_intro),
            ("b_try_interior_err_then_exactly_one", self.err_then_eo - prefix.err_then_eo),
            ("b_try_interior_err_then_unbudgeted_apply_or_negate", self.err_then_unbudgeted_apply_or_negate - prefix.err_then_unbudgeted_apply_or_negate),
            ("b_try_interior_err_then_budgeted_op", self.err_then_budgeted - prefix.err_then_budgeted),
            ("b_try_ops_on_4plus_variables", self.wide - prefix.wide),
            ("b_try_interior_err_on_4plus_variables", self.wide_interior_errs - prefix.wide_interior_errs),
        ]
    }
}

#[derive(Clone, Copy, Debug)]
enum BPos {
    Start,
    Op(usize),
    Sweep(usize),
}

/// Execute one tree node from scratch: start state, all ops (each fully checked), gradient and
/// check_all after the last op; `sweep` = Some(limit): afterwards every alphabet op (up to index
/// limit) on the same manager, each against the leaf's pool.
fn b_exec<T: Table>(cfg: &BCfg, n0: usize, ops: &[BOp], sweep: Option<usize>) -> Result<BNodeStats, (BPos, Fail)> {
    let mut st: BRef<T> = b_ref_start(n0, cfg.nuni);
    let mut r: BReal<T> = guard(|| b_real_start(n0, cfg.nuni)).map_err(|f| (BPos::Start, f))?;
    let mut last: Option<(SddId, T)> = None;
    let mut ts = BTry::default();
    let mut tree_try = BTry::default();
    for (i, op) in ops.iter().enumerate() {
        if i + 1 == ops.len() {
            tree_try = ts.clone(); // what the prefix did (already counted by the ancestors of this node)
        }
        last = guard(|| b_real_step(&mut r, &mut st, op, cfg.nuni, true, &mut ts)).map_err(|f| (BPos::Op(i), f))?;
    }
    let lastpos = if ops.is_empty() { BPos::Start } else { BPos::Op(ops.len() - 1) };
    if let Some((h, t)) = &last {
        guard(|| r.s.grad_ok(*h, t, "gradient of the last result")).map_err(|f| (lastpos, f))?;
    }
    if sweep.is_none() {
        guard(|| r.s.check_all("every tracked handle after the last op").map(|_| ())).map_err(|f| (lastpos, f))?;
    }
    let mut sweep_ops = 0;
    if let Some(limit) = sweep {
        let alpha = b_alphabet(st.n, st.pool.len(), if cfg.alpha == 3 { 4 } else { cfg.alpha.max(1) }, cfg.nuni);
        let plen = r.pool.len();
        let mut lastj = 0;
        for (j, op) in alpha.iter().enumerate() {
            if j > limit {
                break;
            }
            if matches!(op, BOp::Intro) {
                continue; // the sweep keeps the variable set of the leaf
            }
            let mut st2 = st.clone();
            let res = guard(|| b_real_step(&mut r, &mut st2, op, cfg.nuni, false, &mut ts));
            r.pool.truncate(plen);
            res.map_err(|f| (BPos::Sweep(j), f))?;
            sweep_ops += 1;
            lastj = j;
        }
        guard(|| r.s.check_all("every tracked handle after the sweep").map(|_| ())).map_err(|f| (BPos::Sweep(lastj), f))?;
    }
    Ok(BNodeStats { sweep_ops, tracked: r.s.tracked.len(), nodes: r.s.m.node_count(), tree_try, all_try: ts })
}

fn b_case(cfg: &BCfg, n0: usize, ops: &[BOp], pos: BPos) -> (Value, Vec<String>) {
    let (upto, sweep) = match pos {
        BPos::Start => (0, None),
        BPos::Op(i) => ((i + 1).min(ops.len()), None),
        BPos::Sweep(j) => (ops.len(), Some(j)),
    };
    let mut tags = vec!["part=B".to_string(), format!("alphabet={}", alpha_name(cfg.alpha))];
    match pos {
        BPos::Start => tags.push("at_start_state".into()),
        BPos::Op(i) => tags.push(format!("last_op={}", ops[i.min(ops.len() - 1)].kind())),
        BPos::Sweep(_) => tags.push("in_sweep".into()),
    }
    if ops[..upto].iter().any(|o| matches!(o, BOp::Intro)) {
        tags.push("late_intro".into());
    }
    let before_last = if matches!(pos, BPos::Sweep(_)) { upto } else { upto.saturating_sub(1) };
    if ops[..before_last].iter().any(|o| o.is_try()) {
        tags.push("after_budgeted_op".into());
    }
    let case = json!({"part": "B", "nuni": cfg.nuni, "alphabet": alpha_name(cfg.alpha), "n0": n0,
        "ops": ops[..upto].iter().map(|o| o.to_json()).collect::<Vec<_>>(),
        "sweep": sweep});
    (case, tags)
}

fn b_exec_dyn(cfg: &BCfg, n0: usize, ops: &[BOp], sweep: Option<usize>) -> Result<BNodeStats, (BPos, Fail)> {
    if cfg.nuni == 6 {
        b_exec::<B6>(cfg, n0, ops, sweep)
    } else {
        b_exec::<BV>(cfg, n0, ops, sweep)
    }
}

fn b_reexec(case: &Value) -> Option<(Vec<String>, Fail)> {
    let cfg = BCfg { nuni: case["nuni"].as_u64().unwrap_or(6) as usize, depth: 0, alpha: match case["alphabet"].as_str() { Some("mini") => 0, Some("core") => 1, Some("budget") => 3, _ => 2 }, starts: &[] };
    let n0 = case["n0"].as_u64().unwrap_or(0) as usize;
    let ops: Vec<BOp> = case["ops"].as_array().map(|a| a.iter().filter_map(BOp::from_json).collect()).unwrap_or_default();
    let sweep = case["sweep"].as_u64().map(|j| j as usize);
    match b_exec_dyn(&cfg, n0, &ops, sweep) {
        Ok(_) => None,
        Err((pos, f)) => Some((b_case(&cfg, n0, &ops, pos).1, f)),
    }
}

struct BWalk<'a> {
    cfg: BCfg,
    n0: usize,
    ctx: &'a Ctx,
    idx: u64,
    capped: bool,
}

const B_SHARD_DEPTH: usize = 2;

fn b_visit<T: Table>(w: &mut BWalk, st: &BRef<T>, ops: &mut Vec<BOp>, last_t: Option<&T>, out: &mut ShardOut) {
    let d = ops.len();
    let mut mine = true;
    let shard_depth = B_SHARD_DEPTH.max(w.cfg.depth.saturating_sub(1)).min(3);
    if d <= shard_depth {
        w.idx += 1;
        mine = w.ctx.mine(crate::infra::hash64(&(w.idx, w.n0, w.cfg.depth)) >> 7);
        if d == shard_depth && !mine {
            return;
        }
    }
    if w.capped {
        return;
    }
    if w.ctx.expired() {
        w.capped = true;
        out.capped.push(format!("part B: wall-clock cap hit (universe {}, {} alphabet, depth {}, start state n0={}) in at least one worker", w.cfg.nuni, alpha_name(w.cfg.alpha), w.cfg.depth, w.n0));
        return;
    }
    let leaf = d >= w.cfg.depth;
    if mine {
        mark(w.ctx, || b_case(&w.cfg, w.n0, ops, if leaf { BPos::Sweep(usize::MAX >> 1) } else if ops.is_empty() { BPos::Start } else { BPos::Op(ops.len() - 1) }).0);
        match b_exec_dyn(&w.cfg, w.n0, ops, if leaf { Some(usize::MAX) } else { None }) {
            Ok(stats) => {
                out.states += 1;
                out.traces += 1;
                out.evaluations += 1 + stats.sweep_ops;
                out.transitions += (d > 0) as u64 + stats.sweep_ops;
                out.count("b_sweep_ops", stats.sweep_ops);
                if w.cfg.alpha == 3 {
                    for (name, v) in stats.all_try.delta(&stats.tree_try) {
                        out.count(name, v);
                    }
                    // non-trivial (budget alphabet): an interior exhaustion earlier in the sequence and
                    // the manager was used again by this node's last op or its sweep
                    if stats.tree_try.dirty && d <= 3 {
                        out.nontrivial(&("B-budget", w.cfg.nuni, w.n0, &*ops));
                        out.count("b_budget_nontrivial_nodes", 1);
                    }
                }
                out.max_depth = out.max_depth.max((d + (stats.sweep_ops > 0) as usize) as u64);
                out.max("max_b_tracked_handles", stats.tracked as u64);
                out.max("max_b_manager_nodes", stats.nodes as u64);
                let fp: u64 = st.pool.iter().fold(0u64, |a, t| a.wrapping_add(crate::infra::hash64(t)));
                out.outcome(&("B", w.cfg.nuni, st.n, fp));
                // non-trivial: result depends on a late variable and on an older one
                if let Some(t) = last_t {
                    let nt = bf::is_const(t).is_none()
                        && st.late.iter().any(|&p| bf::depends_on(t, B_ORDER[p] as usize) && (0..p).any(|q| bf::depends_on(t, B_ORDER[q] as usize)));
                    if nt {
                        out.count("b_nontrivial_nodes", 1);
                        if d <= 3 {
                            out.nontrivial(&("B", w.cfg.nuni, w.n0, &*ops));
                        }
                    }
                }
                if d == 3 && out.samples.len() < 4 && last_t.map_or(false, |t| bf::is_const(t).is_none()) && ops.iter().any(|o| matches!(o, BOp::Intro)) && matches!(ops[2], BOp::Apply(..)) {
                    out.sample(json!({"part": "B", "universe": w.cfg.nuni, "n0": w.n0, "pool_tables_after_the_ops": st.pool.iter().map(|t| t.hex()).collect::<Vec<_>>(),
                        "ops": ops.iter().map(|o| o.to_json()).collect::<Vec<_>>(), "result_table": last_t.map(|t| t.hex())}));
                }
            }
            Err((pos, f)) => {
                let (case, tags) = b_case(&w.cfg, w.n0, ops, pos);
                record(out, case, tags, f, &|c| b_reexec(c));
                return; // do not extend a failing sequence
            }
        }
    }
    if leaf {
        return;
    }
    for op in b_alphabet(st.n, st.pool.len(), w.cfg.alpha, w.cfg.nuni) {
        let mut st2 = st.clone();
        let t = b_ref_step(&mut st2, &op, w.cfg.nuni);
        ops.push(op);
        b_visit(w, &st2, ops, t.as_ref(), out);
        ops.pop();
    }
}

/// returns false when the wall-clock cap was hit
fn b_tree(cfg: BCfg, ctx: &Ctx, out: &mut ShardOut) -> bool {
    for &n0 in cfg.starts {
        let mut w = BWalk { cfg, n0, ctx, idx: (n0 as u64) * 7, capped: false };
        let mut ops = Vec::new();
        if cfg.nuni == 6 {
            let st: BRef<B6> = b_ref_start(n0, 6);
            b_visit(&mut w, &st, &mut ops, None, out);
        } else {
            let st: BRef<BV> = b_ref_start(n0, cfg.nuni);
            b_visit(&mut w, &st, &mut ops, None, out);
        }
        if w.capped {
            return false;
        }
    }
    out.count(&format!("b_trees_completed_u{}_{}_d{}", cfg.nuni, alpha_name(cfg.alpha), cfg.depth), 1);
    true
}

fn run_b(ctx: &Ctx, out: &mut ShardOut) {
    let cfgs: Vec<BCfg> = if ctx.thorough() {
        vec![
            BCfg { nuni: 6, depth: 3, alpha: 2, starts: &[0, 1, 2, 3, 4, 5] },
            BCfg { nuni: 8, depth: 2, alpha: 2, starts: &[0, 1, 2, 3, 4, 5, 6, 7] },
            BCfg { nuni: 8, depth: 3, alpha: 1, starts: &[0, 1, 2, 3, 4, 5, 6, 7] },
            BCfg { nuni: 8, depth: 4, alpha: 0, starts: &[1, 3, 5, 7] },
            BCfg { nuni: 6, depth: 5, alpha: 0, starts: &[1, 3, 5] },
            BCfg { nuni: 6, depth: 2, alpha: 3, starts: &[1, 2, 3, 4, 5] },
            BCfg { nuni: 8, depth: 2, alpha: 3, starts: &[3, 4, 5, 6, 7] },
            BCfg { nuni: 6, depth: 3, alpha: 3, starts: &[2, 4] },
            BCfg { nuni: 8, depth: 3, alpha: 3, starts: &[6] },
        ]
    } else {
        vec![
            BCfg { nuni: 6, depth: 2, alpha: 2, starts: &[0, 1, 2, 3, 4, 5] },
            BCfg { nuni: 6, depth: 3, alpha: 1, starts: &[0, 1, 2, 3, 4, 5] },
            BCfg { nuni: 6, depth: 4, alpha: 0, starts: &[1, 3, 5] },
            BCfg { nuni: 6, depth: 2, alpha: 3, starts: &[1, 2, 3, 4, 5] },
        ]
    };
    for cfg in cfgs {
        let t0 = cpu_ms();
        let complete = b_tree(cfg, ctx, out);
        out.count(&format!("sum_cpu_ms_b_u{}_{}_d{}", cfg.nuni, alpha_name(cfg.alpha), cfg.depth), cpu_ms() - t0);
        if !complete {
            out.capped.push("part B: the remaining (larger) trees were not started in at least one worker; b_trees_completed_* counts the workers (of 16) that finished each tree".into());
            break;
        }
    }
}

// ---------------------------------------------------------------------------------------------
// Part C — interruption: every checkpoint, every node budget, then keep using the manager
// ---------------------------------------------------------------------------------------------

const C_P: [f64; 6] = [0.3, 0.6, 0.9, 0.25, 0.5, 0.125];

/// a budgeted operation together with the recipe that prepares its operands
#[derive(Clone, Debug, PartialEq, Eq, Hash)]
enum COp {
    /// try_apply(a, b, op); a, b = 3-variable tables (functions of the introduced variables only)
    Apply(u8, u8, bool),
    /// try_negate(a)
    Negate(u8),
    /// try_literal(var, pol); present: 0 = no literal node yet, 1 = this literal exists, 2 = only the opposite one exists
    Literal(u32, bool, u8),
    /// try_exactly_one(list); pre = 1: all literals already exist; pre = 2: the diagram of the
    /// list's tail (and everything below it) already exists, so the recursion only meets caches;
    /// excl: the listed variables are declared ExclusiveGroup with (p,1.0) weights while the
    /// budgeted call runs and its result is checked (wmc, gradient), and re-declared Independent afterwards
    Eo(Vec<u32>, u8, bool),
    /// try_apply(a, b, op) over 4 or 5 variables; a, b = tables over the 6-position universe
    /// (functions of the introduced variables only)
    ApplyW(u64, u64, bool),
    /// try_negate(a) over 4 or 5 variables
    NegateW(u64),
}

#[derive(Clone, Debug, PartialEq, Eq, Hash)]
struct CCase {
    /// variables 0..nvars are introduced ...
    nvars: usize,
    /// ... in this order (empty = 0,1,2,..)
    order: Vec<u32>,
    op: COp,
}

impl CCase {
    fn new(nvars: usize, op: COp) -> CCase {
        CCase { nvars, order: Vec::new(), op }
    }
    fn intro_order(&self) -> Vec<u32> {
        if self.order.is_empty() {
            (0..self.nvars as u32).collect()
        } else {
            self.order.clone()
        }
    }
    fn to_json(&self) -> Value {
        let op = match &self.op {
            COp::Apply(a, b, and) => json!(["try_apply", a, b, opname(*and)]),
            COp::Negate(a) => json!(["try_negate", a]),
            COp::Literal(v, p, pr) => json!(["try_literal", v, p, pr]),
            COp::Eo(l, pre, excl) => json!(["try_exactly_one", l, pre, excl]),
            COp::ApplyW(a, b, and) => json!(["try_apply_w", a, b, opname(*and)]),
            COp::NegateW(a) => json!(["try_negate_w", a]),
        };
        json!({"part": "C", "nvars": self.nvars, "order": self.intro_order(), "op": op})
    }
    fn from_json(v: &Value) -> Option<CCase> {
        let a = v["op"].as_array()?;
        let u = |i: usize| a.get(i).and_then(|x| x.as_u64());
        let op = match a.first()?.as_str()? {
            "try_apply" => COp::Apply(u(1)? as u8, u(2)? as u8, a.get(3)?.as_str()? == "And"),
            "try_negate" => COp::Negate(u(1)? as u8),
            "try_literal" => COp::Literal(u(1)? as u32, a.get(2)?.as_bool()?, u(3)? as u8),
            "try_exactly_one" => COp::Eo(a.get(1)?.as_array()?.iter().filter_map(|x| x.as_u64()).map(|x| x as u32).collect(), u(2)? as u8, a.get(3).and_then(|x| x.as_bool()).unwrap_or(false)),
            "try_apply_w" => COp::ApplyW(u(1)?, u(2)?, a.get(3)?.as_str()? == "And"),
            "try_negate_w" => COp::NegateW(u(1)?),
            _ => return None,
        };
        let nvars = v["nvars"].as_u64()? as usize;
        let mut order: Vec<u32> = v["order"].as_array().map(|o| o.iter().filter_map(|x| x.as_u64()).map(|x| x as u32).collect()).unwrap_or_default();
        // only a permutation of 0..nvars is a valid introduction order
        let mut sorted = order.clone();
        sorted.sort();
        if sorted != (0..nvars as u32).collect::<Vec<_>>() || order.iter().enumerate().all(|(i, v)| i as u32 == *v) {
            order = Vec::new();
        }
        // operands must be functions of the introduced variables only (the generators guarantee it;
        // a hand-written replay file might not)
        let narrow_ok = |f: u8| nvars >= 3 || (0..8usize).all(|m| (f >> m) & 1 == (f >> (m & ((1 << nvars) - 1))) & 1);
        let wide_ok = |f: u64| nvars >= 6 || (0..64usize).all(|m| (f >> m) & 1 == (f >> (m & ((1 << nvars) - 1))) & 1);
        let ok = match &op {
            COp::Apply(a, b, _) => nvars >= 1 && nvars <= 3 && narrow_ok(*a) && narrow_ok(*b),
            COp::Negate(a) => nvars >= 1 && nvars <= 3 && narrow_ok(*a),
            COp::ApplyW(a, b, _) => nvars >= 1 && nvars <= 6 && wide_ok(*a) && wide_ok(*b),
            COp::NegateW(a) => nvars >= 1 && nvars <= 6 && wide_ok(*a),
            COp::Literal(v, _, _) => (*v as usize) < nvars && nvars <= 3,
            COp::Eo(l, _, _) => nvars <= 6 && l.iter().all(|v| (*v as usize) < nvars),
        };
        if !ok {
            return None;
        }
        Some(CCase { nvars, order, op })
    }
    fn opkind(&self) -> &'static str {
        match self.op {
            COp::Apply(..) | COp::ApplyW(..) => "try_apply",
            COp::Negate(..) | COp::NegateW(..) => "try_negate",
            COp::Literal(..) => "try_literal",
            COp::Eo(..) => "try_exactly_one",
        }
    }
    fn wide(&self) -> bool {
        matches!(self.op, COp::ApplyW(..) | COp::NegateW(..))
    }
}

#[derive(Clone, Copy, Debug, PartialEq, Eq)]
enum Fault {
    /// inexhaustible budget (counts checkpoints)
    None,
    /// deadline callback answers false from its k-th call (0-based) on
    Deadline(u64),
    /// node budget n, deadline never expires
    Nodes(usize),
    /// node budget n that is known to exceed the node count the manager reaches when the same
    /// operation runs uninterrupted on an identically prepared manager (n >= that count + 1), deadline
    /// never expires: nothing can be exhausted, so Err is a violation (sufficiency clause)
    NodesEnough(usize),
    /// deadline expires at the k-th checkpoint AND node budget n in the same budget
    Both(u64, usize),
}

/// which operation a step of a run executes: the case's operation or its dual
/// (Apply(a,b,op) -> Apply(b,a,other op); other operations: the same again)
#[derive(Clone, Copy, Debug, PartialEq, Eq)]
struct Step {
    dual: bool,
    fault: Fault,
}

#[derive(Clone, Debug, Default)]
struct StepObs {
    ok: bool,
    calls: u64,
    fired: bool,
    nodes_before: usize,
    nodes_after: usize,
    deadline_err: bool,
}

fn embed<T: Table>(n: usize, f: u8) -> T {
    T::from_fn(n, &|m| (f >> (m & 7)) & 1 == 1)
}

struct CPrep<T: Table> {
    s: Sess<T>,
    operands: Vec<SddId>,
}

/// table over the 6-position universe given as a u64 bitmask
fn embed6<T: Table>(n: usize, f: u64) -> T {
    T::from_fn(n, &|m| (f >> (m & 63)) & 1 == 1)
}

/// exclusive-group weights used by the `excl` variant of the exactly-one cases
const C_AD: [f64; 6] = [0.2, 0.3, 0.45, 0.05, 0.6, 0.15];

fn c_prepare<T: Table>(nuni: usize, case: &CCase) -> R<CPrep<T>> {
    let mut s: Sess<T> = Sess::new(nuni);
    for v in case.intro_order() {
        s.intro(v, C_P[v as usize]);
    }
    let mut operands = Vec::new();
    match &case.op {
        COp::Apply(a, b, _) => {
            operands.push(s.build(&embed::<T>(nuni, *a), false)?);
            operands.push(s.build(&embed::<T>(nuni, *b), false)?);
        }
        COp::Negate(a) => operands.push(s.build(&embed::<T>(nuni, *a), false)?),
        COp::ApplyW(a, b, _) => {
            operands.push(s.build(&embed6::<T>(nuni, *a), false)?);
            operands.push(s.build(&embed6::<T>(nuni, *b), false)?);
        }
        COp::NegateW(a) => operands.push(s.build(&embed6::<T>(nuni, *a), false)?),
        COp::Literal(v, p, present) => match present {
            1 => {
                s.literal(*v, *p)?;
            }
            2 => {
                s.literal(*v, !*p)?;
            }
            _ => {}
        },
        COp::Eo(l, pre, _) => {
            if *pre == 1 {
                for v in 0..case.nvars as u32 {
                    s.literal(v, true)?;
                    s.literal(v, false)?;
                }
            }
            if *pre == 2 && l.len() >= 2 {
                s.exactly_one(&l[1..])?;
            }
        }
    }
    Ok(CPrep { s, operands })
}

/// table the operation must produce
fn c_expected<T: Table>(nuni: usize, case: &CCase) -> T {
    match &case.op {
        COp::Apply(a, b, and) => {
            let (ta, tb) = (embed::<T>(nuni, *a), embed::<T>(nuni, *b));
            if *and {
                ta.and(&tb)
            } else {
                ta.or(&tb)
            }
        }
        COp::Negate(a) => embed::<T>(nuni, *a).not(),
        COp::Literal(v, p, _) => bf::literal(nuni, *v as usize, *p),
        COp::Eo(l, _, _) => bf::exactly_one(nuni, &l.iter().map(|v| *v as usize).collect::<Vec<_>>()),
        COp::ApplyW(a, b, and) => {
            let (ta, tb) = (embed6::<T>(nuni, *a), embed6::<T>(nuni, *b));
            if *and {
                ta.and(&tb)
            } else {
                ta.or(&tb)
            }
        }
        COp::NegateW(a) => embed6::<T>(nuni, *a).not(),
    }
}

/// one budgeted call; returns the raw result and what the budget saw
fn c_budgeted<T: Table>(p: &mut CPrep<T>, case: &CCase, step: Step) -> (Result<SddId, SddBudgetError>, StepObs) {
    let mut calls: u64 = 0;
    let mut fired = false;
    let nodes_before = p.s.m.node_count();
    let max_nodes = match step.fault {
        Fault::Nodes(n) | Fault::NodesEnough(n) | Fault::Both(_, n) => n,
        _ => usize::MAX,
    };
    let res = {
        let mut cb = || {
            let ok = match step.fault {
                Fault::Deadline(k) | Fault::Both(k, _) => calls < k,
                _ => true,
            };
            calls += 1;
            if !ok {
                fired = true;
            }
            ok
        };
        let mut budget = SddOperationBudget::new(max_nodes, &mut cb);
        let m = &mut p.s.m;
        match &case.op {
            COp::Apply(_, _, and) => {
                if step.dual {
                    m.try_apply(p.operands[1], p.operands[0], bop(!*and), &mut budget)
                } else {
                    m.try_apply(p.operands[0], p.operands[1], bop(*and), &mut budget)
                }
            }
            COp::ApplyW(_, _, and) => {
                if step.dual {
                    m.try_apply(p.operands[1], p.operands[0], bop(!*and), &mut budget)
                } else {
                    m.try_apply(p.operands[0], p.operands[1], bop(*and), &mut budget)
                }
            }
            COp::Negate(_) | COp::NegateW(_) => m.try_negate(p.operands[0], &mut budget),
            COp::Literal(v, pol, _) => m.try_literal(*v, *pol, &mut budget),
            COp::Eo(l, _, _) => m.try_exactly_one(l, &mut budget),
        }
    };
    let obs = StepObs {
        ok: res.is_ok(),
        calls,
        fired,
        nodes_before,
        nodes_after: p.s.m.node_count(),
        deadline_err: matches!(res, Err(SddBudgetError::DeadlineExceeded)),
    };
    (res, obs)
}

fn c_step_expected<T: Table>(nuni: usize, case: &CCase, dual: bool) -> T {
    match (&case.op, dual) {
        (COp::Apply(a, b, and), true) => c_expected(nuni, &CCase::new(case.nvars, COp::Apply(*b, *a, !*and))),
        (COp::ApplyW(a, b, and), true) => c_expected(nuni, &CCase::new(case.nvars, COp::ApplyW(*b, *a, !*and))),
        _ => c_expected(nuni, case),
    }
}

/// Continue to use the manager without a budget. `heavy`: additionally all ordered pairs of the
/// key handles and a rebuild of every key function from minterms in the other association order.
fn c_post<T: Table>(p: &mut CPrep<T>, case: &CCase, heavy: bool) -> R<()> {
    let nuni = p.s.n;
    let t = c_expected::<T>(nuni, case);
    // the same operation, unbudgeted
    let h2 = match &case.op {
        COp::Apply(_, _, and) | COp::ApplyW(_, _, and) => p.s.apply(p.operands[0], p.operands[1], *and)?,
        COp::Negate(_) | COp::NegateW(_) => p.s.negate(p.operands[0])?,
        COp::Literal(v, pol, _) => p.s.literal(*v, *pol)?,
        COp::Eo(l, _, _) => p.s.exactly_one(l)?,
    };
    p.s.denotes(h2, &t, "unbudgeted repetition of the operation")?;
    let mut keys: Vec<SddId> = p.operands.clone();
    keys.push(h2);
    // another route to the same function
    match &case.op {
        COp::Apply(_, _, and) | COp::ApplyW(_, _, and) => {
            let na = p.s.negate(p.operands[0])?;
            let nb = p.s.negate(p.operands[1])?;
            let d = p.s.apply(na, nb, !*and)?;
            let alt = p.s.negate(d)?;
            if alt != h2 {
                return fail("not_canonical", format!("De Morgan route gives {:?}, direct apply gives {:?} for {}", alt, h2, t.hex()));
            }
            keys.push(na);
            keys.push(nb);
            keys.push(d);
            // and the dual operation on swapped operands
            let dual = p.s.apply(p.operands[1], p.operands[0], !*and)?;
            keys.push(dual);
        }
        COp::Negate(_) | COp::NegateW(_) => {
            let back = p.s.negate(h2)?;
            if back != p.operands[0] {
                return fail("not_canonical", format!("negate(negate(a)) = {:?}, a = {:?}", back, p.operands[0]));
            }
            let f = p.s.apply(p.operands[0], h2, true)?;
            let tr = p.s.apply(p.operands[0], h2, false)?;
            if f != SddId::FALSE || tr != SddId::TRUE {
                return fail("not_canonical", format!("a AND NOT a = {:?}, a OR NOT a = {:?}", f, tr));
            }
        }
        COp::Literal(v, pol, _) => {
            let n = p.s.negate(h2)?;
            let o = p.s.literal(*v, !*pol)?;
            if n != o {
                return fail("not_canonical", format!("negate(literal) = {:?}, opposite literal = {:?}", n, o));
            }
            keys.push(o);
        }
        COp::Eo(l, _, _) => {
            let mut rev = l.clone();
            rev.reverse();
            let alt = p.s.exactly_one(&rev)?;
            if alt != h2 {
                return fail("not_canonical", format!("exactly_one of the reversed list gives {:?}, of the list {:?}", alt, h2));
            }
            let n = p.s.negate(h2)?;
            keys.push(n);
        }
    }
    if heavy {
        keys.sort();
        keys.dedup();
        for i in 0..keys.len() {
            for j in 0..keys.len() {
                for and in [true, false] {
                    let h = p.s.apply(keys[i], keys[j], and)?;
                    let th = p.s.table_of(h).cloned().unwrap();
                    p.s.denotes(h, &th, "pair of key handles")?;
                }
            }
        }
        for k in keys.clone() {
            let tk = p.s.table_of(k).cloned().unwrap();
            if p.s.vars.len() <= 3 || bf::count(&tk) <= 64 {
                let again = p.s.build(&tk, true)?;
                if again != k {
                    return fail("not_canonical", format!("rebuilding {} from minterms gives {:?}, tracked handle is {:?}", tk.hex(), again, k));
                }
            }
        }
    }
    p.s.check_all("every tracked handle after continuing to use the manager")?;
    Ok(())
}

struct CRun {
    obs: Vec<StepObs>,
}

/// A complete run: fresh manager, identical preparation, the budgeted steps, then unbudgeted use.
/// Err carries the phase ("result" = a budgeted call returned a wrong value; "after" = the manager
/// misbehaved afterwards; "prepare").
fn c_run<T: Table>(nuni: usize, case: &CCase, steps: &[Step], heavy: bool) -> Result<CRun, (&'static str, Fail)> {
    let mut p: CPrep<T> = guard(|| c_prepare(nuni, case)).map_err(|f| ("prepare", f))?;
    let mut obs = Vec::new();
    let mut any_err = false;
    let excl_vars: Vec<u32> = match &case.op {
        COp::Eo(l, _, true) => l.clone(),
        _ => Vec::new(),
    };
    for st in steps {
        let texp: T = c_step_expected(nuni, case, st.dual);
        // (kind switch Independent -> ExclusiveGroup of already registered variables)
        for &v in &excl_vars {
            p.s.set_exclusive(v, C_AD[v as usize], 7);
        }
        let r = guarded(|| c_budgeted(&mut p, case, *st));
        let (res, o) = match r {
            Ok(x) => x,
            Err(msg) => return Err(("result", Fail { symptom: "panic", detail: format!("budgeted operation panicked under {:?}: {}", st.fault, msg) })),
        };
        match res {
            Ok(h) => {
                let what = if any_err { "budgeted result after an earlier exhaustion" } else { "budgeted result" };
                let chk = guard(|| {
                    p.s.observe(h, &texp, what)?;
                    p.s.denotes(h, &texp, what)?;
                    p.s.wmc_ok(h, &texp, what)?;
                    if !excl_vars.is_empty() {
                        // exactly_one(S) with exactly S declared exclusive: every model fixes every group variable
                        p.s.grad_ok(h, &texp, "budgeted exactly_one under exclusive-group weights")?;
                    }
                    Ok(())
                });
                if let Err(f) = chk {
                    return Err(("result", Fail { symptom: f.symptom, detail: format!("{:?} returned Ok({}): {}", st, hs(h), f.detail) }));
                }
            }
            Err(e) => {
                any_err = true;
                if !o.fired && matches!(st.fault, Fault::None | Fault::Deadline(_)) {
                    return Err((
                        "result",
                        Fail { symptom: "spurious_exhaustion", detail: format!("{:?} returned Err({:?}) although the deadline callback answered true {} times and never false, and the node budget was usize::MAX", st, e, o.calls) },
                    ));
                }
                if !o.fired {
                    if let Fault::NodesEnough(n) = st.fault {
                        return Err((
                            "result",
                            Fail { symptom: "spurious_exhaustion", detail: format!("{:?} returned Err({:?}) although the deadline callback never answered false and the node budget {} exceeds the node count the manager holds after the same operation ran uninterrupted on an identically prepared manager (manager had {} nodes before, {} after this call)", st, e, n, o.nodes_before, o.nodes_after) },
                        ));
                    }
                }
            }
        }
        for &v in &excl_vars {
            p.s.intro(v, C_P[v as usize]);
        }
        obs.push(o);
    }
    guard(|| c_post(&mut p, case, heavy)).map_err(|f| (if any_err { "after_exhaustion" } else { "after_success" }, f))?;
    Ok(CRun { obs })
}

#[derive(Default)]
struct CStats {
    runs: u64,
    errs_deadline: u64,
    errs_nodes: u64,
    oks: u64,
    interior_errs: u64,
    bound2_runs: u64,
    bound2_second_errs: u64,
    max_checkpoints: u64,
    max_new_nodes: u64,
    sufficient_budget_runs: u64,
    both_budget_runs: u64,
}

struct CFailure {
    nsteps: usize,
    last_fault: &'static str,
    steps_desc: String,
    phase: &'static str,
    fail: Fail,
}

fn fault_name(f: Fault) -> &'static str {
    match f {
        Fault::None => "none",
        Fault::Deadline(_) => "deadline",
        Fault::Nodes(_) => "node_budget",
        Fault::NodesEnough(_) => "node_budget_sufficient",
        Fault::Both(..) => "deadline_and_node_budget",
    }
}

/// map a transported string back to one of the fixed symptom / phase / fault names
fn intern(s: &str) -> &'static str {
    const KNOWN: [&str; 20] = [
        "wrong_function", "not_canonical", "models_mismatch", "wmc_mismatch", "gradient_mismatch", "spurious_exhaustion", "panic", "process_crash",
        "prepare", "result", "after_exhaustion", "after_success", "crash", "none", "deadline", "node_budget", "unknown", "other",
        "node_budget_sufficient", "deadline_and_node_budget",
    ];
    KNOWN.iter().find(|k| **k == s).copied().unwrap_or("other")
}

fn c_tags(case: &CCase, f: &CFailure) -> Vec<String> {
    let mut t = vec!["part=C".to_string(), format!("budgeted_op={}", case.opkind()), format!("phase={}", f.phase), format!("bound={}", f.nsteps), format!("fault={}", f.last_fault), format!("nvars={}", case.nvars)];
    t.push(if case.order.is_empty() { "intro_order=ascending".to_string() } else { "intro_order=permuted".to_string() });
    if let COp::Eo(l, pre, excl) = &case.op {
        t.push(format!("eo_list_len={}", l.len()));
        t.push(format!("eo_pre={}", pre));
        if *excl {
            t.push("eo_exclusive_kind".into());
        }
    }
    t
}

/// The complete procedure for one operation: count, every k, every n, optionally bound 2.
/// Stops at the first failure.
fn c_pair<T: Table>(nuni: usize, case: &CCase, bound2: u8, heavy: bool, stats: &mut CStats) -> Result<(), CFailure> {
    let run = |steps: &[Step], heavy: bool, stats: &mut CStats| -> Result<CRun, CFailure> {
        stats.runs += 1;
        iso_note(steps);
        c_run::<T>(nuni, case, steps, heavy).map_err(|(phase, fail)| CFailure {
            nsteps: steps.len(),
            last_fault: steps.last().map(|s| fault_name(s.fault)).unwrap_or("none"),
            steps_desc: format!("{:?}", steps),
            phase,
            fail,
        })
    };
    let tally = |o: &StepObs, f: Fault, stats: &mut CStats| {
        if o.ok {
            stats.oks += 1;
        } else if o.deadline_err {
            stats.errs_deadline += 1;
        } else {
            stats.errs_nodes += 1;
        }
        let interior = match f {
            Fault::Deadline(k) => k >= 1,
            Fault::Nodes(n) => n > o.nodes_before || o.nodes_after > o.nodes_before,
            Fault::Both(k, n) => k >= 1 && (n > o.nodes_before || o.nodes_after > o.nodes_before),
            Fault::None | Fault::NodesEnough(_) => false,
        };
        if !o.ok && interior {
            stats.interior_errs += 1;
        }
    };
    // 1. uninterrupted run with an inexhaustible budget
    let base = run(&[Step { dual: false, fault: Fault::None }], heavy, stats)?;
    let b = &base.obs[0];
    let mut cmax = b.calls;
    let n0 = b.nodes_before;
    let mut n1 = b.nodes_after;
    stats.max_checkpoints = stats.max_checkpoints.max(b.calls);
    stats.max_new_nodes = stats.max_new_nodes.max((n1 - n0) as u64);
    // 2. the deadline expires at the k-th checkpoint, every k (the count may vary by a few between
    //    runs because compress iterates a HashMap: go on until k exceeds every count seen, plus 2)
    let mut first_errs: Vec<Fault> = Vec::new();
    let mut k = 0u64;
    while k <= cmax + 2 {
        let f = Fault::Deadline(k);
        let r = run(&[Step { dual: false, fault: f }], heavy, stats)?;
        let o = &r.obs[0];
        tally(o, f, stats);
        if !o.fired {
            cmax = cmax.max(o.calls);
        }
        n1 = n1.max(o.nodes_after);
        if !o.ok {
            first_errs.push(f);
        }
        k += 1;
    }
    // 3. every node budget from the count before to the count after (+1), and 0
    let mut budgets: Vec<usize> = vec![0];
    budgets.extend(n0..=n1);
    for n in budgets {
        let f = Fault::Nodes(n);
        let r = run(&[Step { dual: false, fault: f }], heavy, stats)?;
        tally(&r.obs[0], f, stats);
        if !r.obs[0].ok && n >= n0 {
            first_errs.push(f);
        }
    }
    // 3b. sufficiency: a node budget above the count the manager holds after the uninterrupted
    //     operation (largest count seen in any run so far, +1) cannot be exhausted: Err is a violation
    for n in [n1 + 1, 2 * n1 + 64] {
        let f = Fault::NodesEnough(n);
        let r = run(&[Step { dual: false, fault: f }], heavy, stats)?;
        tally(&r.obs[0], f, stats);
        stats.sufficient_budget_runs += 1;
    }
    // 3c. deadline and node budget in the same budget: deadline at the middle checkpoint with the
    //     node budget in the middle of the range, and the last checkpoint with the last failing budget
    if cmax >= 2 && n1 > n0 {
        for (k, n) in [(cmax / 2, (n0 + n1) / 2), (cmax - 1, n1 - 1), (1, n1 - 1), (cmax - 1, n0)] {
            let f = Fault::Both(k, n);
            let r = run(&[Step { dual: false, fault: f }], heavy, stats)?;
            tally(&r.obs[0], f, stats);
            stats.both_budget_runs += 1;
        }
    }
    // 4. bound 2: after every first exhaustion a second interrupted operation on the same manager
    //    bound2 = 1: second = the same operation again; 2: also the dual operation
    if bound2 > 0 {
        for f1 in first_errs {
            for dual in [false, true] {
                if dual && (bound2 < 2 || !matches!(case.op, COp::Apply(..))) {
                    continue;
                }
                let s1 = Step { dual: false, fault: f1 };
                let cnt = run(&[s1, Step { dual, fault: Fault::None }], false, stats)?;
                stats.bound2_runs += 1;
                let o2 = &cnt.obs[1];
                let mut c2max = o2.calls;
                let (m0, mut m1) = (o2.nodes_before, o2.nodes_after);
                let mut k2 = 0u64;
                while k2 <= c2max + 2 {
                    let r = run(&[s1, Step { dual, fault: Fault::Deadline(k2) }], false, stats)?;
                    stats.bound2_runs += 1;
                    let o = &r.obs[1];
                    if !o.fired {
                        c2max = c2max.max(o.calls);
                    }
                    m1 = m1.max(o.nodes_after);
                    if !o.ok {
                        stats.bound2_second_errs += 1;
                    }
                    k2 += 1;
                }
                for n in m0..=m1 {
                    let r = run(&[s1, Step { dual, fault: Fault::Nodes(n) }], false, stats)?;
                    stats.bound2_runs += 1;
                    if !r.obs[1].ok {
                        stats.bound2_second_errs += 1;
                    }
                }
                // sufficiency also for the second operation after an exhaustion
                run(&[s1, Step { dual, fault: Fault::NodesEnough(m1 + 1) }], false, stats)?;
                stats.bound2_runs += 1;
                stats.sufficient_budget_runs += 1;
            }
        }
    }
    Ok(())
}

fn c_pair_inproc(case: &CCase, bound2: u8, heavy: bool, stats: &mut CStats) -> Result<(), CFailure> {
    match case.op {
        COp::Eo(..) | COp::ApplyW(..) | COp::NegateW(..) => c_pair::<B6>(6, case, bound2, heavy, stats),
        _ => c_pair::<B3>(3, case, bound2, heavy, stats),
    }
}

// ---- process isolation: a corrupted diagram (cycle) makes the subject overflow the stack, which
// ---- cannot be caught in-process; the complete procedure for one operation runs in a forked child

static ISO_PAGE: std::sync::atomic::AtomicPtr<u8> = std::sync::atomic::AtomicPtr::new(std::ptr::null_mut());
const ISO_PAGE_LEN: usize = 4096;

fn iso_page() -> *mut u8 {
    let p = ISO_PAGE.load(std::sync::atomic::Ordering::Relaxed);
    if !p.is_null() {
        return p;
    }
    let q = unsafe { libc::mmap(std::ptr::null_mut(), ISO_PAGE_LEN, libc::PROT_READ | libc::PROT_WRITE, libc::MAP_SHARED | libc::MAP_ANONYMOUS, -1, 0) };
    if q == libc::MAP_FAILED {
        return std::ptr::null_mut();
    }
    ISO_PAGE.store(q as *mut u8, std::sync::atomic::Ordering::Relaxed);
    q as *mut u8
}

/// remember (in memory shared with the parent) which run is about to start
fn iso_note(steps: &[Step]) {
    let p = ISO_PAGE.load(std::sync::atomic::Ordering::Relaxed);
    if p.is_null() {
        return;
    }
    // compact fixed-size encoding: count, then (dual, kind, value) per step
    unsafe {
        let mut off = 0usize;
        *p.add(off) = steps.len() as u8;
        off += 1;
        for s in steps.iter().take(8) {
            let (kind, val): (u8, u64) = match s.fault {
                Fault::None => (0, 0),
                Fault::Deadline(k) => (1, k),
                Fault::Nodes(n) => (2, n as u64),
                Fault::NodesEnough(n) => (3, n as u64),
                Fault::Both(k, n) => (4, (k & 0xffff_ffff) | ((n as u64) << 32)),
            };
            *p.add(off) = s.dual as u8;
            *p.add(off + 1) = kind;
            std::ptr::copy_nonoverlapping(val.to_le_bytes().as_ptr(), p.add(off + 2), 8);
            off += 10;
        }
    }
}

fn iso_read_note() -> Vec<Step> {
    let p = ISO_PAGE.load(std::sync::atomic::Ordering::Relaxed);
    let mut v = Vec::new();
    if p.is_null() {
        return v;
    }
    unsafe {
        let n = (*p) as usize;
        let mut off = 1usize;
        for _ in 0..n.min(8) {
            let dual = *p.add(off) != 0;
            let kind = *p.add(off + 1);
            let mut b = [0u8; 8];
            std::ptr::copy_nonoverlapping(p.add(off + 2), b.as_mut_ptr(), 8);
            let val = u64::from_le_bytes(b);
            v.push(Step { dual, fault: match kind { 1 => Fault::Deadline(val), 2 => Fault::Nodes(val as usize), 3 => Fault::NodesEnough(val as usize), 4 => Fault::Both(val & 0xffff_ffff, (val >> 32) as usize), _ => Fault::None } });
            off += 10;
        }
    }
    v
}

impl CStats {
    fn to_vec(&self) -> Vec<u64> {
        vec![self.runs, self.errs_deadline, self.errs_nodes, self.oks, self.interior_errs, self.bound2_runs, self.bound2_second_errs, self.max_checkpoints, self.max_new_nodes, self.sufficient_budget_runs, self.both_budget_runs]
    }
    fn add_vec(&mut self, v: &[u64]) {
        if v.len() < 11 {
            return;
        }
        self.sufficient_budget_runs += v[9];
        self.both_budget_runs += v[10];
        self.runs += v[0];
        self.errs_deadline += v[1];
        self.errs_nodes += v[2];
        self.oks += v[3];
        self.interior_errs += v[4];
        self.bound2_runs += v[5];
        self.bound2_second_errs += v[6];
        self.max_checkpoints = self.max_checkpoints.max(v[7]);
        self.max_new_nodes = self.max_new_nodes.max(v[8]);
    }
}

/// The complete procedure for one operation in a forked child (the workers are single-threaded).
/// A child killed by a signal is the failure "process_crash". Falls back to in-process execution
/// if fork/pipe/mmap are not available.
fn c_pair_dyn(case: &CCase, bound2: u8, heavy: bool, stats: &mut CStats) -> Result<(), CFailure> {
    if std::env::var("VCHECK_C07_NOFORK").is_ok() || iso_page().is_null() {
        return c_pair_inproc(case, bound2, heavy, stats);
    }
    let mut fds = [0 as libc::c_int; 2];
    if unsafe { libc::pipe(fds.as_mut_ptr()) } != 0 {
        return c_pair_inproc(case, bound2, heavy, stats);
    }
    iso_note(&[]);
    let pid = unsafe { libc::fork() };
    if pid < 0 {
        unsafe {
            libc::close(fds[0]);
            libc::close(fds[1]);
        }
        return c_pair_inproc(case, bound2, heavy, stats);
    }
    if pid == 0 {
        // child
        unsafe { libc::close(fds[0]) };
        let mut st = CStats::default();
        let r = guarded(|| c_pair_inproc(case, bound2, heavy, &mut st));
        let msg = match r {
            Ok(Ok(())) => json!({"ok": true, "stats": st.to_vec()}),
            Ok(Err(f)) => json!({"ok": false, "stats": st.to_vec(), "nsteps": f.nsteps, "last_fault": f.last_fault, "steps_desc": f.steps_desc, "phase": f.phase, "symptom": f.fail.symptom, "detail": f.fail.detail}),
            Err(p) => json!({"ok": false, "stats": st.to_vec(), "nsteps": 0, "last_fault": "unknown", "steps_desc": "?", "phase": "crash", "symptom": "panic", "detail": format!("harness-side panic in the isolated child: {}", p)}),
        };
        let data = msg.to_string().into_bytes();
        let mut off = 0usize;
        while off < data.len() {
            let n = unsafe { libc::write(fds[1], data[off..].as_ptr() as *const libc::c_void, data.len() - off) };
            if n <= 0 {
                break;
            }
            off += n as usize;
        }
        unsafe {
            libc::close(fds[1]);
            libc::_exit(0);
        }
    }
    // parent
    unsafe { libc::close(fds[1]) };
    let mut data = Vec::new();
    let mut buf = [0u8; 4096];
    loop {
        let n = unsafe { libc::read(fds[0], buf.as_mut_ptr() as *mut libc::c_void, buf.len()) };
        if n > 0 {
            data.extend_from_slice(&buf[..n as usize]);
        } else if n == 0 {
            break;
        } else if std::io::Error::last_os_error().kind() != std::io::ErrorKind::Interrupted {
            break;
        }
    }
    unsafe { libc::close(fds[0]) };
    let mut status: libc::c_int = 0;
    loop {
        let r = unsafe { libc::waitpid(pid, &mut status, 0) };
        if r == pid || (r < 0 && std::io::Error::last_os_error().kind() != std::io::ErrorKind::Interrupted) {
            break;
        }
    }
    let parsed: Option<Value> = serde_json::from_slice(&data).ok();
    match parsed {
        Some(v) if libc::WIFEXITED(status) && libc::WEXITSTATUS(status) == 0 => {
            let st: Vec<u64> = v["stats"].as_array().map(|a| a.iter().filter_map(|x| x.as_u64()).collect()).unwrap_or_default();
            stats.add_vec(&st);
            if v["ok"].as_bool() == Some(true) {
                Ok(())
            } else {
                Err(CFailure {
                    nsteps: v["nsteps"].as_u64().unwrap_or(0) as usize,
                    last_fault: intern(v["last_fault"].as_str().unwrap_or("unknown")),
                    steps_desc: v["steps_desc"].as_str().unwrap_or("?").to_string(),
                    phase: intern(v["phase"].as_str().unwrap_or("other")),
                    fail: Fail { symptom: intern(v["symptom"].as_str().unwrap_or("other")), detail: v["detail"].as_str().unwrap_or("").to_string() },
                })
            }
        }
        _ => {
            let steps = iso_read_note();
            let how = if libc::WIFSIGNALED(status) { format!("killed by signal {}", libc::WTERMSIG(status)) } else { format!("wait status {:#x}, {} bytes of result", status, data.len()) };
            Err(CFailure {
                nsteps: steps.len(),
                last_fault: steps.last().map(|s| fault_name(s.fault)).unwrap_or("unknown"),
                steps_desc: format!("{:?}", steps),
                phase: "crash",
                fail: Fail { symptom: "process_crash", detail: format!("the isolated child process running this operation died ({}) during the run with these budgeted steps (stack overflow / abort inside the subject)", how) },
            })
        }
    }
}

fn c_case_json(case: &CCase, bound2: u8, heavy: bool) -> Value {
    let mut v = case.to_json();
    v["bound2"] = json!(bound2);
    v["heavy"] = json!(heavy);
    v
}

/// replay / re-execution: the complete procedure for the recorded operation again
fn c_reexec(v: &Value) -> Option<(Vec<String>, Fail)> {
    let case = CCase::from_json(v)?;
    let mut stats = CStats::default();
    match c_pair_dyn(&case, v["bound2"].as_u64().unwrap_or(0) as u8, v["heavy"].as_bool().unwrap_or(true), &mut stats) {
        Ok(()) => None,
        Err(f) => {
            let tags = c_tags(&case, &f);
            Some((tags, Fail { symptom: f.fail.symptom, detail: format!("steps {}: {}", f.steps_desc, f.fail.detail) }))
        }
    }
}

/// 2-variable function (4-bit table over x0,x1) as a 3-variable table independent of x2
fn two_var(f: u8) -> u8 {
    (f & 15) | ((f & 15) << 4)
}

/// the enumeration of part C cases: (case, bound2 level, heavy post-check)
fn c_cases(thorough: bool) -> Vec<(CCase, u8, bool)> {
    let mut v: Vec<(CCase, u8, bool)> = Vec::new();
    let reps = bf::npn_representatives3();
    let diverse: [u8; 6] = [0x96, 0xe8, 0x88, 0xca, 0x16, 0xf0];
    // try_literal
    for var in 0..3u32 {
        for pol in [true, false] {
            for present in 0..3u8 {
                v.push((CCase::new(3, COp::Literal(var, pol, present)), 2, true));
            }
        }
    }
    // try_negate over all 256 functions
    for a in 0..=255u8 {
        v.push((CCase::new(3, COp::Negate(a)), if thorough || reps.contains(&a) { 1 } else { 0 }, true));
    }
    // try_exactly_one
    let nmax = if thorough { 6 } else { 4 };
    for n in 1..=nmax {
        for k in 1..=n {
            for pre in 0..2u8 {
                let fwd: Vec<u32> = (0..k as u32).collect();
                let mut rev = fwd.clone();
                rev.reverse();
                v.push((CCase::new(n, COp::Eo(fwd.clone(), pre, false)), if k <= 3 { 1 } else { 0 }, k <= 4));
                if k >= 2 {
                    v.push((CCase::new(n, COp::Eo(rev, pre, false)), 0, k <= 4));
                }
            }
        }
    }
    // try_exactly_one over EVERY ordered list of distinct variables out of 4 (thorough: also out of 5,
    // lists of <= 4), i.e. lists that skip the oldest / the newest variable and lists in mixed order:
    // fresh, with the tail's diagram already built (inner caches hit), and with the listed variables
    // declared ExclusiveGroup; under the ascending introduction order and under a permuted one
    for (n, order) in [(4usize, vec![]), (4, vec![2u32, 0, 3, 1]), (5, vec![]), (5, vec![3u32, 1, 4, 0, 2])] {
        if n == 5 && !thorough {
            continue;
        }
        let vars: Vec<u32> = (0..n as u32).collect();
        for mask in 1u32..(1 << n) {
            let sub: Vec<u32> = vars.iter().copied().filter(|x| mask >> x & 1 == 1).collect();
            if sub.len() > 4 {
                continue;
            }
            for list in bf::permutations(&sub) {
                let prefix_like = list.iter().enumerate().all(|(i, x)| *x == i as u32) || list.iter().rev().enumerate().all(|(i, x)| *x == i as u32);
                let permuted = !order.is_empty();
                for (pre, excl) in [(0u8, false), (2, false), (0, true)] {
                    if prefix_like && !permuted && pre == 0 && !excl {
                        continue; // already in the prefix family above
                    }
                    if list.len() == 1 && pre == 2 {
                        continue;
                    }
                    if permuted && !thorough && (pre == 2 || excl) && list.len() != 3 {
                        continue;
                    }
                    let b2 = if list.len() == 3 && pre == 0 && !excl && !permuted { 1 } else { 0 };
                    v.push((CCase { nvars: n, order: order.clone(), op: COp::Eo(list.clone(), pre, excl) }, b2, list.len() <= 3 || thorough));
                }
            }
        }
    }
    // try_apply: all pairs over 2 variables
    for a in 0..16u8 {
        for b in 0..16u8 {
            for and in [true, false] {
                v.push((CCase::new(2, COp::Apply(two_var(a), two_var(b), and)), if thorough { 2 } else { 0 }, true));
            }
        }
    }
    // try_apply over 3 variables
    for a in 0..=255u8 {
        for b in 0..=255u8 {
            let a_rep = reps.contains(&a);
            let b_rep = reps.contains(&b);
            let div = diverse.contains(&a) && diverse.contains(&b);
            let include = if thorough { true } else { a_rep && b_rep || div };
            if !include {
                continue;
            }
            for and in [true, false] {
                let bound2 = if thorough {
                    if a_rep && b_rep || div {
                        2
                    } else {
                        0
                    }
                } else if div && a != b {
                    1
                } else {
                    0
                };
                v.push((CCase::new(3, COp::Apply(a, b, and)), bound2, !thorough || a_rep || b_rep));
            }
        }
    }
    // try_apply over 3 variables under the other five introduction orders (the vtree position of
    // each variable changes, so the same pair meets other same-vtree / descendant / LCA branches):
    // the diverse functions squared; thorough also NPN-representative x NPN-representative
    for order in ORDERS3.iter().skip(1) {
        for a in 0..=255u8 {
            for b in 0..=255u8 {
                let div = diverse.contains(&a) && diverse.contains(&b);
                let rr = reps.contains(&a) && reps.contains(&b);
                if !(div || (thorough && rr)) {
                    continue;
                }
                for and in [true, false] {
                    v.push((CCase { nvars: 3, order: order.to_vec(), op: COp::Apply(a, b, and) }, 0, div));
                }
            }
        }
        for a in diverse {
            v.push((CCase { nvars: 3, order: order.to_vec(), op: COp::Negate(a) }, 1, true));
        }
    }
    // try_apply / try_negate over 4 and 5 variables: a family of structurally different operands
    // (parity, majority, two disjoint conjunctions, exactly-one, a function of the oldest and the
    // newest variable only, a chain implication), every ordered pair, both ops; ascending and
    // descending introduction order
    // (one 4-variable operation costs ~0.5 s CPU, one 5-variable operation several seconds: every k
    // and every n, each on a fresh manager whose operands are rebuilt from minterms. quick: 4
    // variables ascending: unordered pairs, both ops; 4 variables descending: unordered pairs, And;
    // 5 variables ascending: 4 pairs. thorough: every ordered pair, both ops, both orders.)
    for nv in [4usize, 5] {
        let fam = wide_family(nv);
        for (oi, order) in [Vec::new(), (0..nv as u32).rev().collect::<Vec<u32>>()].into_iter().enumerate() {
            for (i, a) in fam.iter().enumerate() {
                if thorough || (nv == 4 && oi == 0) || (nv == 5 && oi == 0 && i < 2) {
                    v.push((CCase { nvars: nv, order: order.clone(), op: COp::NegateW(*a) }, if oi == 0 && (thorough || nv == 4) { 1 } else { 0 }, nv == 4 && thorough));
                }
                for (j, b) in fam.iter().enumerate() {
                    if i == j {
                        continue;
                    }
                    for and in [true, false] {
                        let quick_pick = match (nv, oi) {
                            (4, 0) => i < j,
                            (4, _) => i < j && and,
                            // parity x majority (And, Or), exactly-one x chain (And), disjoint-conjunctions x oldest-xor-newest (Or)
                            (_, 0) => (i, j) == (0, 1) || ((i, j, and) == (3, 5, true)) || ((i, j, and) == (2, 4, false)),
                            _ => false,
                        };
                        if !thorough && !quick_pick {
                            continue;
                        }
                        let b2 = if thorough && nv == 4 && oi == 0 && and && [(0, 1), (2, 4), (3, 5)].contains(&(i, j)) { 1 } else { 0 };
                        v.push((CCase { nvars: nv, order: order.clone(), op: COp::ApplyW(*a, *b, and) }, b2, thorough && nv == 4 && oi == 0));
                    }
                }
            }
        }
    }
    v
}

/// operands over nv in {4,5} variables as tables over the 6-position universe (independent of positions >= nv)
fn wide_family(nv: usize) -> Vec<u64> {
    let mk = |f: &dyn Fn(usize) -> bool| -> u64 {
        let mut t = 0u64;
        for m in 0..64usize {
            if f(m & ((1 << nv) - 1)) {
                t |= 1u64 << m;
            }
        }
        t
    };
    let bit = |m: usize, i: usize| (m >> i) & 1 == 1;
    vec![
        mk(&|m| m.count_ones() % 2 == 1),                                                        // parity
        mk(&|m| m.count_ones() as usize * 2 > nv),                                               // majority
        mk(&|m| (bit(m, 0) && bit(m, 1)) || (2..nv).all(|i| bit(m, i))),                         // x0x1 | x2x3(x4)
        mk(&|m| m.count_ones() == 1),                                                            // exactly one
        mk(&|m| (bit(m, 0) || bit(m, nv - 1)) && !(bit(m, 0) && bit(m, nv - 1))),                // oldest xor newest
        mk(&|m| (0..nv - 1).all(|i| !bit(m, i) || bit(m, i + 1))),                               // x_i -> x_{i+1} chain
    ]
}

fn run_c(ctx: &Ctx, out: &mut ShardOut) {
    let cases = c_cases(ctx.thorough());
    let total = cases.len();
    let mut done_upto = 0usize;
    let mut stats = CStats::default();
    for (i, (case, bound2, heavy)) in cases.iter().enumerate() {
        if !ctx.mine(crate::infra::hash64(&(i as u64, "C")) >> 5) {
            continue;
        }
        if ctx.expired() {
            out.capped.push(format!("part C: wall-clock cap hit before all {} operations were enumerated (order: literals, negations, exactly_one, 2-variable pairs, 3-variable pairs by (a,b); each worker walks its own 1/16 in that order; see counters c_operations_done and c_operations_skipped_by_cap)", total));
            out.count("c_operations_skipped_by_cap", cases[i..].iter().enumerate().filter(|(j, _)| ctx.mine(crate::infra::hash64(&((i + j) as u64, "C")) >> 5)).count() as u64);
            break;
        }
        done_upto = i;
        out.count("c_operations_done", 1);
        mark(ctx, || c_case_json(case, *bound2, *heavy));
        let before_interior = stats.interior_errs;
        out.evaluations += 1;
        out.count(&format!("c_operations_{}", case.opkind()), 1);
        if *bound2 > 0 {
            out.count("c_operations_with_bound2", 1);
        }
        if case.wide() {
            out.count(&format!("c_operations_on_{}_variables", case.nvars), 1);
        }
        if !case.order.is_empty() {
            out.count("c_operations_permuted_intro_order", 1);
        }
        if let COp::Eo(l, pre, excl) = &case.op {
            let prefix_like = l.iter().enumerate().all(|(i, x)| *x == i as u32) || l.iter().rev().enumerate().all(|(i, x)| *x == i as u32);
            if !prefix_like {
                out.count("c_exactly_one_non_prefix_lists", 1);
            }
            if *pre == 2 {
                out.count("c_exactly_one_tail_prebuilt", 1);
            }
            if *excl {
                out.count("c_exactly_one_exclusive_kind", 1);
            }
        }
        match c_pair_dyn(case, *bound2, *heavy, &mut stats) {
            Ok(()) => {
                if stats.interior_errs > before_interior {
                    out.nontrivial(&("C", case));
                    out.count("c_nontrivial_operations", 1);
                }
                if out.samples.len() < 3 && matches!(case.op, COp::Apply(..)) && stats.interior_errs > before_interior + 5 {
                    out.sample(json!({"part": "C", "case": case.to_json(), "bound2": bound2, "interior_exhaustions_of_this_operation": stats.interior_errs - before_interior,
                        "note": "every checkpoint k and every node budget n on a fresh identically prepared manager, then unbudgeted use of the same manager"}));
                }
            }
            Err(f) => {
                let tags = c_tags(case, &f);
                let cj = c_case_json(case, *bound2, *heavy);
                let fl = Fail { symptom: f.fail.symptom, detail: format!("steps {}: {}", f.steps_desc, f.fail.detail) };
                record(out, cj, tags, fl, &|c| c_reexec(c));
            }
        }
    }
    let _ = done_upto;
    out.count("c_runs", stats.runs);
    out.count("c_results_ok", stats.oks);
    out.count("c_results_err_deadline", stats.errs_deadline);
    out.count("c_results_err_node_budget", stats.errs_nodes);
    out.count("c_interior_exhaustions_then_manager_reused", stats.interior_errs);
    out.count("c_bound2_runs", stats.bound2_runs);
    out.count("c_bound2_second_exhaustions", stats.bound2_second_errs);
    out.count("c_sufficient_node_budget_runs", stats.sufficient_budget_runs);
    out.count("c_deadline_and_node_budget_runs", stats.both_budget_runs);
    out.max("max_c_checkpoints_of_one_operation", stats.max_checkpoints);
    out.max("max_c_new_nodes_of_one_operation", stats.max_new_nodes);
    out.outcome(&("C", stats.errs_deadline > 0, stats.errs_nodes > 0, stats.oks > 0));
}

/// tell the parent which case is about to run (a stack overflow / abort of the subject kills the worker)
fn mark(ctx: &Ctx, case: impl FnOnce() -> Value) {
    if let Some(p) = &ctx.progress {
        p.mark(&case().to_string());
    }
}

/// CPU time of this process and its reaped children in ms (the box is shared; wall time says little)
fn cpu_ms() -> u64 {
    let mut ts = libc::timespec { tv_sec: 0, tv_nsec: 0 };
    unsafe {
        libc::clock_gettime(libc::CLOCK_PROCESS_CPUTIME_ID, &mut ts);
    }
    // plus the forked children of part C that have been waited for
    let mut ru: libc::rusage = unsafe { std::mem::zeroed() };
    unsafe {
        libc::getrusage(libc::RUSAGE_CHILDREN, &mut ru);
    }
    let kids = (ru.ru_utime.tv_sec + ru.ru_stime.tv_sec) as u64 * 1000 + (ru.ru_utime.tv_usec + ru.ru_stime.tv_usec) as u64 / 1000;
    ts.tv_sec as u64 * 1000 + ts.tv_nsec as u64 / 1_000_000 + kids
}

fn run(ctx: &Ctx) -> ShardOut {
    let mut out = ShardOut::default();
    // debugging aid only: VCHECK_C07_PARTS=C runs a subset of the parts (the evidence then says so)
    let parts = std::env::var("VCHECK_C07_PARTS").unwrap_or_else(|_| "ACB".to_string());
    if parts != "ACB" {
        out.capped.push(format!("VCHECK_C07_PARTS={} — only these parts were run", parts));
    }
    let t0 = cpu_ms();
    if parts.contains('A') {
        run_a(ctx, &mut out);
    }
    let ta = cpu_ms() - t0;
    if parts.contains('C') {
        run_c(ctx, &mut out);
    }
    let tc = cpu_ms() - t0 - ta;
    if parts.contains('B') {
        run_b(ctx, &mut out);
    }
    let tb = cpu_ms() - t0 - ta - tc;
    out.max("max_cpu_ms_part_a_per_worker", ta);
    out.max("max_cpu_ms_part_b_per_worker", tb);
    out.count("sum_cpu_ms_part_a", ta);
    out.count("sum_cpu_ms_part_b", tb);
    out.max("max_cpu_ms_part_c_per_worker", tc);
    out.count("sum_cpu_ms_part_c", tc);
    out
}

fn replay(_ctx: &Ctx, case: &Value) -> ShardOut {
    let mut out = ShardOut::default();
    out.evaluations = 1;
    match case["part"].as_str() {
        Some("A") => {
            for _ in 0..4 {
                if let Some((tags, f)) = a_reexec(case) {
                    out.fail(case.clone(), f.symptom, f.detail, tags);
                    break;
                }
            }
        }
        Some("B") => {
            for _ in 0..4 {
                if let Some((tags, f)) = b_reexec(case) {
                    out.fail(case.clone(), f.symptom, f.detail, tags);
                    break;
                }
            }
        }
        Some("C") => {
            if CCase::from_json(case).is_none() {
                out.machinery_errors.push(format!("C07 replay: not a case of the part C enumeration (operands must be functions of the introduced variables, variables must be introduced): {}", case));
                return out;
            }
            // all k and all n for the recorded operation, several rounds (checkpoint order varies)
            for _ in 0..4 {
                if let Some((tags, f)) = c_reexec(case) {
                    out.fail(case.clone(), f.symptom, f.detail, tags);
                    break;
                }
            }
        }
        _ => out.machinery_errors.push(format!("C07 replay: unknown case {}", case)),
    }
    out
}
