//! C15 — term identifiers are a stable bijection, also across database union.
//! Part 1 (E-seq): explicit-state breadth-first search over encode / quoted-encode call sequences on a
//!   real `Dictionary` + `QuotedTripleStore`, de-duplicated on the complete physical state; the
//!   decode calls are made in every state as the observation table.
//! Part 2 (E-seq x E-seq): every ordered pair of databases built by short operation sequences over
//!   overlapping vocabularies; `a.union(&b)` compared lexically with the union of the two abstract
//!   datasets, the union's own id maps checked to be a bijection, and both operands re-read.
use crate::infra::{guarded, Ctx, PropDef, ShardOut};
use crate::reference::termdb::{AbstractDb, T};
use kolibrie::sparql_database::SparqlDatabase;
use serde_json::{json, Value};
use shared::dataset_index::{GraphId, Quad};
use shared::dictionary::Dictionary;
use shared::quoted_triple_store::QuotedTripleStore;
use shared::triple::Triple;
use std::collections::{BTreeMap, BTreeSet, HashSet};

pub const DEF: PropDef = PropDef {
    id: "C15",
    level: "model_checking",
    rule: "Part 1: states = complete physical states (both maps + counters of a real Dictionary and a real QuotedTripleStore::new()) reached breadth-first from the empty pair by Dictionary::encode(t), t in {a,b,c,\"\"}, and QuotedTripleStore::encode(x,y,z) over ALL triples of identifiers handed out so far (plain or quoted, result nesting <= 2), depth <= 5 (thorough: 6), de-duplicated on the physical state; in every state every identifier ever handed out (and unseen ones) is decoded and looked up in both directions. Part 1b (related terms): every sequence, repetitions included, of length <= 5 (thorough 6) of Dictionary::encode over eight RELATED values (a, A, ' a', 'a ', aa, the empty string, precomposed and decomposed e-acute), followed by one quoted triple over its first and last identifier, same observation table after every call (plain tree search). Part 1c (counter thresholds): Dictionary with next_id = 2^31 - k and QuotedTripleStore with next_qt_id = 2^32 - k, k in 1..3, five fresh encodes each: every call must panic or hand out an unused identifier of the right range that decodes back. Part 2: operand histories = all operation sequences of length <= 3 (thorough: 4) over the first alphabet (10 operations: triple, same triple in a named graph, quad with literal, empty named graph, quoted-triple subject through the string API, quoted-triple object in a named graph, nested quoted triple, two add_tagged_triple) and of length <= 2 over the full alphabet (thorough: also length 3 against every partner of length <= 1) (16 operations: + a quoted term that no quad refers to, a quoted term as OBJECT component and as PREDICATE component of a quoted term, a probability seed on a quoted-subject triple, a graph name also used as a subject, case / white-space twins of a term and a literal), executed on fresh real databases over a shared vocabulary inserted in different orders; histories ending in the same complete physical state (identifier stores, counters, quad index dump, seeds) are merged; every ORDERED pair of distinct databases whose histories both lie in one of the two bounds is united and a.union(&b) is compared lexically with the union of the abstract datasets (quads, graph identities, quoted terms incl. unreferenced ones, seeds). A pair is non-trivial when some identifier denotes different terms in a and b (ids clash); distinct = distinct (abstract dataset of a, abstract dataset of b) among the non-trivial pairs, plus the distinct part-1 states of depth <= 5 that hold >= 1 quoted triple and >= 2 plain terms (the depth-6 ones are counted in counters.dict_nontrivial_states but not shipped as a set, so distinct_nontrivial is a lower bound), plus the distinct related-term dictionaries with >= 2 terms",
    assumptions: &[
        "term alphabet part 1: a, b, c and the empty string; quoted components range over every identifier handed out so far; nesting <= 2; depth <= 5 quick / 6 thorough; part 1b: a, A, ' a', 'a ', aa, empty string, U+00E9, e+U+0301",
        "counter thresholds (part 1c) are reached by setting the public counter fields instead of making 2^31 calls: what encode returns for a fresh term depends on the counter only; a panic (the Dictionary's exhaustion assert, an overflow check) is accepted, an identifier of the wrong range or a repeated identifier is not",
        "vocabulary part 2: http://e/{a,b,c,p,q,g1,g2} and the literal 1 (lexical spaces of IRIs and literals disjoint, no white space inside terms that occur in quoted terms, so the `<< s p o >>` rendering of decode_any is unambiguous); the twins http://e/A and ' 1' occur in plain quad positions only",
        "two databases never give the same triple different probabilities (the statement does not say which wins)",
        "`union(&mut self, ..)`: the receiver may grow caches or its dictionary, but must denote the same dataset afterwards and every identifier it handed out earlier must still decode to the same term; same for the argument",
        "plain terms that occur only in a dictionary (no quad, graph name, quoted term or seed uses them) are not part of the dataset the statement lists and are not compared; Dictionary::merge / QuotedTripleStore::merge (merge by identifier) are not in the quantifier and not judged",
        "QuotedTripleStore is created with new() (the derived Default starts its counter at 0, i.e. outside the quoted range; no code in the repository uses it)",
        "reference model: harness/src/reference/termdb.rs (self-tested); part 1 needs no model beyond the history of identifiers handed out",
    ],
    run,
    replay,
    cap_s: (50, 840),
    shards: 0,
};

const QBIT: u32 = 0x8000_0000;

// ---------------------------------------------------------------------------------------------
// Part 1: Dictionary + QuotedTripleStore
// ---------------------------------------------------------------------------------------------

/// the first four terms are the alphabet of the breadth-first search; the others are RELATED values
/// (case twin, leading / trailing white space, one a prefix of another, the two Unicode spellings of
/// e-acute) used by the related-terms family only
const TERMS: [&str; 10] = ["a", "b", "c", "", "A", " a", "a ", "aa", "\u{e9}", "e\u{301}"];
const BFS_TERMS: u8 = 4;
/// indexes into TERMS of the related-terms family
const RELATED: [u8; 8] = [0, 3, 4, 5, 6, 7, 8, 9];

/// `Enc(i)`: Dictionary::encode(TERMS[i]); `QEnc(i,j,k)`: QuotedTripleStore::encode over the i-th, j-th,
/// k-th identifier handed out so far (order of first hand-out, plain and quoted interleaved)
#[derive(Clone, Copy, Debug, PartialEq, Eq, Hash)]
enum DOp {
    Enc(u8),
    QEnc(u8, u8, u8),
}

fn dop_json(op: &DOp) -> Value {
    match op {
        DOp::Enc(i) => json!(format!("enc:{}", i)),
        DOp::QEnc(i, j, k) => json!(format!("qenc:{}:{}:{}", i, j, k)),
    }
}
fn parse_dop(s: &str) -> Option<DOp> {
    let parts: Vec<&str> = s.split(':').collect();
    match parts.as_slice() {
        ["enc", i] => i.parse().ok().filter(|i| (*i as usize) < TERMS.len()).map(DOp::Enc),
        ["qenc", i, j, k] => Some(DOp::QEnc(i.parse().ok()?, j.parse().ok()?, k.parse().ok()?)),
        _ => None,
    }
}

/// the real objects plus the history of what they handed out (the only "model" part 1 needs)
#[derive(Clone)]
struct DState {
    dict: Dictionary,
    qts: QuotedTripleStore,
    /// identifiers in order of first hand-out, with nesting level (0 = plain)
    seen: Vec<(u32, u8)>,
    plain: Vec<(String, u32)>,
    quoted: Vec<((u32, u32, u32), u32)>,
    /// what the k-th quoted triple must decode to, built from the texts of its components when it was handed out
    quoted_text: Vec<String>,
}

impl DState {
    fn new() -> DState {
        DState { dict: Dictionary::new(), qts: QuotedTripleStore::new(), seen: Vec::new(), plain: Vec::new(), quoted: Vec::new(), quoted_text: Vec::new() }
    }
    /// complete physical state of both objects (all public fields), canonically ordered
    fn fingerprint(&self) -> Vec<u8> {
        let mut out = Vec::with_capacity(128);
        let mut a: Vec<(&u32, &String)> = self.dict.id_to_string.iter().collect();
        a.sort();
        for (i, s) in a {
            out.extend_from_slice(&i.to_le_bytes());
            out.extend_from_slice(s.as_bytes());
            out.push(0xff);
        }
        out.push(0xfe);
        let mut b: Vec<(&String, &u32)> = self.dict.string_to_id.iter().collect();
        b.sort();
        for (s, i) in b {
            out.extend_from_slice(s.as_bytes());
            out.push(0xff);
            out.extend_from_slice(&i.to_le_bytes());
        }
        out.push(0xfe);
        out.extend_from_slice(&self.dict.next_id.to_le_bytes());
        let mut c: Vec<(&u32, &(u32, u32, u32))> = self.qts.id_to_components.iter().collect();
        c.sort();
        for (i, (x, y, z)) in c {
            for v in [i, x, y, z] {
                out.extend_from_slice(&v.to_le_bytes());
            }
        }
        out.push(0xfe);
        let mut d: Vec<(&(u32, u32, u32), &u32)> = self.qts.components_to_id.iter().collect();
        d.sort();
        for ((x, y, z), i) in d {
            for v in [x, y, z, i] {
                out.extend_from_slice(&v.to_le_bytes());
            }
        }
        out.push(0xfe);
        out.extend_from_slice(&self.qts.next_qt_id.to_le_bytes());
        out
    }
    fn level_of(&self, id: u32) -> Option<u8> {
        self.seen.iter().find(|s| s.0 == id).map(|s| s.1)
    }
    /// identifiers that may be used as components (result nesting <= 2)
    fn component_candidates(&self) -> Vec<u8> {
        self.seen.iter().enumerate().filter(|(_, s)| s.1 <= 1).map(|(i, _)| i as u8).collect()
    }
    fn ops(&self) -> Vec<DOp> {
        let mut v: Vec<DOp> = (0..BFS_TERMS).map(DOp::Enc).collect();
        let c = self.component_candidates();
        for &i in &c {
            for &j in &c {
                for &k in &c {
                    v.push(DOp::QEnc(i, j, k));
                }
            }
        }
        v
    }
    /// how the model renders an identifier (for the decode_term comparison)
    fn render(&self, id: u32) -> Option<String> {
        if let Some((t, _)) = self.plain.iter().find(|p| p.1 == id) {
            return Some(t.clone());
        }
        let k = self.quoted.iter().position(|q| q.1 == id)?;
        self.quoted_text.get(k).cloned()
    }
}

struct Viol {
    symptom: &'static str,
    detail: String,
}
fn viol(symptom: &'static str, detail: String) -> Viol {
    Viol { symptom, detail }
}

/// what an op did to the state
#[derive(Clone, Copy, PartialEq, Eq, Debug)]
enum Step {
    /// a new identifier was handed out
    Fresh,
    /// known term, same identifier, nothing changed physically
    Same,
    /// known term, same identifier, but the physical state moved (e.g. a counter): the statement
    /// allows that, so it is explored as a further state instead of being reported
    Moved,
}

/// Apply one op to the real objects, compare what comes back with the hand-out history, then read
/// the whole observation table.
fn dstep(st: &mut DState, op: DOp) -> Result<Step, Viol> {
    let known = match op {
        DOp::Enc(i) => st.plain.iter().any(|p| p.0 == TERMS[i as usize]),
        DOp::QEnc(i, j, k) => match (st.seen.get(i as usize), st.seen.get(j as usize), st.seen.get(k as usize)) {
            (Some(x), Some(y), Some(z)) => st.quoted.iter().any(|q| q.0 == (x.0, y.0, z.0)),
            _ => false,
        },
    };
    // the complete physical state is only needed to tell a self-loop from a move
    let before = if known { st.fingerprint() } else { Vec::new() };
    let fresh: Step;
    match op {
        DOp::Enc(i) => {
            let t = TERMS[i as usize];
            let got = guarded(|| st.dict.encode(t)).map_err(|p| viol("panic", format!("Dictionary::encode({:?}) panicked: {}", t, p)))?;
            match st.plain.iter().find(|p| p.0 == t) {
                Some((_, id)) => {
                    if *id != got {
                        return Err(viol("term_encodes_to_a_different_id", format!("encode({:?}) returned {} but returned {} earlier", t, got, id)));
                    }
                    fresh = if st.fingerprint() != before { Step::Moved } else { Step::Same };
                }
                None => {
                    if got & QBIT != 0 {
                        return Err(viol("plain_id_in_quoted_range", format!("encode({:?}) returned {:#x}, which lies in the quoted-triple range", t, got)));
                    }
                    if let Some((other, _)) = st.plain.iter().find(|p| p.1 == got) {
                        return Err(viol("distinct_terms_share_an_id", format!("encode({:?}) returned {} which already identifies {:?}", t, got, other)));
                    }
                    st.plain.push((t.to_string(), got));
                    st.seen.push((got, 0));
                    fresh = Step::Fresh;
                }
            }
        }
        DOp::QEnc(i, j, k) => {
            let get = |x: u8| st.seen.get(x as usize).copied().ok_or_else(|| viol("bad_case", format!("component index {} out of range", x)));
            let (x, y, z) = (get(i)?, get(j)?, get(k)?);
            let comps = (x.0, y.0, z.0);
            let level = 1 + x.1.max(y.1).max(z.1);
            let got = guarded(|| st.qts.encode(comps.0, comps.1, comps.2)).map_err(|p| viol("panic", format!("QuotedTripleStore::encode{:?} panicked: {}", comps, p)))?;
            if got & QBIT == 0 {
                return Err(viol("quoted_id_outside_quoted_range", format!("QuotedTripleStore::encode{:?} returned {:#x}, high bit not set", comps, got)));
            }
            match st.quoted.iter().find(|q| q.0 == comps) {
                Some((_, id)) => {
                    if *id != got {
                        return Err(viol("term_encodes_to_a_different_id", format!("quoted encode{:?} returned {:#x} but returned {:#x} earlier", comps, got, id)));
                    }
                    fresh = if st.fingerprint() != before { Step::Moved } else { Step::Same };
                }
                None => {
                    if let Some((other, _)) = st.quoted.iter().find(|q| q.1 == got) {
                        return Err(viol("distinct_terms_share_an_id", format!("quoted encode{:?} returned {:#x} which already identifies {:?}", comps, got, other)));
                    }
                    let text = match (st.render(comps.0), st.render(comps.1), st.render(comps.2)) {
                        (Some(a), Some(b), Some(c)) => format!("<< {} {} {} >>", a, b, c),
                        _ => return Err(viol("bad_case", format!("component of {:?} was never handed out", comps))),
                    };
                    st.quoted.push((comps, got));
                    st.quoted_text.push(text);
                    st.seen.push((got, level));
                    fresh = Step::Fresh;
                }
            }
        }
    }
    dobserve(st)?;
    Ok(fresh)
}

/// The decode half of the alphabet, made in every state: every identifier handed out so far and
/// unseen ones, through both objects, plus both directions of both public maps.
fn dobserve(st: &DState) -> Result<u64, Viol> {
    let mut n = 0u64;
    for (t, id) in &st.plain {
        n += 3;
        match st.dict.decode(*id) {
            Some(s) if s == t => {}
            other => return Err(viol("decode_does_not_return_the_original_term", format!("decode({}) = {:?}, but {} was handed out for {:?}", id, other, id, t))),
        }
        if st.dict.string_to_id.get(t) != Some(id) {
            return Err(viol("maps_not_mutually_inverse", format!("string_to_id[{:?}] = {:?}, handed out {}", t, st.dict.string_to_id.get(t), id)));
        }
        if st.qts.decode(*id).is_some() {
            return Err(viol("plain_id_known_to_quoted_store", format!("QuotedTripleStore::decode({}) = {:?} for a plain id", id, st.qts.decode(*id))));
        }
    }
    if st.dict.id_to_string.len() != st.plain.len() || st.dict.string_to_id.len() != st.plain.len() {
        return Err(viol("maps_not_mutually_inverse", format!("{} terms handed out, id_to_string has {} entries, string_to_id has {}", st.plain.len(), st.dict.id_to_string.len(), st.dict.string_to_id.len())));
    }
    for ((c, id), k) in st.quoted.iter().zip(0u32..) {
        n += 4;
        if st.qts.decode(*id) != Some(*c) {
            return Err(viol("decode_does_not_return_the_original_term", format!("quoted decode({:#x}) = {:?}, but it was handed out for {:?}", id, st.qts.decode(*id), c)));
        }
        if st.qts.components_to_id.get(c) != Some(id) {
            return Err(viol("maps_not_mutually_inverse", format!("components_to_id[{:?}] = {:?}, handed out {:#x}", c, st.qts.components_to_id.get(c), id)));
        }
        if st.dict.decode(*id).is_some() {
            return Err(viol("quoted_id_known_to_dictionary", format!("Dictionary::decode({:#x}) = {:?} for a quoted id", id, st.dict.decode(*id))));
        }
        let want = st.quoted_text.get(k as usize);
        let got = st.dict.decode_term(*id, &st.qts);
        if want.is_none() || got.as_ref() != want {
            return Err(viol("decode_does_not_return_the_original_term", format!("decode_term({:#x}) = {:?}, the quoted triple handed out {}-th is {:?}", id, got, k, want)));
        }
    }
    if st.qts.id_to_components.len() != st.quoted.len() || st.qts.components_to_id.len() != st.quoted.len() || st.qts.len() != st.quoted.len() {
        return Err(viol("maps_not_mutually_inverse", format!("{} quoted triples handed out, id_to_components has {}, components_to_id has {}", st.quoted.len(), st.qts.id_to_components.len(), st.qts.components_to_id.len())));
    }
    // identifiers never handed out decode to nothing
    let unseen_plain = [st.plain.iter().map(|p| p.1).max().map_or(0, |m| m + 1), 0x7fff_ffff];
    let unseen_quoted = [st.quoted.iter().map(|q| q.1).max().map_or(QBIT, |m| m.wrapping_add(1)), 0xffff_fffe];
    for id in unseen_plain.into_iter().chain(unseen_quoted) {
        if st.level_of(id).is_some() {
            continue;
        }
        n += 2;
        if st.dict.decode(id).is_some() || st.qts.decode(id).is_some() {
            return Err(viol("unseen_id_decodes", format!("identifier {:#x} was never handed out but decodes to {:?} / {:?}", id, st.dict.decode(id), st.qts.decode(id))));
        }
    }
    Ok(n)
}

fn replay_dict(ops: &[DOp]) -> Result<DState, (usize, Viol)> {
    let mut st = DState::new();
    dobserve(&st).map_err(|v| (0, v))?;
    for (i, op) in ops.iter().enumerate() {
        dstep(&mut st, *op).map_err(|v| (i, v))?;
    }
    Ok(st)
}

fn fail_dict(out: &mut ShardOut, ops: &[DOp], step: usize, v: Viol) {
    let upto: Vec<Value> = ops[..=step.min(ops.len().saturating_sub(1))].iter().map(dop_json).collect();
    let mut tags = vec!["part=dictionary".to_string()];
    if let Some(op) = ops.get(step) {
        tags.push(match op {
            DOp::Enc(_) => "last_op=encode".to_string(),
            DOp::QEnc(..) => "last_op=quoted_encode".to_string(),
        });
    }
    if ops.iter().any(|o| matches!(o, DOp::QEnc(..))) {
        tags.push("uses_quoted_store".into());
    }
    if ops.iter().any(|o| matches!(o, DOp::Enc(i) if *i >= BFS_TERMS)) {
        tags.push("uses_related_terms".into());
    }
    out.fail(json!({"part": "dictionary", "ops": upto}), v.symptom, v.detail, tags);
}

/// A level-(d+1) state is counted once: through the transition from its canonical parent (the
/// parent that lacks its last quoted triple, or - without quoted triples - its last term).
fn canonical_transition(parent: &DState, op: DOp) -> bool {
    match op {
        DOp::QEnc(..) => true,
        DOp::Enc(_) => parent.quoted.is_empty(),
    }
}

fn part1(ctx: &Ctx, out: &mut ShardOut) {
    let depth: usize = if ctx.thorough() { 6 } else { 5 };
    let lead = ctx.shard == 0;
    let mut seen: HashSet<Vec<u8>> = HashSet::new();
    let root = DState::new();
    seen.insert(root.fingerprint());
    if lead {
        out.states += 1;
        if let Err(v) = dobserve(&root) {
            out.fail(json!({"part": "dictionary", "ops": []}), v.symptom, v.detail, vec!["part=dictionary".into()]);
        }
    }
    if lead {
        // informational, not a verdict: the derived `Default` of QuotedTripleStore (unused in the repository)
        // starts its counter at 0, so its first identifier lacks the high bit. Recorded so that the fact is
        // measured rather than remembered; the search itself uses QuotedTripleStore::new().
        let first = guarded(|| QuotedTripleStore::default().encode(1, 2, 3)).unwrap_or(u32::MAX);
        out.count("info_first_id_of_default_constructed_quoted_store", first as u64);
        out.count("info_default_constructed_quoted_store_id_in_quoted_range", (first & QBIT != 0) as u64);
    }
    related_family(ctx, out);
    if lead {
        threshold_family(out);
    }
    let mut frontier: Vec<Vec<DOp>> = vec![vec![]];
    let mut moved_seen = false;
    for level in 1..=depth {
        let last = level == depth;
        let level_key = format!("dict_states_at_depth_{}", level);
        let mut next: Vec<Vec<DOp>> = Vec::new();
        let mut canonical_new = 0u64;
        let mut dedup_new = 0u64;
        for (fi, path) in frontier.iter().enumerate() {
            // the final level is split over all shards; the inner levels are rebuilt by every shard
            // (needed for the frontier) but checked and counted by shard 0 only
            let counted = if last { ctx.mine(fi as u64) } else { lead };
            if last && !counted {
                continue;
            }
            if fi % 256 == 0 && ctx.expired() {
                out.capped.push(format!("wall-clock cap hit in the dictionary search at depth {} (depth {} completed)", level, level - 1));
                return;
            }
            let parent = match replay_dict(path) {
                Ok(s) => s,
                Err(_) => continue, // already reported when this path was generated
            };
            for op in parent.ops() {
                let mut st = parent.clone();
                let mut p2 = path.clone();
                p2.push(op);
                let r = dstep(&mut st, op);
                if counted {
                    out.transitions += 1;
                    out.evaluations += 1;
                }
                match r {
                    Err(v) => {
                        if counted {
                            // determinism before verdict
                            match replay_dict(&p2) {
                                Err((_, v2)) if v2.symptom == v.symptom => fail_dict(out, &p2, p2.len() - 1, v),
                                _ => out.machinery_errors.push(format!("non-deterministic re-execution of dictionary ops {:?}", p2)),
                            }
                        }
                    }
                    Ok(Step::Same) => {
                        if counted {
                            out.count("dict_reencode_self_loops", 1);
                        }
                    }
                    Ok(step) => {
                        let is_new = if step == Step::Moved {
                            // never seen on the unchanged tree; keeps the search complete if re-encoding
                            // starts to touch the physical state (counts of the last level may then
                            // contain duplicates across shards)
                            moved_seen = true;
                            if counted {
                                out.count("dict_reencode_moved_the_physical_state", 1);
                            }
                            seen.insert(st.fingerprint())
                        } else {
                            let canon = canonical_transition(&parent, op);
                            if canon {
                                canonical_new += 1;
                            }
                            let fresh_new = if last && !moved_seen { canon } else { seen.insert(st.fingerprint()) };
                            if !last && fresh_new {
                                dedup_new += 1;
                            }
                            fresh_new
                        };
                        if !is_new {
                            if counted {
                                out.count("dict_dedup_hits", 1);
                            }
                            continue;
                        }
                        if counted {
                            out.states += 1;
                            out.traces += 1;
                            out.max_depth = out.max_depth.max(level as u64);
                            out.count(&level_key, 1);
                            let max_level = st.seen.iter().map(|s| s.1).max().unwrap_or(0);
                            if max_level >= 2 {
                                out.count("dict_states_with_nested_quoted", 1);
                            }
                            if !st.quoted.is_empty() && st.plain.len() >= 2 {
                                out.count("dict_nontrivial_states", 1);
                                if !last {
                                    // the last level is too large to ship as a set; it is counted above only
                                    out.nontrivial(&("dict", st.fingerprint()));
                                }
                            }
                            if out.states % 50_000 == 17 {
                                out.sample(json!({"part": "dictionary", "ops": p2.iter().map(dop_json).collect::<Vec<_>>(), "plain_ids": st.plain, "quoted_ids": st.quoted.iter().map(|q| json!({"components": [q.0 .0, q.0 .1, q.0 .2], "id": q.1, "decodes_to": st.render(q.1)})).collect::<Vec<_>>()}));
                            }
                        }
                        if !last {
                            next.push(p2);
                        }
                    }
                }
            }
        }
        // cross-check of the counting rule used for the last level against real de-duplication
        if !last && !moved_seen && canonical_new != dedup_new {
            out.machinery_errors.push(format!("dictionary search: canonical-parent count {} != de-duplicated count {} at depth {}", canonical_new, dedup_new, level));
        }
        frontier = next;
        if lead {
            out.max("max_dict_depth_completed", level as u64);
        }
    }
}

/// Part 1b: related terms. Every sequence (repetitions included) of Dictionary::encode calls over
/// eight related values, then one quoted triple over (first id, last id, first id); the whole
/// observation table after every call. Plain tree search (no de-duplication).
fn related_family(ctx: &Ctx, out: &mut ShardOut) {
    let depth = if ctx.thorough() { 6 } else { 5 };
    fn rec(path: &mut Vec<DOp>, depth: usize, out: &mut ShardOut) {
        if !path.is_empty() {
            // the sequence itself, then a quoted triple over its first and last identifier
            let mut full = path.clone();
            let distinct = path.iter().collect::<HashSet<_>>().len() as u8;
            full.push(DOp::QEnc(0, distinct - 1, 0));
            out.evaluations += 1;
            out.traces += 1;
            out.count("related_terms_sequences", 1);
            match replay_dict(&full) {
                Ok(st) => {
                    out.max("max_related_terms_in_one_dictionary", st.plain.len() as u64);
                    if st.plain.len() >= 2 {
                        out.count("related_terms_sequences_with_two_or_more_related_terms", 1);
                        out.nontrivial(&("related", st.fingerprint()));
                    }
                    if path.len() > st.plain.len() {
                        out.count("related_terms_sequences_with_a_re_encode", 1);
                    }
                }
                Err((step, v)) => match replay_dict(&full) {
                    Err((_, v2)) if v2.symptom == v.symptom => fail_dict(out, &full, step, v),
                    _ => out.machinery_errors.push(format!("non-deterministic re-execution of dictionary ops {:?}", full)),
                },
            }
        }
        if path.len() >= depth {
            return;
        }
        for t in RELATED {
            path.push(DOp::Enc(t));
            rec(path, depth, out);
            path.pop();
        }
    }
    // sharded by the first term
    for (k, t) in RELATED.iter().enumerate() {
        if !ctx.mine(k as u64) {
            continue;
        }
        let mut path = vec![DOp::Enc(*t)];
        rec(&mut path, depth, out);
    }
    out.max("max_related_terms_depth", depth as u64);
}

/// Part 1c: the two counter thresholds. The Dictionary refuses (assert) to hand out identifiers at or
/// beyond 2^31; the quoted store's counter ends at 2^32 - 1. Both are reached by setting the public
/// counter field (the result of encoding a fresh term depends on the counter only) instead of making
/// 2^31 calls. Oracle: every call either panics or returns an identifier of the right range that was
/// not handed out before and decodes to what was encoded.
fn threshold_case(store: &str, back: u32, out: &mut ShardOut) -> Option<Viol> {
    let calls = 5u32;
    let mut handed: Vec<u32> = Vec::new();
    if store == "dictionary" {
        let mut d = Dictionary::new();
        d.next_id = QBIT - back;
        for k in 0..calls {
            let t = format!("t{}", k);
            out.count("threshold_calls", 1);
            match guarded(|| d.encode(&t)) {
                Err(_) => out.count("threshold_calls_refused_by_panic", 1),
                Ok(id) => {
                    out.count("threshold_ids_handed_out", 1);
                    if id & QBIT != 0 {
                        return Some(viol("plain_id_in_quoted_range", format!("with next_id = 2^31 - {}, encode({:?}) (call {}) returned {:#x}, which lies in the quoted-triple range", back, t, k, id)));
                    }
                    if handed.contains(&id) {
                        return Some(viol("distinct_terms_share_an_id", format!("with next_id = 2^31 - {}, encode({:?}) (call {}) returned {:#x} again", back, t, k, id)));
                    }
                    if d.decode(id) != Some(t.as_str()) {
                        return Some(viol("decode_does_not_return_the_original_term", format!("with next_id = 2^31 - {}, decode({:#x}) = {:?} after encode({:?})", back, id, d.decode(id), t)));
                    }
                    handed.push(id);
                }
            }
        }
    } else {
        let mut q = QuotedTripleStore::new();
        q.next_qt_id = (u32::MAX - back).wrapping_add(1);
        for k in 0..calls {
            out.count("threshold_calls", 1);
            match guarded(|| q.encode(k, k, k)) {
                Err(_) => out.count("threshold_calls_refused_by_panic", 1),
                Ok(id) => {
                    out.count("threshold_ids_handed_out", 1);
                    if id & QBIT == 0 {
                        return Some(viol("quoted_id_outside_quoted_range", format!("with next_qt_id = 2^32 - {}, quoted encode({},{},{}) returned {:#x}, high bit not set", back, k, k, k, id)));
                    }
                    if handed.contains(&id) {
                        return Some(viol("distinct_terms_share_an_id", format!("with next_qt_id = 2^32 - {}, quoted encode({},{},{}) returned {:#x} again", back, k, k, k, id)));
                    }
                    if q.decode(id) != Some((k, k, k)) {
                        return Some(viol("decode_does_not_return_the_original_term", format!("with next_qt_id = 2^32 - {}, quoted decode({:#x}) = {:?} after encode({},{},{})", back, id, q.decode(id), k, k, k)));
                    }
                    handed.push(id);
                }
            }
        }
    }
    None
}

fn threshold_family(out: &mut ShardOut) {
    for store in ["dictionary", "quoted"] {
        for back in 1..=3u32 {
            out.evaluations += 1;
            if let Some(v) = threshold_case(store, back, out) {
                out.fail(json!({"part": "threshold", "store": store, "back": back}), v.symptom, v.detail, vec!["part=threshold".into(), format!("store={}", store)]);
            }
        }
    }
}

// ---------------------------------------------------------------------------------------------
// Part 2: union of two independently built databases
// ---------------------------------------------------------------------------------------------

const A: &str = "http://e/a";
const B: &str = "http://e/b";
const C: &str = "http://e/c";
const P: &str = "http://e/p";
const Q: &str = "http://e/q";
const L1: &str = "1";
const G1: &str = "http://e/g1";
const G2: &str = "http://e/g2";

#[derive(Clone, Copy, Debug, PartialEq, Eq, Hash, PartialOrd, Ord)]
enum UOp {
    /// add_triple_parts(a, p, b)
    TripleApb,
    /// add_triple_parts(b, q, a)
    TripleBqa,
    /// add_quad_parts(a, p, b, g1) — the same triple in a named graph
    QuadApbG1,
    /// add_quad_parts(c, q, "1", g2)
    QuadCq1G2,
    /// dictionary.encode(g2) + dataset_index.create_graph — an empty named graph
    EmptyG2,
    /// (<< a p b >>, q, c) in the default graph, quoted term through encode_term_star
    QuotedSubject,
    /// (c, p, << b q a >>) in g1, quoted term through QuotedTripleStore::encode
    QuotedObjectG1,
    /// (c, p, << << a p b >> q "1" >>) in the default graph
    Nested,
    /// add_tagged_triple(a, p, b, 0.3)
    TaggedApb,
    /// add_tagged_triple(c, q, "1", 0.7)
    TaggedCq1,
    // ---- second alphabet (round 3) ----
    /// encode_term_star("<< c q a >>") and nothing else: a quoted term no quad refers to
    QuotedUnreferenced,
    /// (c, p, << a q << b q a >> >>): a quoted term as OBJECT component of a quoted term
    NestedObjComp,
    /// (<< a << b q a >> c >>, q, b): a quoted term as PREDICATE component of a quoted term
    NestedPredComp,
    /// (<< a p b >>, q, c) in the default graph plus probability_seeds[(<< a p b >>, q, c)] = 0.5
    SeedQuoted,
    /// add_triple_parts(g1, p, a): the graph name of QuadApbG1 / QuotedObjectG1 used as a subject
    TripleG1pa,
    /// add_triple_parts("http://e/A", p, " 1"): case / white-space twins of a and "1"
    TripleRelated,
}
/// first alphabet (histories up to length 3, thorough 4)
const UOPS_OLD: [UOp; 10] = [UOp::TripleApb, UOp::TripleBqa, UOp::QuadApbG1, UOp::QuadCq1G2, UOp::EmptyG2, UOp::QuotedSubject, UOp::QuotedObjectG1, UOp::Nested, UOp::TaggedApb, UOp::TaggedCq1];
/// full alphabet (histories up to length 2; thorough: 3 against partners of length <= 1)
const UOPS: [UOp; 16] = [
    UOp::TripleApb,
    UOp::TripleBqa,
    UOp::QuadApbG1,
    UOp::QuadCq1G2,
    UOp::EmptyG2,
    UOp::QuotedSubject,
    UOp::QuotedObjectG1,
    UOp::Nested,
    UOp::TaggedApb,
    UOp::TaggedCq1,
    UOp::QuotedUnreferenced,
    UOp::NestedObjComp,
    UOp::NestedPredComp,
    UOp::SeedQuoted,
    UOp::TripleG1pa,
    UOp::TripleRelated,
];
const A_UPPER: &str = "http://e/A";
const L1_SPACE: &str = " 1";

fn uop_name(op: UOp) -> String {
    format!("{:?}", op)
}
fn parse_uop(s: &str) -> Option<UOp> {
    UOPS.iter().copied().find(|o| uop_name(*o) == s)
}

fn apply_model(m: &mut AbstractDb, op: UOp) {
    let t = T::p;
    match op {
        UOp::TripleApb => m.add(&t(A), &t(P), &t(B), None),
        UOp::TripleBqa => m.add(&t(B), &t(Q), &t(A), None),
        UOp::QuadApbG1 => m.add(&t(A), &t(P), &t(B), Some(G1)),
        UOp::QuadCq1G2 => m.add(&t(C), &t(Q), &t(L1), Some(G2)),
        UOp::EmptyG2 => m.create_graph(G2),
        UOp::QuotedSubject => m.add(&T::q(t(A), t(P), t(B)), &t(Q), &t(C), None),
        UOp::QuotedObjectG1 => m.add(&t(C), &t(P), &T::q(t(B), t(Q), t(A)), Some(G1)),
        UOp::Nested => m.add(&t(C), &t(P), &T::q(T::q(t(A), t(P), t(B)), t(Q), t(L1)), None),
        UOp::TaggedApb => m.tag(&t(A), &t(P), &t(B), 0.3),
        UOp::TaggedCq1 => m.tag(&t(C), &t(Q), &t(L1), 0.7),
        UOp::QuotedUnreferenced => m.note_quoted(&T::q(t(C), t(Q), t(A))),
        UOp::NestedObjComp => m.add(&t(C), &t(P), &T::q(t(A), t(Q), T::q(t(B), t(Q), t(A))), None),
        UOp::NestedPredComp => m.add(&T::q(t(A), T::q(t(B), t(Q), t(A)), t(C)), &t(Q), &t(B), None),
        UOp::SeedQuoted => m.tag(&T::q(t(A), t(P), t(B)), &t(Q), &t(C), 0.5),
        UOp::TripleG1pa => m.add(&t(G1), &t(P), &t(A), None),
        UOp::TripleRelated => m.add(&t(A_UPPER), &t(P), &t(L1_SPACE), None),
    }
}

fn apply_real(db: &mut SparqlDatabase, op: UOp) {
    let enc = |db: &SparqlDatabase, s: &str| db.dictionary.write().unwrap().encode(s);
    match op {
        UOp::TripleApb => db.add_triple_parts(A, P, B),
        UOp::TripleBqa => db.add_triple_parts(B, Q, A),
        UOp::QuadApbG1 => {
            db.add_quad_parts(A, P, B, G1);
        }
        UOp::QuadCq1G2 => {
            db.add_quad_parts(C, Q, L1, G2);
        }
        UOp::EmptyG2 => {
            let g = enc(db, G2);
            db.dataset_index.create_graph(GraphId::Named(g));
        }
        UOp::QuotedSubject => {
            let s = db.encode_term_star(&format!("<< <{}> <{}> <{}> >>", A, P, B));
            let p = enc(db, Q);
            let o = enc(db, C);
            db.add_triple(Triple { subject: s, predicate: p, object: o });
        }
        UOp::QuotedObjectG1 => {
            let s = enc(db, C);
            let p = enc(db, P);
            let (qs, qp, qo) = (enc(db, B), enc(db, Q), enc(db, A));
            let o = db.quoted_triple_store.write().unwrap().encode(qs, qp, qo);
            let g = enc(db, G1);
            db.add_quad(Quad { subject: s, predicate: p, object: o, graph: GraphId::Named(g) });
        }
        UOp::Nested => {
            let (ia, ip, ib) = (enc(db, A), enc(db, P), enc(db, B));
            let inner = db.quoted_triple_store.write().unwrap().encode(ia, ip, ib);
            let (iq, il) = (enc(db, Q), enc(db, L1));
            let outer = db.quoted_triple_store.write().unwrap().encode(inner, iq, il);
            let s = enc(db, C);
            db.add_triple(Triple { subject: s, predicate: ip, object: outer });
        }
        UOp::TaggedApb => db.add_tagged_triple(A, P, B, 0.3),
        UOp::TaggedCq1 => db.add_tagged_triple(C, Q, L1, 0.7),
        UOp::QuotedUnreferenced => {
            db.encode_term_star(&format!("<< <{}> <{}> <{}> >>", C, Q, A));
        }
        UOp::NestedObjComp => {
            let (ib, iq, ia) = (enc(db, B), enc(db, Q), enc(db, A));
            let inner = db.quoted_triple_store.write().unwrap().encode(ib, iq, ia);
            let outer = db.quoted_triple_store.write().unwrap().encode(ia, iq, inner);
            let (s, p) = (enc(db, C), enc(db, P));
            db.add_triple(Triple { subject: s, predicate: p, object: outer });
        }
        UOp::NestedPredComp => {
            let (ib, iq, ia) = (enc(db, B), enc(db, Q), enc(db, A));
            let inner = db.quoted_triple_store.write().unwrap().encode(ib, iq, ia);
            let ic = enc(db, C);
            let outer = db.quoted_triple_store.write().unwrap().encode(ia, inner, ic);
            db.add_triple(Triple { subject: outer, predicate: iq, object: ib });
        }
        UOp::SeedQuoted => {
            let s = db.encode_term_star(&format!("<< <{}> <{}> <{}> >>", A, P, B));
            let p = enc(db, Q);
            let o = enc(db, C);
            let t = Triple { subject: s, predicate: p, object: o };
            db.add_triple(t.clone());
            db.probability_seeds.insert(t, 0.5);
        }
        UOp::TripleG1pa => db.add_triple_parts(G1, P, A),
        UOp::TripleRelated => db.add_triple_parts(A_UPPER, P, L1_SPACE),
    }
}

fn build(ops: &[UOp]) -> (SparqlDatabase, AbstractDb) {
    let mut db = SparqlDatabase::new();
    let mut m = AbstractDb::default();
    for op in ops {
        apply_real(&mut db, *op);
        apply_model(&mut m, *op);
    }
    (db, m)
}

/// what a real database denotes, read through decode_any only
fn extract(db: &SparqlDatabase) -> Result<AbstractDb, String> {
    let dec = |id: u32| db.decode_any(id).ok_or_else(|| format!("identifier {:#x} used by the database does not decode", id));
    let mut m = AbstractDb::default();
    for q in db.dataset_index.all_quads() {
        let g = match q.graph {
            GraphId::Default => None,
            GraphId::Named(g) => Some(dec(g)?),
        };
        m.quads.insert((dec(q.subject)?, dec(q.predicate)?, dec(q.object)?, g));
    }
    for g in db.dataset_index.named_graphs() {
        if let GraphId::Named(g) = g {
            m.graphs.insert(dec(g)?);
        }
    }
    for (t, p) in &db.probability_seeds {
        let k = (dec(t.subject)?, dec(t.predicate)?, dec(t.object)?);
        if let Some(old) = m.seeds.insert(k.clone(), p.to_bits()) {
            if old != p.to_bits() {
                return Err(format!("two seed entries denote the same triple {:?} with different probabilities", k));
            }
        }
    }
    let ids: Vec<u32> = db.quoted_triple_store.read().unwrap().id_to_components.keys().copied().collect();
    for id in ids {
        let s = dec(id)?;
        if !m.quoted.insert(s.clone()) {
            return Err(format!("two quoted-triple identifiers denote the same term {}", s));
        }
    }
    Ok(m)
}

/// identifiers handed out so far (both stores)
#[derive(Clone, PartialEq, Eq, Debug)]
struct IdTable {
    plain: BTreeMap<u32, String>,
    quoted: BTreeMap<u32, (u32, u32, u32)>,
}
fn id_table(db: &SparqlDatabase) -> IdTable {
    IdTable {
        plain: db.dictionary.read().unwrap().id_to_string.iter().map(|(k, v)| (*k, v.clone())).collect(),
        quoted: db.quoted_triple_store.read().unwrap().id_to_components.iter().map(|(k, v)| (*k, *v)).collect(),
    }
}
fn ids_kept(before: &IdTable, after: &IdTable) -> Result<(), String> {
    for (id, s) in &before.plain {
        if after.plain.get(id) != Some(s) {
            return Err(format!("identifier {} denoted {:?} before the union and {:?} afterwards", id, s, after.plain.get(id)));
        }
    }
    for (id, c) in &before.quoted {
        if after.quoted.get(id) != Some(c) {
            return Err(format!("quoted identifier {:#x} denoted {:?} before the union and {:?} afterwards", id, c, after.quoted.get(id)));
        }
    }
    Ok(())
}

/// the union's own identifier maps: two pairs of mutually inverse maps, disjoint ranges, and fresh
/// terms get unused identifiers
fn bijection(u: &SparqlDatabase) -> Result<(), String> {
    {
        let d = u.dictionary.read().unwrap();
        let q = u.quoted_triple_store.read().unwrap();
        if d.id_to_string.len() != d.string_to_id.len() {
            return Err(format!("dictionary maps differ in size: {} ids, {} strings", d.id_to_string.len(), d.string_to_id.len()));
        }
        for (id, s) in &d.id_to_string {
            if id & QBIT != 0 {
                return Err(format!("plain term {:?} has identifier {:#x} in the quoted range", s, id));
            }
            if d.string_to_id.get(s) != Some(id) || d.decode(*id) != Some(s.as_str()) {
                return Err(format!("identifier {} -> {:?} -> {:?}", id, s, d.string_to_id.get(s)));
            }
        }
        if q.id_to_components.len() != q.components_to_id.len() {
            return Err(format!("quoted maps differ in size: {} ids, {} component triples", q.id_to_components.len(), q.components_to_id.len()));
        }
        for (id, c) in &q.id_to_components {
            if id & QBIT == 0 {
                return Err(format!("quoted triple {:?} has identifier {:#x} outside the quoted range", c, id));
            }
            if q.components_to_id.get(c) != Some(id) || q.decode(*id) != Some(*c) {
                return Err(format!("quoted identifier {:#x} -> {:?} -> {:?}", id, c, q.components_to_id.get(c)));
            }
        }
    }
    // more terms arrive: they must get identifiers nobody holds, and nothing earlier may move
    let before = id_table(u);
    let fresh = u.dictionary.write().unwrap().encode("http://e/fresh");
    if before.plain.contains_key(&fresh) || fresh & QBIT != 0 {
        return Err(format!("a fresh term encoded into the union got identifier {:#x}, which {}", fresh, if fresh & QBIT != 0 { "lies in the quoted range".to_string() } else { format!("already denotes {:?}", before.plain.get(&fresh)) }));
    }
    let fq = u.quoted_triple_store.write().unwrap().encode(fresh, fresh, fresh);
    if before.quoted.contains_key(&fq) || fq & QBIT == 0 {
        return Err(format!("a fresh quoted triple encoded into the union got identifier {:#x}, which {}", fq, if fq & QBIT == 0 { "lies outside the quoted range".to_string() } else { format!("already denotes {:?}", before.quoted.get(&fq)) }));
    }
    ids_kept(&before, &id_table(u))?;
    if u.decode_any(fresh).as_deref() != Some("http://e/fresh") {
        return Err("the fresh term does not decode".into());
    }
    Ok(())
}

#[derive(Debug, Clone, PartialEq, Eq)]
struct UViol {
    symptom: &'static str,
    component: &'static str,
    detail: String,
}

fn diff<Tk: Ord + Clone + std::fmt::Debug>(got: &BTreeSet<Tk>, want: &BTreeSet<Tk>) -> String {
    let missing: Vec<_> = want.difference(got).collect();
    let foreign: Vec<_> = got.difference(want).collect();
    format!("missing {:?}; foreign {:?}", missing, foreign)
}

#[derive(Default)]
struct PairFacts {
    plain_clash: bool,
    quoted_clash: bool,
    shared_term_other_id: bool,
    union_quads: usize,
    skipped_conflict: bool,
}

/// one case: build both databases from scratch, union, compare. All violations found are returned.
fn run_pair(oa: &[UOp], ob: &[UOp]) -> (Vec<UViol>, PairFacts, Option<(AbstractDb, AbstractDb, AbstractDb)>) {
    let mut v: Vec<UViol> = Vec::new();
    let mut facts = PairFacts::default();
    let built = guarded(|| (build(oa), build(ob)));
    let ((mut a, ma), (b, mb)) = match built {
        Ok(x) => x,
        Err(p) => {
            v.push(UViol { symptom: "panic", component: "build", detail: format!("building the operands panicked: {}", p) });
            return (v, facts, None);
        }
    };
    // precondition of the oracle: the operands denote what the model says (otherwise the expectation
    // below is meaningless) — a disagreement here is reported on its own
    let (xa, xb) = (extract(&a), extract(&b));
    for (name, x, m) in [("self", &xa, &ma), ("other", &xb, &mb)] {
        match x {
            Err(e) => v.push(UViol { symptom: "operand_does_not_denote_what_was_added", component: "build", detail: format!("operand {}: {}", name, e) }),
            Ok(x) if x != m => v.push(UViol { symptom: "operand_does_not_denote_what_was_added", component: "build", detail: format!("operand {} denotes {:?}, the calls made add up to {:?}", name, x, m) }),
            _ => {}
        }
    }
    if !v.is_empty() {
        return (v, facts, None);
    }
    let want = match ma.union(&mb) {
        Some(w) => w,
        None => {
            facts.skipped_conflict = true;
            return (v, facts, None);
        }
    };
    let (ta, tb) = (id_table(&a), id_table(&b));
    facts.plain_clash = ta.plain.iter().any(|(id, s)| tb.plain.get(id).map_or(false, |t| t != s));
    facts.shared_term_other_id = ta.plain.iter().any(|(id, s)| tb.plain.iter().any(|(id2, t)| t == s && id2 != id));
    facts.quoted_clash = ta.quoted.keys().any(|id| tb.quoted.contains_key(id) && a.decode_any(*id) != b.decode_any(*id));
    facts.union_quads = want.quads.len();

    let u = match guarded(|| a.union(&b)) {
        Ok(u) => u,
        Err(p) => {
            v.push(UViol { symptom: "panic", component: "union", detail: format!("union panicked: {}", p) });
            return (v, facts, None);
        }
    };
    match guarded(|| extract(&u)) {
        Err(p) => v.push(UViol { symptom: "panic", component: "decode", detail: format!("reading the union panicked: {}", p) }),
        Ok(Err(e)) => v.push(UViol { symptom: "union_does_not_decode", component: "decode", detail: e }),
        Ok(Ok(got)) => {
            if got.quads != want.quads {
                v.push(UViol { symptom: "union_quads_wrong", component: "quads", detail: diff(&got.quads, &want.quads) });
            }
            if got.graphs != want.graphs {
                v.push(UViol { symptom: "union_graph_identities_wrong", component: "graphs", detail: diff(&got.graphs, &want.graphs) });
            }
            if got.quoted != want.quoted {
                v.push(UViol { symptom: "union_quoted_terms_wrong", component: "quoted_terms", detail: diff(&got.quoted, &want.quoted) });
            }
            if got.seeds != want.seeds {
                let g: BTreeSet<_> = got.seeds.iter().map(|(k, p)| (k.clone(), f64::from_bits(*p).to_string())).collect();
                let w: BTreeSet<_> = want.seeds.iter().map(|(k, p)| (k.clone(), f64::from_bits(*p).to_string())).collect();
                v.push(UViol { symptom: "union_probability_seeds_wrong", component: "seeds", detail: diff(&g, &w) });
            }
        }
    }
    match guarded(|| bijection(&u)) {
        Err(p) => v.push(UViol { symptom: "panic", component: "union_ids", detail: format!("encoding into the union panicked: {}", p) }),
        Ok(Err(e)) => v.push(UViol { symptom: "union_ids_not_a_stable_bijection", component: "union_ids", detail: e }),
        Ok(Ok(())) => {}
    }
    // the operands afterwards
    for (name, db, m, t) in [("self", &a, &ma, &ta), ("other", &b, &mb, &tb)] {
        let comp = if name == "self" { "operand_self" } else { "operand_other" };
        match extract(db) {
            Err(e) => v.push(UViol { symptom: "operand_changed_by_union", component: comp, detail: format!("operand {} after the union: {}", name, e) }),
            Ok(x) if x != *m => v.push(UViol { symptom: "operand_changed_by_union", component: comp, detail: format!("operand {} denotes {:?} after the union, {:?} before", name, x, m) }),
            _ => {}
        }
        if let Err(e) = ids_kept(t, &id_table(db)) {
            v.push(UViol { symptom: "operand_ids_changed_by_union", component: comp, detail: format!("operand {}: {}", name, e) });
        }
    }
    (v, facts, Some((ma, mb, want)))
}

fn has(ops: &[UOp], set: &[UOp]) -> bool {
    ops.iter().any(|o| set.contains(o))
}

/// structural facts about the pair
fn pair_tags(oa: &[UOp], ob: &[UOp], component: &str) -> Vec<String> {
    let mut t = vec!["part=union".to_string(), format!("component={}", component)];
    for (name, ops) in [("self", oa), ("other", ob)] {
        if ops.is_empty() {
            t.push(format!("{}_empty", name));
        }
        if has(ops, &[UOp::QuotedSubject, UOp::QuotedObjectG1, UOp::Nested, UOp::QuotedUnreferenced, UOp::NestedObjComp, UOp::NestedPredComp, UOp::SeedQuoted]) {
            t.push(format!("{}_has_quoted", name));
        }
        if has(ops, &[UOp::Nested, UOp::NestedObjComp, UOp::NestedPredComp]) {
            t.push(format!("{}_has_nested_quoted", name));
        }
        if has(ops, &[UOp::QuotedUnreferenced]) {
            t.push(format!("{}_has_unreferenced_quoted", name));
        }
        if has(ops, &[UOp::NestedObjComp]) {
            t.push(format!("{}_has_quoted_as_object_component", name));
        }
        if has(ops, &[UOp::NestedPredComp]) {
            t.push(format!("{}_has_quoted_as_predicate_component", name));
        }
        if has(ops, &[UOp::SeedQuoted]) {
            t.push(format!("{}_has_seed_on_quoted_triple", name));
        }
        if has(ops, &[UOp::TripleG1pa]) && has(ops, &[UOp::QuadApbG1, UOp::QuotedObjectG1]) {
            t.push(format!("{}_graph_name_also_a_term", name));
        }
        if has(ops, &[UOp::TripleRelated]) {
            t.push(format!("{}_has_related_terms", name));
        }
        if has(ops, &[UOp::QuadApbG1, UOp::QuadCq1G2, UOp::QuotedObjectG1]) {
            t.push(format!("{}_has_named_graph_quads", name));
        }
        if has(ops, &[UOp::EmptyG2]) && !has(ops, &[UOp::QuadCq1G2]) {
            t.push(format!("{}_has_empty_named_graph", name));
        }
        if has(ops, &[UOp::TaggedApb, UOp::TaggedCq1, UOp::SeedQuoted]) {
            t.push(format!("{}_has_seeds", name));
        }
    }
    t
}

fn pair_case(oa: &[UOp], ob: &[UOp]) -> Value {
    json!({"part": "union", "self": oa.iter().map(|o| uop_name(*o)).collect::<Vec<_>>(), "other": ob.iter().map(|o| uop_name(*o)).collect::<Vec<_>>()})
}

/// operand histories, shortest first: all sequences (repetitions included) of length <= 3 (thorough 4)
/// over the first alphabet and of length <= 2 (thorough 3, see `bounds`) over the full alphabet. `true` = the history
/// uses the first alphabet only.
fn sequences(thorough: bool) -> Vec<(Vec<UOp>, bool)> {
    let (lo, lf, lx) = bounds(thorough);
    let lf = lf.max(lx);
    let old_only = |s: &[UOp]| s.iter().all(|o| UOPS_OLD.contains(o));
    let mut all: Vec<(Vec<UOp>, bool)> = vec![(vec![], true)];
    let mut level: Vec<Vec<UOp>> = vec![vec![]];
    for len in 1..=lo.max(lf) {
        let mut next = Vec::new();
        for s in &level {
            for op in UOPS {
                let mut s2 = s.clone();
                s2.push(op);
                let old = old_only(&s2);
                if (old && len <= lo) || len <= lf {
                    next.push(s2);
                }
            }
        }
        all.extend(next.iter().map(|s| (s.clone(), old_only(s))));
        level = next;
    }
    all
}

/// (longest history over the first alphabet, longest history over the full alphabet, longest history
/// over the full alphabet when the partner's history has length <= 1)
fn bounds(thorough: bool) -> (usize, usize, usize) {
    if thorough {
        (4, 2, 3)
    } else {
        (3, 2, 2)
    }
}

/// complete physical state of everything `union` reads: both identifier stores with their counters,
/// the quad index (hook H3 dump, catalog included) and the seed table
fn physical(db: &SparqlDatabase) -> String {
    let d = db.dictionary.read().unwrap();
    let q = db.quoted_triple_store.read().unwrap();
    let mut a: Vec<_> = d.id_to_string.iter().collect();
    a.sort();
    let mut b: Vec<_> = d.string_to_id.iter().collect();
    b.sort();
    let mut c: Vec<_> = q.id_to_components.iter().collect();
    c.sort();
    let mut e: Vec<_> = q.components_to_id.iter().collect();
    e.sort();
    let mut s: Vec<_> = db.probability_seeds.iter().map(|(t, p)| (t.subject, t.predicate, t.object, p.to_bits())).collect();
    s.sort();
    format!("{:?}|{:?}|{}|{:?}|{:?}|{}|{}|{:?}|{}", a, b, d.next_id, c, e, q.next_qt_id, db.dataset_index.verif_fingerprint(), s, db.prefixes.len() + db.udfs.len() + db.rule_map.len() + db.model_decls.len())
}

fn check_pair(oa: &[UOp], ob: &[UOp], out: &mut ShardOut, sample: bool) {
    let (v, facts, models) = run_pair(oa, ob);
    out.evaluations += 1;
    out.traces += 1;
    out.transitions += 1; // the union call (build calls are counted once per history in part2)
    if facts.skipped_conflict {
        out.count("union_pairs_skipped_conflicting_probabilities", 1);
        return;
    }
    if !v.is_empty() {
        // determinism before verdict
        let (v2, _, _) = run_pair(oa, ob);
        if v2 != v {
            out.machinery_errors.push(format!("non-deterministic re-execution of {}: {:?} vs {:?}", pair_case(oa, ob), v, v2));
            return;
        }
        for x in v {
            out.fail(pair_case(oa, ob), x.symptom, x.detail, pair_tags(oa, ob, x.component));
        }
        return;
    }
    out.count("union_pairs_checked", 1);
    if facts.plain_clash {
        out.count("union_pairs_same_id_different_term", 1);
    }
    if facts.shared_term_other_id {
        out.count("union_pairs_same_term_different_id", 1);
    }
    if facts.quoted_clash {
        out.count("union_pairs_same_quoted_id_different_term", 1);
    }
    out.max("max_union_quads", facts.union_quads as u64);
    if let Some((ma, mb, want)) = models {
        if facts.plain_clash || facts.quoted_clash {
            out.nontrivial(&("union", &ma, &mb));
        }
        out.outcome(&want);
        if !mb.graphs.is_empty() && mb.graphs.iter().any(|g| !mb.quads.iter().any(|q| q.3.as_deref() == Some(g.as_str()))) {
            out.count("union_pairs_other_has_empty_named_graph", 1);
        }
        if !ma.seeds.is_empty() || !mb.seeds.is_empty() {
            out.count("union_pairs_with_seeds", 1);
        }
        if ma.quoted.len() + mb.quoted.len() > 0 {
            out.count("union_pairs_with_quoted_terms", 1);
        }
        // second alphabet: what the pair crosses (facts about the OTHER operand, the translated side)
        let referenced = |m: &AbstractDb, q: &String| m.quads.iter().any(|x| x.0.contains(q.as_str()) || x.1.contains(q.as_str()) || x.2.contains(q.as_str())) || m.seeds.keys().any(|k| k.0.contains(q.as_str()) || k.1.contains(q.as_str()) || k.2.contains(q.as_str()));
        if mb.quoted.iter().any(|q| !referenced(&mb, q)) {
            out.count("union_pairs_other_has_unreferenced_quoted_term", 1);
            if mb.quoted.iter().any(|q| !referenced(&mb, q) && !ma.quoted.contains(q)) {
                out.count("union_pairs_other_has_unreferenced_quoted_term_unknown_to_self", 1);
            }
        }
        if has(ob, &[UOp::NestedObjComp]) {
            out.count("union_pairs_other_has_quoted_as_object_component", 1);
        }
        if has(ob, &[UOp::NestedPredComp]) {
            out.count("union_pairs_other_has_quoted_as_predicate_component", 1);
        }
        if mb.seeds.keys().any(|k| k.0.starts_with("<<")) {
            out.count("union_pairs_other_has_seed_on_quoted_triple", 1);
        }
        if mb.graphs.iter().any(|g| mb.quads.iter().any(|x| &x.0 == g || &x.1 == g || &x.2 == g)) {
            out.count("union_pairs_other_uses_a_graph_name_as_a_term", 1);
        }
        let terms = |m: &AbstractDb| -> BTreeSet<String> { m.quads.iter().flat_map(|x| [x.0.clone(), x.1.clone(), x.2.clone()]).collect() };
        let (ta, tb) = (terms(&ma), terms(&mb));
        let twin = |x: &BTreeSet<String>, y: &BTreeSet<String>| (x.contains(A) && y.contains(A_UPPER)) || (x.contains(L1) && y.contains(L1_SPACE));
        if twin(&ta, &tb) || twin(&tb, &ta) {
            out.count("union_pairs_case_or_space_twin_terms_across_operands", 1);
        }
        if sample {
            out.sample(json!({"part": "union", "self": oa.iter().map(|o| uop_name(*o)).collect::<Vec<_>>(), "other": ob.iter().map(|o| uop_name(*o)).collect::<Vec<_>>(), "ids_clash": facts.plain_clash || facts.quoted_clash, "union_quads": want.quads, "union_named_graphs": want.graphs, "union_quoted_terms": want.quoted, "union_seeds": want.seeds.iter().map(|(k, p)| json!([k, f64::from_bits(*p)])).collect::<Vec<_>>()}));
        }
    }
}

fn part2(ctx: &Ctx, out: &mut ShardOut) {
    let seqs = sequences(ctx.thorough());
    let (lo, lf, lx) = bounds(ctx.thorough());
    let lead = ctx.shard == 0;
    // Explicit-state search over database histories: every sequence is executed on a fresh real
    // database; histories that end in the same physical state are merged (the union call reads nothing
    // but that state, so the first history reaching a state stands for all of them).
    let mut index: std::collections::HashMap<String, usize> = std::collections::HashMap::new();
    let mut reps: Vec<Vec<UOp>> = Vec::new();
    // shortest history over the first alphabet that reaches the state (usize::MAX: none)
    let mut rep_old_len: Vec<usize> = Vec::new();
    let mut rep_models: Vec<AbstractDb> = Vec::new();
    for (s, old_only) in &seqs {
        let built = guarded(|| build(s));
        let (db, m) = match built {
            Ok(x) => x,
            Err(p) => {
                if lead {
                    out.fail(json!({"part": "union", "self": s.iter().map(|o| uop_name(*o)).collect::<Vec<_>>(), "other": []}), "panic", format!("building the database panicked: {}", p), pair_tags(s, &[], "build"));
                }
                continue;
            }
        };
        if lead {
            out.transitions += s.len() as u64;
            out.count("union_build_calls", s.len() as u64);
            // every history (not only the representatives) must denote what its calls add up to
            match extract(&db) {
                Ok(x) if x == m => {}
                other => out.fail(json!({"part": "union", "self": s.iter().map(|o| uop_name(*o)).collect::<Vec<_>>(), "other": []}), "operand_does_not_denote_what_was_added", format!("database denotes {:?}, the calls made add up to {:?}", other, m), pair_tags(s, &[], "build")),
            }
        }
        let fp = physical(&db);
        match index.get(&fp) {
            Some(&k) => {
                if rep_models[k] != m {
                    out.machinery_errors.push(format!("two histories with the same physical state have different models: {:?} vs {:?}", reps[k], s));
                }
                if *old_only {
                    rep_old_len[k] = rep_old_len[k].min(s.len());
                }
                if lead {
                    out.count("union_histories_merged_into_an_earlier_physical_state", 1);
                }
            }
            None => {
                index.insert(fp, reps.len());
                reps.push(s.clone());
                rep_old_len.push(if *old_only { s.len() } else { usize::MAX });
                rep_models.push(m);
            }
        }
    }
    let n = reps.len();
    // a pair is in the bound when both operands are reached by first-alphabet histories of length <= lo,
    // or both by (any) histories of length <= lf, or one by a history of length <= lx and the other by a
    // history of length <= 1
    let in_bound = |i: usize, j: usize| {
        let (a, b) = (reps[i].len(), reps[j].len());
        (rep_old_len[i] <= lo && rep_old_len[j] <= lo) || (a <= lf && b <= lf) || (a.max(b) <= lx && a.min(b) <= 1)
    };
    if lead {
        out.count("union_histories_per_operand", seqs.len() as u64);
        out.count("union_distinct_physical_operands", n as u64);
        out.count("union_distinct_physical_operands_first_alphabet", rep_old_len.iter().filter(|l| **l <= lo).count() as u64);
        out.count("union_distinct_physical_operands_needing_the_second_alphabet", rep_old_len.iter().filter(|l| **l == usize::MAX).count() as u64);
        out.count("union_distinct_abstract_operands", rep_models.iter().collect::<BTreeSet<_>>().len() as u64);
        let mut pairs = 0u64;
        for i in 0..n {
            for j in 0..n {
                if in_bound(i, j) {
                    pairs += 1;
                }
            }
        }
        out.count("union_pairs_in_bound", pairs);
        out.states += n as u64;
    }
    // pairs ordered by the longer representative, so that a capped run has completed a stated bound
    let maxlen = reps.iter().map(|s| s.len()).max().unwrap_or(0);
    let mut idx = 0u64;
    let mut completed: i64 = -1;
    for bound in 0..=maxlen {
        for i in 0..n {
            for j in 0..n {
                if reps[i].len().max(reps[j].len()) != bound || !in_bound(i, j) {
                    continue;
                }
                idx += 1;
                if !ctx.mine(idx) {
                    continue;
                }
                if ctx.expired() {
                    out.capped.push(format!("wall-clock cap hit in the union pairs with longer operand history of length {} (all pairs in the bound with both histories of length <= {} completed)", bound, completed));
                    return;
                }
                check_pair(&reps[i], &reps[j], out, idx % 20_011 == 5 || (bound == 2 && idx % 3001 == 7));
            }
        }
        completed = bound as i64;
    }
    out.max("max_union_operand_length_completed", completed.max(0) as u64);
}

fn run(ctx: &Ctx) -> ShardOut {
    let mut out = ShardOut::default();
    let t0 = std::time::Instant::now();
    part1(ctx, &mut out);
    out.max("max_ms_part1_of_one_shard", t0.elapsed().as_millis() as u64);
    let t1 = std::time::Instant::now();
    part2(ctx, &mut out);
    out.max("max_ms_part2_of_one_shard", t1.elapsed().as_millis() as u64);
    out
}

fn replay(_ctx: &Ctx, case: &Value) -> ShardOut {
    let mut out = ShardOut::default();
    let strs = |v: &Value| -> Vec<String> { v.as_array().map(|a| a.iter().filter_map(|x| x.as_str().map(|s| s.to_string())).collect()).unwrap_or_default() };
    match case["part"].as_str() {
        Some("dictionary") => {
            let names = strs(&case["ops"]);
            let ops: Vec<DOp> = names.iter().filter_map(|s| parse_dop(s)).collect();
            if ops.len() != names.len() {
                out.machinery_errors.push(format!("replay file has unknown dictionary ops: {}", case));
                return out;
            }
            out.evaluations = 1;
            if let Err((step, v)) = replay_dict(&ops) {
                fail_dict(&mut out, &ops, step, v);
            }
        }
        Some("threshold") => {
            let store = case["store"].as_str().unwrap_or("");
            let back = case["back"].as_u64().unwrap_or(0) as u32;
            if !["dictionary", "quoted"].contains(&store) || !(1..=3).contains(&back) {
                out.machinery_errors.push(format!("replay file does not describe a C15 threshold case: {}", case));
                return out;
            }
            out.evaluations = 1;
            if let Some(v) = threshold_case(store, back, &mut out) {
                out.fail(json!({"part": "threshold", "store": store, "back": back}), v.symptom, v.detail, vec!["part=threshold".into(), format!("store={}", store)]);
            }
        }
        Some("union") => {
            let (na, nb) = (strs(&case["self"]), strs(&case["other"]));
            let oa: Vec<UOp> = na.iter().filter_map(|s| parse_uop(s)).collect();
            let ob: Vec<UOp> = nb.iter().filter_map(|s| parse_uop(s)).collect();
            if oa.len() != na.len() || ob.len() != nb.len() {
                out.machinery_errors.push(format!("replay file has unknown database ops: {}", case));
                return out;
            }
            check_pair(&oa, &ob, &mut out, false);
        }
        _ => out.machinery_errors.push(format!("replay file does not describe a C15 case: {}", case)),
    }
    out
}
