//! C02 — query answers do not depend on the plan the optimizer happens to choose.
//! E-in over configurations: every permutation of each BGP, six statistics objects, every
//! assignment of {bind, hash, nested-loop} to the join nodes of the chosen plan, scan flips,
//! StarJoin expansion, stale cached statistics, thread-pool sizes — all executed on the real
//! engine, compared with each other and with R-sparql.
use super::common::*;
use crate::infra::{guarded, hash64, Ctx, PropDef, ShardOut};
use crate::reference::sparql_ast::*;
use crate::reference::sparql_eval::{self, Dataset, Mu, View};
use kolibrie::execute_query::execute_sparql_query;
use kolibrie::parser::parse_sparql_query;
use kolibrie::sparql_database::SparqlDatabase;
use kolibrie::streamertail_optimizer::{build_logical_plan_from_group, DatabaseStats, DatasetView, ExecutionEngine, PhysicalOperator, Streamertail};
use serde_json::{json, Value};
use shared::dataset_index::{GraphId, GraphTerm, Quad, QuadPattern};
use std::collections::{BTreeMap, HashMap};
use std::sync::Arc;

pub const DEF: PropDef = PropDef {
    id: "C02",
    level: "exploration",
    rule: "cases = (dataset, query, configuration): queries are BGPs of 2-4 patterns (chain, subject star of >=3 patterns so the StarJoin rewrite fires, cycle, cartesian product, repeated variable, variable predicate), GRAPH-scoped BGPs (fixed and variable graph), UNIONs of VALUES blocks and of twin scans differing only in graph/constant (memo key), BGP+FILTER, BGP+sub-select; for each query EVERY permutation of every triples block (<=24); configurations: statistics in {fresh gather_stats_fast, empty DatabaseStats::new(), all-zero, all-huge, per-predicate cardinalities inverted, stale (real cached_stats path: query, mutate through add_triple/add_quad, query again)}; for the plan find_best_plan returns under each statistics object EVERY assignment of {BindJoin, HashJoin, NestedLoopJoin} to its join nodes (3^j), every TableScan<->IndexScan flip, StarJoin replaced by left-deep joins; thread-pool sizes {1,2,3,4,8,16} on a 210-triple dataset and on a 1099-subject dataset (1099 left rows: not divisible by any pool size and > 64 rows per worker) so that execute_bind_join splits unevenly for every pool size. Round 3: shapes whose join has a NON-SCAN right child (BIND plan joined on its target with a VALUES block / a scan, UNION, VALUES, and - differentially only - a FILTER on an outer variable), where BindJoin (left rows fed into the right plan) can differ from HashJoin / NestedLoopJoin (right plan evaluated from the unit solution and merged); Filter(StarJoin), two stars (identity + reverse permutation), and a star / a chain as the RIGHT child of a join (shapes printed with the ;/, abbreviations so that the block reaches lowering as one Bgp); statistics AllMax (every cardinality u64::MAX); the plan-variant enumeration repeated under three replacement DatasetViews (FROM g1 g2 / FROM NAMED g1 g2 / FROM g2 FROM NAMED g1) for seven shapes (incl. a fan-in where two left rows probe the same right triple of the merged default) with fresh, empty and AllMax statistics; four stale-cache flavours through the real cached_stats (grown with pre-created graphs, grown with graphs that appear after caching, shrunk with delete_triple_parts/delete_quad, first query on the empty database - the mutated database is read back and must equal the dataset of the case); every join assignment executed INSIDE pools of 1/3/16 workers on datasets with exactly 63/64/65/127/128/129 left rows (the 64-row bind-join chunk threshold). Oracle: every variant returns the same solution multiset (decoded) and that multiset equals the SPARQL-algebra reference (shape filter_right_outer_var: compared with the plan chosen under fresh statistics only). Non-trivial = case with a non-empty answer and >=2 join nodes or a non-default configuration; distinct by (query, dataset, configuration).",
    assumptions: &[
        "interleavings INSIDE a rayon pool are not enumerable (the pool cannot be intercepted); pool sizes are enumerated and the free-running runs are labelled as such. Structural argument: chunk results are concatenated positionally and the only state shared between chunk tasks is the dictionary behind its RwLock, whose id assignment cannot influence decoded rows",
        "plan variants are produced by rewriting the public PhysicalOperator tree; all three join algorithms are candidates of every logical join in find_best_plan_recursive, so every assignment is a plan the optimizer could select",
        "reference evaluator harness/src/reference/sparql_eval.rs",
    ],
    run,
    replay,
    cap_s: (55, 900),
    shards: 0,
};

fn v(n: &str) -> T {
    T::var(n)
}
fn i(n: &str) -> T {
    T::iri(n)
}

/// join-rich query family (groups); triples blocks are permuted by the caller
pub fn base_groups() -> Vec<(&'static str, Group)> {
    let spo = tp(v("s"), i(P), v("o"));
    let sqv = tp(v("s"), i(Q), v("v"));
    let opz = tp(v("o"), i(P), v("z"));
    let zps = tp(v("z"), i(P), v("s"));
    let sqw = tp(v("s"), i(Q), v("w"));
    let xpx = tp(v("x"), i(P), v("x"));
    let spc = tp(v("s"), i(P), i(C));
    let svo = tp(v("s"), v("pp"), v("o"));
    let oqv = tp(v("o"), i(Q), v("v"));
    let zpy = tp(v("z"), i(P), v("y"));
    vec![
        ("chain2", Group(vec![Elem::Triples(vec![spo.clone(), opz.clone()])])),
        ("chain3", Group(vec![Elem::Triples(vec![spo.clone(), opz.clone(), zpy.clone()])])),
        ("star3", Group(vec![Elem::Triples(vec![spo.clone(), sqv.clone(), sqw.clone()])])),
        ("star3_const", Group(vec![Elem::Triples(vec![spo.clone(), sqv.clone(), spc.clone()])])),
        ("star4", Group(vec![Elem::Triples(vec![spo.clone(), sqv.clone(), sqw.clone(), svo.clone()])])),
        ("star3_plus_chain", Group(vec![Elem::Triples(vec![spo.clone(), sqv.clone(), sqw.clone(), opz.clone()])])),
        ("cycle3", Group(vec![Elem::Triples(vec![spo.clone(), opz.clone(), zps.clone()])])),
        ("cartesian", Group(vec![Elem::Triples(vec![spo.clone(), xpx.clone()])])),
        ("cartesian3", Group(vec![Elem::Triples(vec![sqv.clone(), xpx.clone(), tp(i(A), i(P), v("y"))])])),
        ("varpred_join", Group(vec![Elem::Triples(vec![svo.clone(), oqv.clone()])])),
        ("os_join", Group(vec![Elem::Triples(vec![spo.clone(), oqv.clone(), sqw.clone()])])),
        // fan-in: two left rows (a p b), (c p b) probe the SAME right triple (b q 2) - under a default
        // merged from g1 and g2 this is the only shape of the universe in which a dependent scan meets
        // one triple twice within one call (per-call scratch state of the merged-default scan)
        ("fan_in2", Group(vec![Elem::Triples(vec![spo.clone(), oqv.clone()])])),
        ("graph_var_bgp", Group(vec![Elem::Graph(v("g"), Group(vec![Elem::Triples(vec![spo.clone(), opz.clone()])]))])),
        ("graph_iri_bgp", Group(vec![Elem::Graph(i(G1), Group(vec![Elem::Triples(vec![spo.clone(), sqv.clone()])]))])),
        ("default_join_graph", Group(vec![Elem::Triples(vec![spo.clone(), sqv.clone()]), Elem::Graph(v("g"), Group(vec![Elem::Triples(vec![spo.clone()])]))])),
        (
            "union_values",
            Group(vec![
                Elem::Union(vec![
                    Group(vec![Elem::Values(vec!["s".into()], vec![vec![Some(i(A))], vec![Some(i(B))]])]),
                    Group(vec![Elem::Values(vec!["s".into()], vec![vec![Some(i(B))], vec![Some(i(C))]])]),
                ]),
                Elem::Triples(vec![spo.clone()]),
            ]),
        ),
        (
            "union_twin_scans_graph",
            Group(vec![Elem::Union(vec![Group(vec![Elem::Triples(vec![spo.clone()])]), Group(vec![Elem::Graph(i(G1), Group(vec![Elem::Triples(vec![spo.clone()])]))]), Group(vec![Elem::Graph(i(G2), Group(vec![Elem::Triples(vec![spo.clone()])]))])])]),
        ),
        (
            "union_twin_scans_const",
            Group(vec![Elem::Union(vec![Group(vec![Elem::Triples(vec![tp(v("s"), i(P), i(B))])]), Group(vec![Elem::Triples(vec![tp(v("s"), i(P), i(C))])])]), Elem::Triples(vec![sqv.clone()])]),
        ),
        ("join_filter", Group(vec![Elem::Triples(vec![spo.clone(), sqv.clone(), opz.clone()]), Elem::Filter(Expr::Cmp(v("v"), Cmp::Ge, T::Num("1".into())))])),
        (
            "join_subselect",
            Group(vec![Elem::Triples(vec![spo.clone(), opz.clone()]), Elem::Sub(Box::new({
                let mut s = Select::simple(&["s"], Group(vec![Elem::Triples(vec![sqv.clone()])]));
                s.distinct = true;
                s
            }))]),
        ),
        ("nested_groups", Group(vec![Elem::Triples(vec![spo.clone()]), Elem::Nested(Group(vec![Elem::Triples(vec![opz.clone(), sqv.clone()])]))])),
        // --- round 3: right children of a join that are not scans. Only here can BindJoin (which feeds its
        // left rows INTO the right plan) differ from HashJoin / NestedLoopJoin (which evaluate the right
        // plan on its own and merge).
        (
            "bind_right_values",
            Group(vec![
                Elem::Values(vec!["n".into()], vec![vec![Some(T::lit("1k"))], vec![Some(T::lit("2k"))], vec![Some(T::lit("3k"))]]),
                Elem::Nested(Group(vec![Elem::Triples(vec![sqv.clone()]), Elem::Bind(vec![v("v"), T::lit("k")], "n".into())])),
            ]),
        ),
        (
            "bind_right_scan",
            Group(vec![Elem::Triples(vec![tp(v("s"), i(Q), v("n"))]), Elem::Nested(Group(vec![Elem::Triples(vec![sqv.clone()]), Elem::Bind(vec![v("v"), T::lit("")], "n".into())]))]),
        ),
        ("union_right", Group(vec![Elem::Triples(vec![spo.clone()]), Elem::Union(vec![Group(vec![Elem::Triples(vec![sqv.clone()])]), Group(vec![Elem::Triples(vec![opz.clone()])])])])),
        (
            "values_right",
            Group(vec![
                Elem::Triples(vec![spo.clone(), sqv.clone()]),
                Elem::Values(vec!["s".into(), "v".into()], vec![vec![Some(i(A)), Some(T::lit("1"))], vec![None, Some(T::lit("2"))], vec![Some(i(B)), None]]),
            ]),
        ),
        // differential only (see `shape_is_absolute`): the FILTER of the inner group mentions a variable of
        // the OUTER group; the statement only demands that the join algorithms agree with each other
        (
            "filter_right_outer_var",
            Group(vec![Elem::Triples(vec![sqv.clone()]), Elem::Nested(Group(vec![Elem::Triples(vec![spo.clone()]), Elem::Filter(Expr::Cmp(v("v"), Cmp::Gt, T::Num("1".into())))]))]),
        ),
        // --- round 3: star shapes (Filter(StarJoin), two stars, a star as the right child of a join)
        ("star3_filter", Group(vec![Elem::Triples(vec![spo.clone(), sqv.clone(), sqw.clone()]), Elem::Filter(Expr::Cmp(v("v"), Cmp::Ge, T::Num("2".into())))])),
        ("two_stars", Group(vec![Elem::Triples(vec![spo.clone(), sqv.clone(), sqw.clone(), opz.clone(), tp(v("o"), i(Q), v("y")), tp(v("o"), i(Q), v("u"))])])),
        // printed with the `;` / `,` abbreviations: the whole block is ONE Bgp for the parser, so the star is
        // lowered as a join subtree and becomes the right child of the join with the GRAPH / UNION element
        ("graph_then_star_abbrev", Group(vec![Elem::Graph(i(G1), Group(vec![Elem::Triples(vec![spo.clone()])])), Elem::Triples(vec![spo.clone(), sqv.clone(), sqw.clone()])])),
        ("union_then_star_abbrev", Group(vec![Elem::Union(vec![Group(vec![Elem::Triples(vec![spc.clone()])]), Group(vec![Elem::Triples(vec![tp(v("s"), i(P), i(B))])])]), Elem::Triples(vec![spo.clone(), sqv.clone(), sqw.clone()])])),
        ("graph_then_chain_abbrev", Group(vec![Elem::Graph(v("g"), Group(vec![Elem::Triples(vec![spo.clone()])])), Elem::Triples(vec![tp(v("o"), i(P), v("z")), tp(v("o"), i(Q), v("y"))])])),
    ]
}

/// Is the shape judged against the SPARQL-algebra reference (and differentially), or only differentially?
pub fn shape_is_absolute(name: &str) -> bool {
    name != "filter_right_outer_var"
}

pub fn shape_layout(name: &str) -> Layout {
    if name.ends_with("_abbrev") {
        Layout::Abbrev
    } else {
        Layout::Canonical
    }
}

/// the permutations enumerated for a shape: all of them, except for the 6-pattern two-star shape
/// (identity and reverse only: 720 permutations would not fit the quick tier)
pub fn shape_permutations(name: &str, base: &Group) -> Vec<Group> {
    if name == "two_stars" {
        let mut rev = base.clone();
        if let Elem::Triples(ts) = &mut rev.0[0] {
            ts.reverse();
        }
        return vec![base.clone(), rev];
    }
    permuted_groups(base)
}

fn permutations<Tt: Clone>(items: &[Tt]) -> Vec<Vec<Tt>> {
    if items.len() <= 1 {
        return vec![items.to_vec()];
    }
    let mut out = Vec::new();
    for k in 0..items.len() {
        let mut rest = items.to_vec();
        let x = rest.remove(k);
        for mut p in permutations(&rest) {
            p.insert(0, x.clone());
            out.push(p);
        }
    }
    out
}

/// every way of permuting the patterns inside each triples block of the group
pub fn permuted_groups(g: &Group) -> Vec<Group> {
    fn rec(elems: &[Elem]) -> Vec<Vec<Elem>> {
        if elems.is_empty() {
            return vec![vec![]];
        }
        let head_variants: Vec<Elem> = match &elems[0] {
            Elem::Triples(ts) => permutations(ts).into_iter().map(Elem::Triples).collect(),
            Elem::Graph(t, inner) => permuted_groups(inner).into_iter().map(|x| Elem::Graph(t.clone(), x)).collect(),
            Elem::Nested(inner) => permuted_groups(inner).into_iter().map(Elem::Nested).collect(),
            other => vec![other.clone()],
        };
        let tails = rec(&elems[1..]);
        let mut out = Vec::new();
        for h in &head_variants {
            for t in &tails {
                let mut v = vec![h.clone()];
                v.extend(t.iter().cloned());
                out.push(v);
            }
        }
        out
    }
    rec(&g.0).into_iter().map(Group).collect()
}

pub fn datasets(thorough: bool) -> Vec<(u32, bool)> {
    let mut v = vec![(1023u32, true), (1023, false), (0b0000111111, false), (0b1111000111, true), (0b0001011011, false), (0b1010110101, true)];
    // all near-full
    for k in 0..10 {
        v.push((1023 & !(1 << k), k % 2 == 0));
    }
    if thorough {
        for mask in 0u32..1024 {
            if mask.count_ones() >= 3 && mask.count_ones() <= 8 {
                v.push((mask, mask % 2 == 0));
            }
        }
    }
    v
}

/// a wider dataset so that execute_bind_join really splits (> 64 left rows)
pub fn wide_dataset() -> Dataset {
    let mut ds = Dataset::default();
    let n = 70;
    for k in 0..n {
        let s = format!("http://e/n{}", k);
        let o = format!("http://e/n{}", (k + 1) % n);
        ds.default.insert((s.clone(), P.to_string(), o));
        ds.default.insert((s.clone(), Q.to_string(), format!("{}", k % 7)));
        if k % 2 == 0 {
            ds.default.insert((s.clone(), Q.to_string(), format!("{}", 10 + k % 3)));
        }
        if k % 5 == 0 {
            ds.named.entry(G1.to_string()).or_default().insert((s.clone(), P.to_string(), format!("http://e/n{}", (k + 2) % n)));
        }
    }
    ds.default.insert((C.to_string(), P.to_string(), C.to_string()));
    ds.default.insert((A.to_string(), P.to_string(), B.to_string()));
    ds.named.entry(G2.to_string()).or_default().insert((A.to_string(), P.to_string(), B.to_string()));
    ds
}

/// a dataset with 1099 subjects (1099 is not divisible by 2, 3, 4, 8 or 16 and exceeds 64 rows per
/// worker for every enumerated pool size), so that execute_bind_join splits its left input into
/// uneven chunks for every pool size > 1
pub fn xwide_dataset() -> Dataset {
    let mut ds = Dataset::default();
    for k in 0..1099 {
        let s = format!("http://e/m{}", k);
        ds.default.insert((s.clone(), P.to_string(), format!("http://e/m{}", (k * 7 + 1) % 1099)));
        ds.default.insert((s.clone(), Q.to_string(), format!("{}", k % 5)));
    }
    ds
}

type Sol = BTreeMap<String, String>;

fn canon_solutions(mut sols: Vec<Sol>) -> Vec<Sol> {
    sols.sort();
    sols
}

fn reference_solutions(g: &Group, ds: &Dataset) -> Result<Vec<Sol>, String> {
    let view = View::of(ds, &[], &[]);
    let r: Vec<Mu> = sparql_eval::eval_group(g, &view, None)?;
    Ok(canon_solutions(r))
}

fn decode(db: &SparqlDatabase, rows: Vec<HashMap<String, u32>>) -> Vec<Sol> {
    canon_solutions(
        rows.into_iter()
            .map(|r| r.into_iter().map(|(k, id)| (k.trim_start_matches('?').to_string(), db.decode_any(id).unwrap_or_else(|| format!("<undecodable {}>", id)))).collect())
            .collect(),
    )
}

#[derive(Clone, Copy, Debug, PartialEq, Eq)]
pub enum StatsKind {
    Fresh,
    Empty,
    AllZero,
    AllHuge,
    Inverted,
    /// every cardinality = u64::MAX (sums over graphs / union branches overflow unless saturating)
    AllMax,
}

pub const STATS: [StatsKind; 6] = [StatsKind::Fresh, StatsKind::Empty, StatsKind::AllZero, StatsKind::AllHuge, StatsKind::Inverted, StatsKind::AllMax];

fn make_stats(kind: StatsKind, db: &SparqlDatabase) -> DatabaseStats {
    let mut st = DatabaseStats::gather_stats_fast(db);
    let big: u64 = 1 << 40;
    match kind {
        StatsKind::Fresh => {}
        StatsKind::Empty => st = DatabaseStats::new(),
        StatsKind::AllZero | StatsKind::AllHuge | StatsKind::AllMax => {
            let val = match kind {
                StatsKind::AllZero => 0,
                StatsKind::AllHuge => big,
                _ => u64::MAX,
            };
            st.total_triples = val;
            st.named_graph_count = val;
            st.distinct_subjects = val;
            st.distinct_objects = val;
            for m in [&mut st.predicate_cardinalities, &mut st.subject_cardinalities, &mut st.object_cardinalities, &mut st.predicate_distinct_subjects, &mut st.predicate_distinct_objects] {
                for x in m.values_mut() {
                    *x = val;
                }
            }
            for x in st.graph_cardinalities.values_mut() {
                *x = val;
            }
        }
        StatsKind::Inverted => {
            let max = st.predicate_cardinalities.values().copied().max().unwrap_or(0);
            for x in st.predicate_cardinalities.values_mut() {
                *x = max + 1 - *x;
            }
            let ms = st.subject_cardinalities.values().copied().max().unwrap_or(0);
            for x in st.subject_cardinalities.values_mut() {
                *x = (ms + 1 - *x) * 1000;
            }
            let mo = st.object_cardinalities.values().copied().max().unwrap_or(0);
            for x in st.object_cardinalities.values_mut() {
                *x = (mo + 1 - *x) * 1000;
            }
            std::mem::swap(&mut st.predicate_distinct_subjects, &mut st.predicate_distinct_objects);
        }
    }
    st
}

// --- plan rewriting -----------------------------------------------------------------------

fn count_joins(p: &PhysicalOperator) -> usize {
    use PhysicalOperator as PO;
    match p {
        PO::BindJoin { left, right } | PO::HashJoin { left, right } | PO::NestedLoopJoin { left, right } => 1 + count_joins(left) + count_joins(right),
        PO::Union { branches } => branches.iter().map(count_joins).sum(),
        PO::Graph { input, .. } | PO::Filter { input, .. } | PO::Projection { input, .. } | PO::Bind { input, .. } | PO::MLPredict { input, .. } => count_joins(input),
        PO::Subquery { inner, .. } => count_joins(inner),
        _ => 0,
    }
}

fn count_scans(p: &PhysicalOperator) -> usize {
    use PhysicalOperator as PO;
    match p {
        PO::TableScan { .. } | PO::IndexScan { .. } => 1,
        PO::BindJoin { left, right } | PO::HashJoin { left, right } | PO::NestedLoopJoin { left, right } => count_scans(left) + count_scans(right),
        PO::Union { branches } => branches.iter().map(count_scans).sum(),
        PO::Graph { input, .. } | PO::Filter { input, .. } | PO::Projection { input, .. } | PO::Bind { input, .. } | PO::MLPredict { input, .. } => count_scans(input),
        PO::Subquery { inner, .. } => count_scans(inner),
        _ => 0,
    }
}

fn has_star(p: &PhysicalOperator) -> bool {
    use PhysicalOperator as PO;
    match p {
        PO::StarJoin { .. } => true,
        PO::BindJoin { left, right } | PO::HashJoin { left, right } | PO::NestedLoopJoin { left, right } => has_star(left) || has_star(right),
        PO::Union { branches } => branches.iter().any(has_star),
        PO::Graph { input, .. } | PO::Filter { input, .. } | PO::Projection { input, .. } | PO::Bind { input, .. } | PO::MLPredict { input, .. } => has_star(input),
        PO::Subquery { inner, .. } => has_star(inner),
        _ => false,
    }
}

/// rebuild the plan; `joins` gives the algorithm (0 bind, 1 hash, 2 nested loop) per join node in
/// traversal order (None = keep), `flip` the set of scan indexes to flip, `expand_star` replaces
/// StarJoin by left-deep bind joins over index scans.
fn rewrite(p: &PhysicalOperator, joins: &Option<Vec<u8>>, jn: &mut usize, flip: &[usize], sn: &mut usize, expand_star: bool) -> PhysicalOperator {
    use PhysicalOperator as PO;
    match p {
        PO::BindJoin { left, right } | PO::HashJoin { left, right } | PO::NestedLoopJoin { left, right } => {
            let my = *jn;
            *jn += 1;
            let l = rewrite(left, joins, jn, flip, sn, expand_star);
            let r = rewrite(right, joins, jn, flip, sn, expand_star);
            let alg = match joins {
                Some(a) => a[my],
                None => match p {
                    PO::BindJoin { .. } => 0,
                    PO::HashJoin { .. } => 1,
                    _ => 2,
                },
            };
            match alg {
                0 => PO::bind_join(l, r),
                1 => PO::hash_join(l, r),
                _ => PO::nested_loop_join(l, r),
            }
        }
        PO::TableScan { pattern } | PO::IndexScan { pattern } => {
            let my = *sn;
            *sn += 1;
            let is_table = matches!(p, PO::TableScan { .. });
            let want_table = if flip.contains(&my) { !is_table } else { is_table };
            if want_table {
                PO::TableScan { pattern: pattern.clone() }
            } else {
                PO::IndexScan { pattern: pattern.clone() }
            }
        }
        PO::StarJoin { join_var, patterns } => {
            if expand_star {
                let mut plan: Option<PO> = None;
                for pat in patterns {
                    let scan = PO::IndexScan { pattern: QuadPattern { subject: pat.0.clone(), predicate: pat.1.clone(), object: pat.2.clone(), graph: GraphTerm::Default } };
                    plan = Some(match plan {
                        Some(x) => PO::bind_join(x, scan),
                        None => scan,
                    });
                }
                plan.unwrap_or(PO::Unit)
            } else {
                PO::StarJoin { join_var: join_var.clone(), patterns: patterns.clone() }
            }
        }
        PO::Union { branches } => PO::Union { branches: branches.iter().map(|b| rewrite(b, joins, jn, flip, sn, expand_star)).collect() },
        PO::Graph { input, graph } => PO::graph(rewrite(input, joins, jn, flip, sn, expand_star), graph.clone()),
        PO::Filter { input, condition } => PO::filter(rewrite(input, joins, jn, flip, sn, expand_star), condition.clone()),
        PO::Projection { input, variables } => PO::projection(rewrite(input, joins, jn, flip, sn, expand_star), variables.clone()),
        PO::Subquery { inner, spec } => PO::subquery(rewrite(inner, joins, jn, flip, sn, expand_star), spec.clone()),
        PO::Bind { input, function_name, arguments, output_variable } => PO::bind(rewrite(input, joins, jn, flip, sn, expand_star), function_name.clone(), arguments.clone(), output_variable.clone()),
        other => other.clone(),
    }
}

fn exec_plan(plan: &PhysicalOperator, db: &mut SparqlDatabase, view: &DatasetView) -> Result<Vec<Sol>, String> {
    let rows = guarded(|| ExecutionEngine::execute_with_ids_and_dataset(plan, db, view))?;
    Ok(decode(db, rows))
}

struct CaseCtx<'a> {
    name: &'a str,
    perm: usize,
    mask: u32,
    eg: bool,
    text: &'a str,
    /// structural families of the query (`q:<family>`, shared with C01): added to every failure's tags
    fam: Vec<String>,
}

fn fam_tags(g: &Group) -> Vec<String> {
    super::c01::family_tags(&all_vars_select(g)).into_iter().map(|f| format!("q:{}", f)).collect()
}

fn fail(out: &mut ShardOut, c: &CaseCtx, config: &str, symptom: &str, detail: String, extra_tags: Vec<String>) {
    let mut tags = vec![format!("shape={}", c.name), format!("config={}", config.split(':').next().unwrap_or(config))];
    tags.extend(extra_tags);
    tags.extend(c.fam.iter().cloned());
    out.fail(json!({"shape": c.name, "perm": c.perm, "dataset_mask": c.mask, "empty_graph": c.eg, "query": c.text, "config": config}), symptom, detail, tags);
}

fn diff(exp: &[Sol], got: &[Sol]) -> String {
    format!("expected {} solutions, got {}\n  expected: {:?}\n  got     : {:?}", exp.len(), got.len(), exp.iter().take(8).collect::<Vec<_>>(), got.iter().take(8).collect::<Vec<_>>())
}

/// replacement query datasets (FROM / FROM NAMED) handed to the optimizer and the engine as a
/// `DatasetView`, exactly as `build_dataset_view` builds them for a query with dataset clauses
fn view_kinds() -> Vec<(&'static str, Vec<&'static str>, Vec<&'static str>)> {
    vec![("from_g1_g2", vec![G1, G2], vec![]), ("from_named_g1_g2", vec![], vec![G1, G2]), ("from_g2_named_g1", vec![G2], vec![G1])]
}

/// shapes that are additionally run under the replacement dataset views
const VIEW_SHAPES: [&str; 7] = ["chain2", "fan_in2", "star3", "graph_var_bgp", "default_join_graph", "union_twin_scans_graph", "bind_right_scan"];

fn reference_solutions_in(g: &Group, ds: &Dataset, from: &[&str], named: &[&str]) -> Result<Vec<Sol>, String> {
    let from: Vec<String> = from.iter().map(|x| x.to_string()).collect();
    let named: Vec<String> = named.iter().map(|x| x.to_string()).collect();
    let view = View::of(ds, &from, &named);
    let r: Vec<Mu> = sparql_eval::eval_group(g, &view, None)?;
    Ok(canon_solutions(r))
}

fn make_view(db: &SparqlDatabase, spec: Option<(&[&str], &[&str])>) -> DatasetView {
    match spec {
        None => DatasetView::from_database(db),
        Some((from, named)) => {
            let gid = |name: &&str| GraphId::Named(db.dictionary.write().unwrap().encode(name));
            DatasetView::new(from.iter().map(gid).collect::<Vec<_>>(), named.iter().map(gid).collect::<Vec<_>>())
        }
    }
}

fn has_filter_over_star(p: &PhysicalOperator) -> bool {
    use PhysicalOperator as PO;
    match p {
        PO::Filter { input, .. } => has_star(input) || has_filter_over_star(input),
        PO::BindJoin { left, right } | PO::HashJoin { left, right } | PO::NestedLoopJoin { left, right } => has_filter_over_star(left) || has_filter_over_star(right),
        PO::Union { branches } => branches.iter().any(has_filter_over_star),
        PO::Graph { input, .. } | PO::Projection { input, .. } | PO::Bind { input, .. } | PO::MLPredict { input, .. } => has_filter_over_star(input),
        PO::Subquery { inner, .. } => has_filter_over_star(inner),
        _ => false,
    }
}

/// kinds of right children of join nodes (vacuity: the non-scan right children are where the three
/// join algorithms can differ)
fn right_child_kinds(p: &PhysicalOperator, out: &mut Vec<&'static str>) {
    use PhysicalOperator as PO;
    match p {
        PO::BindJoin { left, right } | PO::HashJoin { left, right } | PO::NestedLoopJoin { left, right } => {
            out.push(match right.as_ref() {
                PO::TableScan { .. } | PO::IndexScan { .. } => "scan",
                PO::Bind { .. } => "bind",
                PO::Filter { .. } => "filter",
                PO::Union { .. } => "union",
                PO::Values { .. } => "values",
                PO::StarJoin { .. } => "star",
                PO::Graph { .. } => "graph",
                PO::Subquery { .. } => "subquery",
                PO::BindJoin { .. } | PO::HashJoin { .. } | PO::NestedLoopJoin { .. } => "join",
                _ => "other",
            });
            right_child_kinds(left, out);
            right_child_kinds(right, out);
        }
        PO::Union { branches } => branches.iter().for_each(|b| right_child_kinds(b, out)),
        PO::Graph { input, .. } | PO::Filter { input, .. } | PO::Projection { input, .. } | PO::Bind { input, .. } | PO::MLPredict { input, .. } => right_child_kinds(input, out),
        PO::Subquery { inner, .. } => right_child_kinds(inner, out),
        _ => {}
    }
}

/// the plan `find_best_plan` returns for the query under one statistics object and one dataset view
fn plan_for(c: &CaseCtx, db: &mut SparqlDatabase, view: &DatasetView, sk: StatsKind) -> Result<PhysicalOperator, (String, String)> {
    let (_, q) = parse_sparql_query(c.text).map_err(|_| ("query_rejected".to_string(), "parse_sparql_query rejected the generated text".to_string()))?;
    let prefixes = HashMap::new();
    let logical = build_logical_plan_from_group(&q.pattern, &prefixes, db).map_err(|e| ("query_rejected".to_string(), e))?;
    let stats = Arc::new(make_stats(sk, db));
    guarded(|| {
        let mut opt = Streamertail::with_cached_stats_and_dataset(stats.clone(), view.clone());
        opt.find_best_plan(&logical)
    })
    .map_err(|p| ("panic".to_string(), format!("find_best_plan: {}", p)))
}

/// (b) + (c): explicit plans under each statistics object, and every plan variant, under one dataset
/// view. `prefix` is prepended to the configuration labels ("" for the database's own dataset).
#[allow(clippy::too_many_arguments)]
fn plans_under_view(out: &mut ShardOut, c: &CaseCtx, ds: &Dataset, exp: &[Sol], view_spec: Option<(&[&str], &[&str])>, prefix: &str, stats_list: &[StatsKind], only: Option<&str>, plan_variants: bool, flips: bool) {
    let want = |label: &str| only.map_or(true, |o| o == label);
    let nontrivial_base = !exp.is_empty();
    let mut seen_plans: Vec<u64> = Vec::new();
    for &sk in stats_list {
        let label = format!("{}stats:{:?}", prefix, sk);
        let mut db = build_db(ds);
        let view = make_view(&db, view_spec);
        let plan = match plan_for(c, &mut db, &view, sk) {
            Ok(p) => p,
            Err((symptom, detail)) => {
                if want(&label) {
                    fail(out, c, &label, &symptom, detail, vec![format!("stats={:?}", sk)]);
                }
                continue;
            }
        };
        if want(&label) {
            out.evaluations += 1;
            match exec_plan(&plan, &mut db, &view) {
                Err(p) => fail(out, c, &label, "panic", p, vec![format!("stats={:?}", sk)]),
                Ok(got) => {
                    if got != exp {
                        fail(out, c, &label, "wrong_rows", diff(exp, &got), vec![format!("stats={:?}", sk)]);
                    }
                    if nontrivial_base && sk != StatsKind::Fresh {
                        out.nontrivial(&(c.text, c.mask, c.eg, &label));
                    }
                    if sk == StatsKind::AllMax {
                        out.count("plans_under_all_max_statistics_executed", 1);
                    }
                    if view_spec.is_some() {
                        out.count("executions_under_replacement_dataset_view", 1);
                        if !got.is_empty() {
                            out.count("executions_under_replacement_dataset_view_nonempty", 1);
                        }
                    }
                }
            }
        }
        let ph = hash64(&format!("{:?}", plan));
        if seen_plans.contains(&ph) || !plan_variants {
            continue;
        }
        seen_plans.push(ph);
        out.count("distinct_plans", 1);
        if has_filter_over_star(&plan) {
            out.count("plans_with_filter_over_starjoin", 1);
        }
        let mut kinds = Vec::new();
        right_child_kinds(&plan, &mut kinds);
        for k in &kinds {
            if *k != "scan" {
                out.count(&format!("join_right_child_{}", k), 1);
            }
        }
        // (c) plan variants: star expansion, join assignments, scan flips
        let mut bases: Vec<(String, PhysicalOperator)> = vec![("asis".into(), plan.clone())];
        if has_star(&plan) {
            out.count("plans_with_starjoin", 1);
            let (mut jn, mut sn) = (0, 0);
            bases.push(("star_expanded".into(), rewrite(&plan, &None, &mut jn, &[], &mut sn, true)));
        }
        for (bname, base) in &bases {
            let j = count_joins(base);
            out.max("max_join_nodes", j as u64);
            let total = 3usize.pow(j.min(5) as u32);
            for code in 0..total {
                let mut a = Vec::with_capacity(j);
                let mut x = code;
                for _ in 0..j {
                    a.push((x % 3) as u8);
                    x /= 3;
                }
                let vlabel = format!("{}plan:{:?}:{}:joins={:?}", prefix, sk, bname, a);
                if !want(&vlabel) {
                    continue;
                }
                let (mut jn, mut sn) = (0, 0);
                let variant = rewrite(base, &Some(a.clone()), &mut jn, &[], &mut sn, false);
                out.evaluations += 1;
                out.count("join_assignments_executed", 1);
                let mut tags = join_tags(&a);
                let mut vk = Vec::new();
                right_child_kinds(&variant, &mut vk);
                for k in vk.iter().filter(|k| **k != "scan") {
                    tags.push(format!("right_child={}", k));
                }
                tags.sort();
                tags.dedup();
                match exec_plan(&variant, &mut db, &view) {
                    Err(p) => fail(out, c, &vlabel, "panic", p, tags),
                    Ok(got) => {
                        if got != exp {
                            fail(out, c, &vlabel, "wrong_rows", diff(exp, &got), tags);
                        }
                        if nontrivial_base && j >= 2 {
                            out.nontrivial(&(c.text, c.mask, c.eg, &vlabel));
                        }
                        out.outcome(&(got.len(), &a));
                    }
                }
            }
            if !flips {
                continue;
            }
            let s = count_scans(base);
            let mut flip_sets: Vec<Vec<usize>> = (0..s).map(|k| vec![k]).collect();
            flip_sets.push((0..s).collect());
            for f in flip_sets {
                let vlabel = format!("{}plan:{:?}:{}:flip={:?}", prefix, sk, bname, f);
                if !want(&vlabel) {
                    continue;
                }
                let (mut jn, mut sn) = (0, 0);
                let variant = rewrite(base, &None, &mut jn, &f, &mut sn, false);
                out.evaluations += 1;
                match exec_plan(&variant, &mut db, &view) {
                    Err(p) => fail(out, c, &vlabel, "panic", p, vec!["scan_flip".into()]),
                    Ok(got) => {
                        if got != exp {
                            fail(out, c, &vlabel, "wrong_rows", diff(exp, &got), vec!["scan_flip".into()]);
                        }
                    }
                }
            }
        }
    }
}

/// (d) stale statistics through the REAL cache (`cached_stats`, which only `execute_update_operation`
/// invalidates): the database is queried in one state (statistics cached), mutated through the store
/// API to the dataset of the case, and queried again. Flavours: `stale_cached_stats` = half of the quads,
/// every graph pre-created, then grown; `stale_new_graph` = half of the quads and NO pre-created graphs
/// (named graphs appear after the statistics were cached, so `graph_cardinalities` misses them);
/// `stale_after_delete` = the dataset plus every other quad of the universe, then shrunk with
/// `delete_triple_parts` / `delete_quad`; `stale_from_empty` = first query on the empty database.
fn stale_case(out: &mut ShardOut, c: &CaseCtx, g: &Group, ds: &Dataset, flavour: &str) {
    let quads: Vec<_> = ds.quads().into_iter().collect();
    let add = |db: &mut SparqlDatabase, s: &str, p: &str, o: &str, gname: &str| {
        if gname.is_empty() {
            db.add_triple_parts(s, p, o);
        } else {
            db.add_quad_parts(s, p, o, gname);
        }
    };
    let create_graphs = |db: &mut SparqlDatabase| {
        for gname in ds.named.keys() {
            let gid = db.dictionary.write().unwrap().encode(gname);
            db.dataset_index.create_graph(GraphId::Named(gid));
        }
    };
    let mut db;
    let mut extras: Vec<(String, String, String, String)> = Vec::new();
    match flavour {
        "stale_cached_stats" | "stale_new_graph" => {
            if quads.len() < 2 {
                return;
            }
            let mut half = Dataset::default();
            for (k, (s, p, o, gname)) in quads.iter().enumerate() {
                if k % 2 == 0 {
                    if gname.is_empty() {
                        half.default.insert((s.clone(), p.clone(), o.clone()));
                    } else {
                        half.named.entry(gname.clone()).or_default().insert((s.clone(), p.clone(), o.clone()));
                    }
                }
            }
            if flavour == "stale_cached_stats" {
                for gname in ds.named.keys() {
                    half.named.entry(gname.clone()).or_default();
                }
            }
            db = build_db(&half);
        }
        "stale_after_delete" => {
            let mut big = ds.clone();
            for (s, p, o, gname) in universe() {
                let t = (s.to_string(), p.to_string(), o.to_string());
                if gname.is_empty() {
                    if big.default.insert(t.clone()) {
                        extras.push((t.0, t.1, t.2, String::new()));
                    }
                } else if let Some(gr) = big.named.get_mut(gname) {
                    // only graphs of the case's dataset: deleting must not leave an extra (empty) graph behind
                    if gr.insert(t.clone()) {
                        extras.push((t.0, t.1, t.2, gname.to_string()));
                    }
                }
            }
            if extras.is_empty() {
                return;
            }
            db = build_db(&big);
        }
        _ => {
            if quads.is_empty() {
                return;
            }
            db = SparqlDatabase::new();
        }
    }
    let first = guarded(|| execute_sparql_query(c.text, &mut db));
    if !matches!(first, Ok(Ok(_))) || db.cached_stats.is_none() {
        return;
    }
    match flavour {
        "stale_cached_stats" | "stale_new_graph" => {
            for (k, (s, p, o, gname)) in quads.iter().enumerate() {
                if k % 2 == 1 {
                    add(&mut db, s, p, o, gname);
                }
            }
            create_graphs(&mut db);
        }
        "stale_after_delete" => {
            for (s, p, o, gname) in &extras {
                if gname.is_empty() {
                    db.delete_triple_parts(s, p, o);
                } else {
                    let enc = |x: &str| db.dictionary.write().unwrap().encode(x);
                    let quad = Quad { subject: enc(s), predicate: enc(p), object: enc(o), graph: GraphId::Named(enc(gname)) };
                    db.delete_quad(&quad);
                }
            }
        }
        _ => {
            create_graphs(&mut db);
            for (s, p, o, gname) in &quads {
                add(&mut db, s, p, o, gname);
            }
        }
    }
    if db.cached_stats.is_none() {
        out.count("stale_cache_was_invalidated_by_store_api", 1);
    }
    if extract(&db) != *ds {
        out.machinery_errors.push(format!("{}: the mutated database does not hold the dataset of the case (mask {})", flavour, c.mask));
        return;
    }
    out.evaluations += 1;
    out.count(&format!("{}_executed", flavour), 1);
    match guarded(|| execute_sparql_query(c.text, &mut db)) {
        Err(p) => fail(out, c, flavour, "panic", p, vec![]),
        Ok(Err(e)) => fail(out, c, flavour, "query_rejected", e, vec![]),
        Ok(Ok(rows)) => {
            let sel = all_vars_select(g);
            if let Ok(ans) = sparql_eval::eval_select(&sel, ds) {
                if let Err(e) = sparql_eval::check_rows(&ans, &rows) {
                    fail(out, c, flavour, "wrong_rows", e, vec![]);
                } else if !ans.rows.is_empty() {
                    out.nontrivial(&(c.text, c.mask, c.eg, flavour));
                }
            }
        }
    }
}

const STALE_FLAVOURS: [&str; 4] = ["stale_cached_stats", "stale_new_graph", "stale_after_delete", "stale_from_empty"];

/// All configurations for one (dataset, permuted query). `only` restricts to one configuration
/// label (replay).
fn check_case(out: &mut ShardOut, c: &CaseCtx, g: &Group, ds: &Dataset, only: Option<&str>, plan_variants: bool) {
    let absolute = shape_is_absolute(c.name);
    let reference = match reference_solutions(g, ds) {
        Ok(e) => e,
        Err(e) => {
            out.machinery_errors.push(format!("reference rejected {}: {}", c.text, e));
            return;
        }
    };
    let want = |label: &str| only.map_or(true, |o| o == label);
    // (a) end to end, fresh database
    if absolute && want("end_to_end") {
        out.evaluations += 1;
        let mut db = build_db(ds);
        match guarded(|| execute_sparql_query(c.text, &mut db)) {
            Err(p) => fail(out, c, "end_to_end", "panic", p, vec![]),
            Ok(Err(e)) => fail(out, c, "end_to_end", "query_rejected", e, vec![]),
            Ok(Ok(rows)) => {
                // the text projects all variables in a fixed order: compare through the Select answer
                let sel = all_vars_select(g);
                match sparql_eval::eval_select(&sel, ds) {
                    Ok(ans) => {
                        if let Err(e) = sparql_eval::check_rows(&ans, &rows) {
                            fail(out, c, "end_to_end", "wrong_rows", e, vec![]);
                        }
                    }
                    Err(e) => out.machinery_errors.push(e),
                }
            }
        }
    }
    if parse_sparql_query(c.text).is_err() {
        fail(out, c, "parse", "query_rejected", "parse_sparql_query rejected the generated text".into(), vec![]);
        return;
    }
    // differential-only shapes: the yardstick is what the plan chosen under fresh statistics returns
    let exp: Vec<Sol> = if absolute {
        reference
    } else {
        let mut db = build_db(ds);
        let view = DatasetView::from_database(&db);
        let base = plan_for(c, &mut db, &view, StatsKind::Fresh).and_then(|p| exec_plan(&p, &mut db, &view).map_err(|e| ("panic".to_string(), e)));
        match base {
            Ok(b) => b,
            Err((symptom, detail)) => {
                fail(out, c, "stats:Fresh", &symptom, detail, vec![]);
                return;
            }
        }
    };
    // (b) + (c) on the database's own dataset
    plans_under_view(out, c, ds, &exp, None, "", &STATS, only, plan_variants, true);
    // (e) the same under replacement dataset views (FROM / FROM NAMED as a DatasetView)
    if absolute && VIEW_SHAPES.contains(&c.name) && (plan_variants || only.is_some()) {
        for (vname, from, named) in view_kinds() {
            let prefix = format!("view={}|", vname);
            if only.map_or(false, |o| !o.starts_with(&prefix)) {
                continue;
            }
            match reference_solutions_in(g, ds, &from, &named) {
                Ok(expv) => plans_under_view(out, c, ds, &expv, Some((&from, &named)), &prefix, &[StatsKind::Fresh, StatsKind::Empty, StatsKind::AllMax], only, true, false),
                Err(e) => out.machinery_errors.push(format!("reference rejected {} under view {}: {}", c.text, vname, e)),
            }
        }
    }
    // (d) stale statistics through the real cache
    if absolute && c.mask != u32::MAX {
        for flavour in STALE_FLAVOURS {
            if want(flavour) {
                stale_case(out, c, g, ds, flavour);
            }
        }
    }
}

fn join_tags(a: &[u8]) -> Vec<String> {
    let mut t = Vec::new();
    if a.contains(&1) {
        t.push("uses_hash_join".into());
    }
    if a.contains(&2) {
        t.push("uses_nested_loop_join".into());
    }
    if a.contains(&0) {
        t.push("uses_bind_join".into());
    }
    t
}

fn all_vars_select(g: &Group) -> Select {
    let mut vars = Vec::new();
    g.visible_vars_ordered(&mut vars);
    let mut s = Select::simple(&[], g.clone());
    s.proj = if vars.is_empty() { Proj::Star } else { Proj::Items(vars.into_iter().map(ProjItem::Var).collect()) };
    s
}

fn pool_sizes_case(out: &mut ShardOut, name: &str, perm: usize, g: &Group, ds: &Dataset, only: Option<usize>) {
    let sel = all_vars_select(g);
    let text = print_select(&sel, shape_layout(name.trim_start_matches("xwide:")));
    let ans = match sparql_eval::eval_select(&sel, ds) {
        Ok(a) => a,
        Err(e) => {
            out.machinery_errors.push(e);
            return;
        }
    };
    for n in [1usize, 2, 3, 4, 8, 16] {
        if only.map_or(false, |o| o != n) {
            continue;
        }
        out.evaluations += 1;
        let pool = match rayon::ThreadPoolBuilder::new().num_threads(n).build() {
            Ok(p) => p,
            Err(e) => {
                out.machinery_errors.push(format!("cannot build pool: {}", e));
                return;
            }
        };
        let mut db = build_db(ds);
        let res = pool.install(|| guarded(|| execute_sparql_query(&text, &mut db)));
        let c = CaseCtx { name, perm, mask: u32::MAX, eg: false, text: &text, fam: fam_tags(g) };
        let label = format!("pool:{}", n);
        match res {
            Err(p) => fail(out, &c, &label, "panic", p, vec![format!("threads={}", n)]),
            Ok(Err(e)) => fail(out, &c, &label, "query_rejected", e, vec![]),
            Ok(Ok(rows)) => {
                out.max("max_rows_wide_dataset", rows.len() as u64);
                if let Err(e) = sparql_eval::check_rows(&ans, &rows) {
                    fail(out, &c, &label, "wrong_rows", e, vec![format!("threads={}", n)]);
                } else if !rows.is_empty() {
                    out.nontrivial(&(&text, &label));
                }
            }
        }
    }
}

/// a dataset with exactly `n` subjects, each with one `p` edge (a permutation of the subjects) and one
/// or two `q` values: a scan of `?s p ?o` yields exactly `n` left rows for the join above it
pub fn boundary_dataset(n: usize) -> Dataset {
    let mut ds = Dataset::default();
    for k in 0..n {
        let s = format!("http://e/r{}", k);
        ds.default.insert((s.clone(), P.to_string(), format!("http://e/r{}", (k * 5 + 2) % n)));
        ds.default.insert((s.clone(), Q.to_string(), format!("{}", k % 4)));
        if k % 3 == 0 {
            ds.default.insert((s.clone(), Q.to_string(), format!("{}", 7 + k % 2)));
        }
    }
    ds
}

pub const BOUNDARY_SIZES: [usize; 6] = [63, 64, 65, 127, 128, 129];
pub const BOUNDARY_POOLS: [usize; 3] = [1, 3, 16];

/// Every join-algorithm assignment of the plan chosen under fresh statistics, executed INSIDE thread pools
/// of 1, 3 and 16 workers, on datasets whose left input has 63 / 64 / 65 / 127 / 128 / 129 rows (the bind
/// join's 64-row chunk threshold and its multiples; the hash and nested-loop joins' par_iter over the left
/// rows). `only` = "<n>:<pool>:<joins>" restricts to one configuration (replay).
fn pool_boundary_case(out: &mut ShardOut, name: &str, base: &Group, only: Option<&str>) {
    let sel = all_vars_select(base);
    let text = print_select(&sel, shape_layout(name));
    for n in BOUNDARY_SIZES {
        let ds = boundary_dataset(n);
        let exp = match reference_solutions(base, &ds) {
            Ok(e) => e,
            Err(e) => {
                out.machinery_errors.push(e);
                return;
            }
        };
        let c = CaseCtx { name, perm: 0, mask: u32::MAX, eg: false, text: &text, fam: fam_tags(base) };
        for pool_n in BOUNDARY_POOLS {
            let pool = match rayon::ThreadPoolBuilder::new().num_threads(pool_n).build() {
                Ok(p) => p,
                Err(e) => {
                    out.machinery_errors.push(format!("cannot build pool: {}", e));
                    return;
                }
            };
            let mut db = build_db(&ds);
            let view = DatasetView::from_database(&db);
            let plan = match plan_for(&c, &mut db, &view, StatsKind::Fresh) {
                Ok(p) => p,
                Err((symptom, detail)) => {
                    fail(out, &c, &format!("boundary:{}:{}:plan", n, pool_n), &symptom, detail, vec![]);
                    continue;
                }
            };
            let mut bases: Vec<PhysicalOperator> = vec![plan.clone()];
            if has_star(&plan) {
                let (mut jn, mut sn) = (0, 0);
                bases.push(rewrite(&plan, &None, &mut jn, &[], &mut sn, true));
            }
            for (bi, b) in bases.iter().enumerate() {
                let j = count_joins(b);
                for code in 0..3usize.pow(j.min(4) as u32) {
                    let mut a = Vec::with_capacity(j);
                    let mut x = code;
                    for _ in 0..j {
                        a.push((x % 3) as u8);
                        x /= 3;
                    }
                    let rest = format!("{}:{}:{}:{:?}", n, pool_n, bi, a);
                    if only.map_or(false, |o| o != rest) {
                        continue;
                    }
                    let label = format!("boundary:{}", rest);
                    let (mut jn, mut sn) = (0, 0);
                    let variant = rewrite(b, &Some(a.clone()), &mut jn, &[], &mut sn, false);
                    out.evaluations += 1;
                    out.count("boundary_pool_join_assignments_executed", 1);
                    let res = pool.install(|| exec_plan(&variant, &mut db, &view));
                    let mut tags = join_tags(&a);
                    tags.push(format!("threads={}", pool_n));
                    tags.push(format!("left_rows={}", n));
                    match res {
                        Err(p) => fail(out, &c, &label, "panic", p, tags),
                        Ok(got) => {
                            out.max("max_rows_boundary_dataset", got.len() as u64);
                            if got != exp {
                                fail(out, &c, &label, "wrong_rows", diff(&exp, &got), tags);
                            } else if !got.is_empty() {
                                out.nontrivial(&(&text, &label));
                            }
                        }
                    }
                }
            }
        }
    }
}

fn run(ctx: &Ctx) -> ShardOut {
    let mut out = ShardOut::default();
    let groups = base_groups();
    let dsl = datasets(ctx.thorough());
    let mut idx = 0u64;
    'all: for (name, base) in &groups {
        let perms = shape_permutations(name, base);
        out.max("max_permutations_of_one_query", perms.len() as u64);
        for (pi, g) in perms.iter().enumerate() {
            let sel = all_vars_select(g);
            let text = print_select(&sel, shape_layout(name));
            for (di, (mask, eg)) in dsl.iter().enumerate() {
                idx += 1;
                if !ctx.mine(idx) {
                    continue;
                }
                if ctx.expired() {
                    out.capped.push(format!("wall-clock cap hit at shape {} permutation {}", name, pi));
                    break 'all;
                }
                let ds = dataset_from_mask(*mask, *eg);
                let c = CaseCtx { name, perm: pi, mask: *mask, eg: *eg, text: &text, fam: fam_tags(g) };
                // plan variants on every dataset in thorough, on the first 6 datasets in quick
                let pv = ctx.thorough() || di < 6;
                check_case(&mut out, &c, g, &ds, None, pv);
                if out.samples.len() < 2 && di == 0 && pi == 1 {
                    out.sample(json!({"shape": name, "query": text, "dataset_mask": mask}));
                }
            }
        }
    }
    // thread-pool sizes on the wide dataset (free-running; see assumptions)
    let wide = wide_dataset();
    for (name, base) in groups.iter().filter(|(n, _)| shape_is_absolute(n)) {
        for (pi, g) in shape_permutations(name, base).iter().enumerate() {
            if pi > 1 && !ctx.thorough() {
                break;
            }
            idx += 1;
            if !ctx.mine(idx) {
                continue;
            }
            if ctx.expired() {
                out.capped.push("wall-clock cap hit in pool-size runs".into());
                break;
            }
            pool_sizes_case(&mut out, name, pi, g, &wide, None);
        }
    }
    // uneven chunking: 1099 left rows under every pool size
    let xwide = xwide_dataset();
    for (name, base) in groups.iter().filter(|(n, _)| matches!(*n, "chain2" | "os_join" | "join_filter" | "star3")) {
        for (pi, g) in permuted_groups(base).iter().enumerate() {
            if pi > 1 {
                break;
            }
            idx += 1;
            if !ctx.mine(idx) {
                continue;
            }
            pool_sizes_case(&mut out, &format!("xwide:{}", name), pi, g, &xwide, None);
        }
    }
    // join algorithms x pool sizes x boundary left-row counts
    for (name, base) in groups.iter().filter(|(n, _)| matches!(*n, "chain2" | "os_join" | "star3" | "union_right" | "bind_right_scan")) {
        idx += 1;
        if !ctx.mine(idx) {
            continue;
        }
        if ctx.expired() {
            out.capped.push("wall-clock cap hit in the boundary pool runs".into());
            break;
        }
        pool_boundary_case(&mut out, name, base, None);
    }
    out
}

fn replay(_ctx: &Ctx, case: &Value) -> ShardOut {
    let mut out = ShardOut::default();
    let shape = case["shape"].as_str().unwrap_or("");
    let perm = case["perm"].as_u64().unwrap_or(0) as usize;
    let config = case["config"].as_str().unwrap_or("");
    let groups = base_groups();
    let xw = shape.starts_with("xwide:");
    let shape = shape.trim_start_matches("xwide:");
    let Some((name, base)) = groups.iter().find(|(n, _)| *n == shape) else {
        out.machinery_errors.push("replay: unknown shape".into());
        return out;
    };
    if let Some(rest) = config.strip_prefix("boundary:") {
        pool_boundary_case(&mut out, name, base, Some(rest));
        return out;
    }
    let perms = shape_permutations(name, base);
    let Some(g) = perms.get(perm) else {
        out.machinery_errors.push("replay: bad permutation".into());
        return out;
    };
    if let Some(n) = config.strip_prefix("pool:") {
        pool_sizes_case(&mut out, name, perm, g, &if xw { xwide_dataset() } else { wide_dataset() }, n.parse().ok());
        return out;
    }
    let mask = case["dataset_mask"].as_u64().unwrap_or(0) as u32;
    let eg = case["empty_graph"].as_bool().unwrap_or(false);
    let ds = dataset_from_mask(mask, eg);
    let sel = all_vars_select(g);
    let text = print_select(&sel, shape_layout(name));
    let c = CaseCtx { name, perm, mask, eg, text: &text, fam: fam_tags(g) };
    check_case(&mut out, &c, g, &ds, Some(config), true);
    out
}
