//! C17 — query entry points cannot modify data; string entry points fail cleanly.
//! E-in x states: the C16 request set (seed corpus, every single mutation, short token strings),
//! all update forms and legacy aliases, against four database states, through every string entry
//! point, with the dataset (quads + catalog) compared before/after.
use super::c16::{mutations, seed_corpus, TOKENS};
use super::common::*;
use crate::infra::{guarded, Ctx, PropDef, ShardOut};
use crate::reference::sparql_eval::Dataset;
use kolibrie::execute_query::{execute_query_rayon_parallel2_volcano, execute_sparql_query, execute_sparql_update};
use kolibrie::parser::parse_combined_query;
use kolibrie::sparql_database::SparqlDatabase;
use serde_json::{json, Value};
use shared::query::SparqlOperation;
use shared::triple::Triple;

pub const DEF: PropDef = PropDef {
    id: "C17",
    level: "exploration",
    rule: "cases = (request text, database state, entry point): request texts are the C16 seed corpus (SELECT forms, the six update forms, legacy INSERT/DELETE aliases, rejected requests, RULE/REGISTER/RETRIEVE/ML.PREDICT extension requests), every single mutation of every seed (delete / insert / substitute 14 special characters incl. multi-byte / truncate, at every offset) and every token string of <=2 (thorough <=3) tokens over the 30-token alphabet; states: empty, default-graph only, named graphs + an empty named graph, quoted triples (quick: each mutation against one of two states, alternating; thorough: all four); entry points execute_sparql_query, the HTTP query endpoint (SparqlDatabase::handle_http_request with a well-formed POST application/sparql-query and a form-encoded query= body), execute_sparql_update, SparqlDatabase::execute_update, SparqlDatabase::handle_update and (SELECT texts only) the legacy execute_query_rayon_parallel2_volcano. Oracle: no entry point panics; execute_sparql_query and the HTTP query endpoint leave quads + catalog identical for every text and returns Err for every text the parser classifies as an Update; a text the parser classifies as SELECT leaves the dataset unchanged through every entry point and is refused by the update entry points; an update entry point that returns Err / 'Update Failed' leaves the dataset unchanged. Non-trivial = texts accepted by the request parser; distinct by (text, state).",
    assumptions: &[
        "classification of a text as SELECT / Update / malformed is taken from kolibrie::parser::parse_combined_query (whose totality and faithfulness are C16's subject)",
        "each case runs on a fresh database; crash isolation by worker subprocess (a worker killed by a signal is a violation)",
    ],
    run,
    replay,
    cap_s: (55, 900),
    shards: 0,
};

pub fn states() -> Vec<(&'static str, Dataset, bool)> {
    let t = |s: &str, p: &str, o: &str| (s.to_string(), p.to_string(), o.to_string());
    let mut d1 = Dataset::default();
    d1.default.insert(t(A, P, B));
    d1.default.insert(t(B, P, C));
    d1.default.insert(t(A, Q, "1"));
    let mut d2 = d1.clone();
    d2.named.entry(G1.into()).or_default().insert(t(A, P, B));
    d2.named.entry(G2.into()).or_default().insert(t(C, P, A));
    d2.named.entry(G3.into()).or_default();
    vec![("empty", Dataset::default(), false), ("named", d2.clone(), false), ("default_only", d1, false), ("quoted", d2, true)]
}

pub fn build_state(ds: &Dataset, quoted: bool) -> SparqlDatabase {
    let mut db = build_db(ds);
    if quoted {
        let qt = db.encode_term_star(&format!("<< <{}> <{}> <{}> >>", A, P, B));
        let nested = db.encode_term_star(&format!("<< << <{}> <{}> <{}> >> <{}> <{}> >>", A, P, B, Q, C));
        let (p, c) = {
            let mut d = db.dictionary.write().unwrap();
            (d.encode(Q), d.encode(C))
        };
        db.add_triple(Triple { subject: qt, predicate: p, object: c });
        db.add_triple(Triple { subject: c, predicate: p, object: nested });
    }
    db
}

#[derive(Clone, Copy, PartialEq, Eq, Debug)]
enum Kind {
    Select,
    Update,
    ExtensionOnly,
    Malformed,
}

fn classify(text: &str) -> Kind {
    match guarded(|| parse_combined_query(text).ok().map(|(rest, c)| (rest.trim().is_empty(), c.sparql.as_ref().map(|s| matches!(s, SparqlOperation::Select(_)))))) {
        Ok(Some((true, Some(true)))) => Kind::Select,
        Ok(Some((true, Some(false)))) => Kind::Update,
        Ok(Some((true, None))) => Kind::ExtensionOnly,
        _ => Kind::Malformed,
    }
}

const ENTRIES: [&str; 7] = [
    "execute_sparql_query",
    "execute_sparql_update",
    "SparqlDatabase::execute_update",
    "SparqlDatabase::handle_update",
    "legacy_volcano",
    "http_post_sparql_query",
    "http_form_query",
];

fn percent_encode(text: &str) -> String {
    let mut o = String::new();
    for b in text.bytes() {
        if b.is_ascii_alphanumeric() || matches!(b, b'-' | b'_' | b'.' | b'~') {
            o.push(b as char);
        } else {
            o.push_str(&format!("%{:02X}", b));
        }
    }
    o
}

/// returns failures (symptom, detail, entry)
fn check_case(text: &str, state_idx: usize, kind: Kind) -> Vec<(&'static str, String, &'static str)> {
    let (_, ds, quoted) = &states()[state_idx];
    let mut fails = Vec::new();
    for entry in ENTRIES {
        if entry == "legacy_volcano" && kind != Kind::Select {
            continue; // the legacy adapter accepts updates by design
        }
        let mut db = build_state(ds, *quoted);
        let before = extract(&db);
        // Ok(Some(true)) = returned success, Ok(Some(false)) = returned an error value
        let res: Result<bool, String> = guarded(|| match entry {
            "execute_sparql_query" => execute_sparql_query(text, &mut db).is_ok(),
            "execute_sparql_update" => execute_sparql_update(text, &mut db).is_ok(),
            "SparqlDatabase::execute_update" => db.execute_update(text).is_ok(),
            "SparqlDatabase::handle_update" => db.handle_update(text) != "Update Failed",
            // the HTTP query endpoint: HTTP framing is fixed and well-formed, only the query text varies
            "http_post_sparql_query" => !db.handle_http_request(&format!("POST /sparql HTTP/1.1\r\nHost: x\r\nContent-Type: application/sparql-query\r\n\r\n{}", text)).starts_with("Query Failed"),
            "http_form_query" => !db
                .handle_http_request(&format!("POST /sparql HTTP/1.1\r\nHost: x\r\nContent-Type: application/x-www-form-urlencoded\r\n\r\nquery={}", percent_encode(text)))
                .starts_with("Query Failed"),
            _ => {
                let _ = execute_query_rayon_parallel2_volcano(text, &mut db);
                true
            }
        });
        let ok = match res {
            Err(p) => {
                fails.push(("panic", format!("{} panicked on {:?}: {}", entry, text, p), entry));
                continue;
            }
            Ok(ok) => ok,
        };
        let after = extract(&db);
        let changed = after != before;
        match entry {
            "execute_sparql_query" | "http_post_sparql_query" | "http_form_query" => {
                if changed {
                    fails.push(("query_entry_point_modified_data", format!("{:?}\n  before {:?}\n  after  {:?}", text, before, after), entry));
                }
                if kind == Kind::Update && ok {
                    fails.push(("update_accepted_by_query_entry_point", format!("{:?} is an Update but execute_sparql_query returned Ok", text), entry));
                }
            }
            "legacy_volcano" => {
                if changed {
                    fails.push(("select_modified_data", format!("{:?}\n  before {:?}\n  after  {:?}", text, before, after), entry));
                }
            }
            _ => {
                if kind == Kind::Select {
                    if changed {
                        fails.push(("select_modified_data", format!("{:?}\n  before {:?}\n  after  {:?}", text, before, after), entry));
                    }
                    if ok && entry != "SparqlDatabase::handle_update" {
                        fails.push(("select_accepted_by_update_entry_point", format!("{:?}", text), entry));
                    }
                }
                if !ok && changed {
                    fails.push(("failed_update_changed_dataset", format!("{:?}\n  before {:?}\n  after  {:?}", text, before, after), entry));
                }
                if kind == Kind::Malformed && ok && entry != "SparqlDatabase::handle_update" {
                    fails.push(("malformed_request_accepted", format!("{:?} is rejected by the request parser but {} returned Ok", text, entry), entry));
                }
            }
        }
    }
    fails
}

fn record(out: &mut ShardOut, ctx: &Ctx, family: &str, text: &str, state_idx: usize) {
    if let Some(p) = &ctx.progress {
        p.mark(&json!({"family": family, "text": text, "state": state_idx}).to_string());
    }
    let kind = classify(text);
    out.evaluations += 1;
    out.count(&format!("kind_{:?}", kind), 1);
    if kind != Kind::Malformed {
        out.nontrivial(&(text, state_idx));
    }
    let fails = check_case(text, state_idx, kind);
    out.outcomes.insert(crate::infra::hash64(&(format!("{:?}", kind), fails.len())));
    for (symptom, detail, entry) in fails {
        let tags = vec![format!("entry={}", entry), format!("kind={:?}", kind), format!("multibyte={}", !text.is_ascii()), format!("family={}", family)];
        out.fail(json!({"family": family, "text": text, "state": state_idx}), symptom, detail, tags);
    }
}

fn run(ctx: &Ctx) -> ShardOut {
    let mut out = ShardOut::default();
    let nstates = states().len();
    let mut idx = 0u64;
    let seeds = seed_corpus();
    // seeds against every state
    for seed in &seeds {
        for st in 0..nstates {
            idx += 1;
            if ctx.mine(idx) {
                record(&mut out, ctx, "seed", seed, st);
            }
        }
    }
    out.sample(json!({"seed": seeds[3], "states": states().iter().map(|s| s.0).collect::<Vec<_>>()}));
    // token strings
    let maxlen = if ctx.thorough() { 3 } else { 2 };
    let n = TOKENS.len();
    for len in 1..=maxlen {
        let total = (n as u64).pow(len as u32);
        for code in 0..total {
            let mut c = code;
            let mut toks = Vec::with_capacity(len);
            for _ in 0..len {
                toks.push(TOKENS[(c % n as u64) as usize]);
                c /= n as u64;
            }
            let text = toks.join(" ");
            for st in [0usize, 1] {
                idx += 1;
                if ctx.mine(idx) {
                    record(&mut out, ctx, "tokens", &text, st);
                }
            }
        }
    }
    // single mutations
    let mut_states: Vec<usize> = if ctx.thorough() { (0..nstates).collect() } else { vec![1, 3] };
    'm: for seed in &seeds {
        let mut batch = Vec::new();
        mutations(seed, &mut |m| batch.push(m));
        for (mi, m) in batch.into_iter().enumerate() {
            for (k, &st) in mut_states.iter().enumerate() {
                idx += 1;
                // quick: EVERY mutation meets exactly one of the two states (alternating by the
                // mutation's own index), thorough: all four states
                if !ctx.thorough() && (mi + k) % 2 == 1 {
                    continue;
                }
                if !ctx.mine(idx) {
                    continue;
                }
                record(&mut out, ctx, "single_mutation", &m, st);
            }
        }
        if ctx.expired() {
            out.capped.push("wall-clock cap hit in single mutations (seeds before this one completed)".into());
            break 'm;
        }
    }
    out
}

fn replay(ctx: &Ctx, case: &Value) -> ShardOut {
    let mut out = ShardOut::default();
    let text = case["text"].as_str().unwrap_or("").to_string();
    let st = case["state"].as_u64().unwrap_or(0) as usize;
    let fam = case["family"].as_str().unwrap_or("seed").to_string();
    if st < states().len() {
        record(&mut out, ctx, &fam, &text, st);
    }
    out
}
