//! C17 — query entry points cannot modify data; string entry points fail cleanly.
//! E-in x states: the C16 request set (seed corpus, every single mutation, short token strings),
//! all update forms and legacy aliases, against four database states, through every string entry
//! point, with the dataset (quads + catalog) compared before/after.
use super::c16::{mutations, seed_corpus, TOKENS};
use super::common::*;
use crate::infra::{guarded, Ctx, PropDef, ShardOut};
use crate::reference::sparql_eval::Dataset;
use kolibrie::execute_query::{execute_query_rayon_parallel2_volcano, execute_sparql_query, execute_sparql_update};
use kolibrie::parser::parse_combined_query;
use kolibrie::sparql_database::SparqlDatabase;
use serde_json::{json, Value};
use shared::query::SparqlOperation;
use shared::triple::Triple;

pub const DEF: PropDef = PropDef {
    id: "C17",
    level: "exploration",
    rule: "cases = (request text, database state, entry point): request texts are the C16 seed corpus (SELECT forms, the six update forms incl. the C03 extension symbols, legacy INSERT/DELETE aliases, rejected requests, RULE/REGISTER/RETRIEVE/ML.PREDICT extension requests) plus C17's own seeds (two single-line requests longer than 200 columns with multi-byte literals spread through them; an update behind REGISTER / RETRIEVE / ML.PREDICT / a MODEL + NEURAL RELATION declaration; a SELECT over a declared, untrained neural relation; CRLF- and tab-separated requests), every single mutation of every seed (delete / insert / substitute 14 special characters incl. multi-byte / truncate, at every offset; quick: C17's own long seeds get every third of these, rotating with the offset) and every token string of <=2 (thorough <=3) tokens over the 34-token alphabet. Family ws_mutation: insertion and substitution, at every offset of every fourth seed and of every C17 seed, of six characters the C16 alphabet lacks (tab, CR, CRLF, combining acute, zero-width space, a double-width CJK character); family tokens_ws: token strings of <=2 tokens containing one of them, spaced and glued. States: empty, default-graph only, named graphs + an empty named graph, quoted triples (quick: each mutation against one of two states, alternating; thorough: all four). Entry points: execute_sparql_query, the HTTP query endpoint (SparqlDatabase::handle_http_request with a well-formed POST application/sparql-query, a form-encoded query= body, and - for seeds, tokens and every eighth mutation - GET /sparql?query= and a form body that writes spaces as '+'), execute_sparql_update, SparqlDatabase::execute_update, SparqlDatabase::handle_update and (SELECT texts only) the legacy execute_query_rayon_parallel2_volcano. Family http_form_raw: form bodies whose query= value carries a raw invalid-UTF-8 escape (%E9), a dangling '%', '%zz', '%00' or '+' at the start, middle or end of every seed; the text that reaches the engine is computed by an independent decoder. Family neural_train: one complete neural-relation program (MODEL + NEURAL RELATION + TRAIN NEURAL RELATION + SELECT over the neural predicate) per state, as one request text through every route. Family history2: every ordered pair of 12 requests (prefix-declaring / prefix-using SELECT and updates, a failed update, a rule, a neural declaration, garbage) where the first goes through execute_sparql_query, execute_update or the legacy adapter and the second is judged. Oracle: no entry point panics; execute_sparql_query and the HTTP query endpoint leave quads + catalog identical for every text, return Err / 'Query Failed' for every text the parser classifies as an Update and for every text it classifies as malformed; a text the parser classifies as SELECT leaves the dataset unchanged through every entry point and is refused by the update entry points; an update entry point that returns Err / 'Update Failed' leaves the dataset unchanged and returns Err for every malformed text. Non-trivial = texts accepted by the request parser; distinct by (text, state).",
    assumptions: &[
        "classification of a text as SELECT / Update / malformed is taken from kolibrie::parser::parse_combined_query (whose totality and faithfulness are C16's subject); for the POST application/sparql-query route the classified text is the part of the body before the first blank line (CRLF CRLF), which is what that route hands to the engine",
        "each case runs on a fresh database; crash isolation by worker subprocess (a worker killed by a signal is a violation)",
        "HTTP framing (request line, headers) is fixed and well-formed; only the request text varies. Form bodies carrying both query= and update= are not generated (the protocol leaves them open)",
        "family neural_train: TRAIN NEURAL RELATION occurs in exactly one generated text per state (a complete MODEL + NEURAL RELATION + TRAIN + SELECT program, one epoch, artifact written to <temp dir>/kolibrie-vcheck-c17-train-<state>.bin); it is never mutated, because a mutated SAVE_TO would write files elsewhere",
    ],
    run,
    replay,
    cap_s: (55, 900),
    shards: 0,
};

pub fn states() -> Vec<(&'static str, Dataset, bool)> {
    let t = |s: &str, p: &str, o: &str| (s.to_string(), p.to_string(), o.to_string());
    let mut d1 = Dataset::default();
    d1.default.insert(t(A, P, B));
    d1.default.insert(t(B, P, C));
    d1.default.insert(t(A, Q, "1"));
    let mut d2 = d1.clone();
    d2.named.entry(G1.into()).or_default().insert(t(A, P, B));
    d2.named.entry(G2.into()).or_default().insert(t(C, P, A));
    d2.named.entry(G3.into()).or_default();
    vec![("empty", Dataset::default(), false), ("named", d2.clone(), false), ("default_only", d1, false), ("quoted", d2, true)]
}

pub fn build_state(ds: &Dataset, quoted: bool) -> SparqlDatabase {
    let mut db = build_db(ds);
    if quoted {
        let qt = db.encode_term_star(&format!("<< <{}> <{}> <{}> >>", A, P, B));
        let nested = db.encode_term_star(&format!("<< << <{}> <{}> <{}> >> <{}> <{}> >>", A, P, B, Q, C));
        let (p, c) = {
            let mut d = db.dictionary.write().unwrap();
            (d.encode(Q), d.encode(C))
        };
        db.add_triple(Triple { subject: qt, predicate: p, object: c });
        db.add_triple(Triple { subject: c, predicate: p, object: nested });
    }
    db
}

/// Characters the C16 mutation alphabet lacks: line structure (tab, CR, CRLF) and display-width
/// classes (combining, zero-width, double-width) that the error renderer treats specially.
pub const WS_SPECIALS: [&str; 6] = ["\t", "\r", "\r\n", "\u{301}", "\u{200B}", "中"];

const NEURAL_DECL: &str = "MODEL \"m\" { ARCH MLP { HIDDEN [2] } OUTPUT BINARY { \"yes\" } } NEURAL RELATION <http://e/nr> USING MODEL \"m\" { INPUT { ?s <http://e/q> ?v . } FEATURES { ?v } }";

/// C17's own seeds (on top of the C16 corpus).
pub fn extra_seeds() -> Vec<String> {
    let mut v: Vec<String> = Vec::new();
    // single lines longer than 200 columns, multi-byte literals spread through them
    let lits = ["é1", "中文", "😀", "e\u{301}", "a\u{200B}b", "ß", "日本", "x"];
    let mut q = String::from("SELECT ?s WHERE {");
    for (k, l) in lits.iter().enumerate() {
        q.push_str(&format!(" ?s <http://e/p{}> \"{}\" .", k, l));
    }
    q.push_str(" ?s <http://e/p> ?o . FILTER(?o != \"ü\") }");
    v.push(q);
    let mut u = String::from("INSERT DATA {");
    for (k, l) in lits.iter().enumerate() {
        u.push_str(&format!(" <http://e/s{}> <http://e/p> \"{}\" .", k, l));
    }
    u.push_str(" GRAPH <http://e/g1> { <http://e/a> <http://e/p> \"末\" . } }");
    v.push(u);
    // an update behind each extension clause (the operation-kind check must still see it)
    v.push("REGISTER ISTREAM <http://out/stream> AS SELECT * FROM NAMED WINDOW :w ON ?stream [RANGE 3 STEP 1] WHERE { WINDOW :w { ?s a <http://test/IType> . } } INSERT DATA { <http://e/a> <http://e/p> <http://e/c> . }".into());
    v.push("RETRIEVE SOME ACTIVE STREAM ?s FROM <http://my.org/catalog> WITH { ?s a :Stream . } INSERT DATA { <http://e/a> <http://e/p> <http://e/c> . }".into());
    v.push("ML.PREDICT( MODEL \"m\", INPUT { SELECT ?room ?h WHERE { ?room :humidity ?h } }, OUTPUT ?t ) INSERT DATA { <http://e/a> <http://e/p> <http://e/c> . }".into());
    v.push(format!("{} INSERT DATA {{ <http://e/a> <http://e/p> <http://e/c> . }}", NEURAL_DECL));
    v.push(format!("{} DELETE WHERE {{ ?s <http://e/p> ?o }}", NEURAL_DECL));
    // a SELECT over a declared but untrained neural relation (the materialisation hook of execute_select)
    v.push(format!("{} SELECT ?s WHERE {{ ?s <http://e/nr> ?o }}", NEURAL_DECL));
    // other line structures
    v.push("SELECT ?s\r\nWHERE {\r\n  ?s <http://e/p> ?o .\r\n}".into());
    v.push("SELECT\t?s\tWHERE\t{\t?s\t<http://e/p>\t\"é\"\t.\t}".into());
    v.push("INSERT DATA {\r\n<http://e/a> <http://e/p> \"é\" .\r\n}".into());
    v
}

/// One complete neural-relation program (MODEL + NEURAL RELATION + TRAIN + SELECT over the neural
/// predicate) as a single request text: the only request shape whose SELECT is meant to write
/// predictions into the store. It is a request string like any other, so it is inside the
/// property's quantifier; it is never mutated (a mutated SAVE_TO would write files elsewhere).
/// One epoch over the (at most two) rows of the state; the artifact goes to a per-state file
/// under the system temp directory.
pub fn neural_train_text(state_idx: usize) -> String {
    let path = std::env::temp_dir().join(format!("kolibrie-vcheck-c17-train-{}.bin", state_idx));
    format!(
        "PREFIX ex: <http://e/>\nMODEL \"vcheck_m{st}\" {{\n    ARCH MLP {{ HIDDEN [2] }}\n    OUTPUT EXCLUSIVE {{ \"http://e/b\", \"http://e/c\" }}\n}}\nNEURAL RELATION ex:nr USING MODEL \"vcheck_m{st}\" {{\n    INPUT {{\n        ?s ex:q ?v .\n    }}\n    FEATURES {{ ?v }}\n}}\nTRAIN NEURAL RELATION ex:nr {{\n    DATA {{\n        ?s ex:p ?l .\n    }}\n    LABEL ?l\n    TARGET {{ ?s ex:nr ?l }}\n    LOSS cross_entropy\n    OPTIMIZER adam\n    LEARNING_RATE 0.1\n    EPOCHS 1\n    BATCH_SIZE 1\n    SAVE_TO \"{path}\"\n}}\nSELECT ?s WHERE {{ ?s ex:nr ?o . }}",
        st = state_idx,
        path = path.display()
    )
}

fn all_seeds() -> (Vec<String>, usize) {
    let mut v = seed_corpus();
    let n = v.len();
    v.extend(extra_seeds());
    (v, n)
}

#[derive(Clone, Copy, PartialEq, Eq, Debug)]
enum Kind {
    Select,
    Update,
    ExtensionOnly,
    Malformed,
}

fn classify(text: &str) -> Kind {
    match guarded(|| parse_combined_query(text).ok().map(|(rest, c)| (rest.trim().is_empty(), c.sparql.as_ref().map(|s| matches!(s, SparqlOperation::Select(_)))))) {
        Ok(Some((true, Some(true)))) => Kind::Select,
        Ok(Some((true, Some(false)))) => Kind::Update,
        Ok(Some((true, None))) => Kind::ExtensionOnly,
        _ => Kind::Malformed,
    }
}

const ENTRIES: [&str; 9] = [
    "execute_sparql_query",
    "execute_sparql_update",
    "SparqlDatabase::execute_update",
    "SparqlDatabase::handle_update",
    "legacy_volcano",
    "http_post_sparql_query",
    "http_form_query",
    // only with `wide`
    "http_get_query",
    "http_form_query_plus",
];

fn is_query_entry(entry: &str) -> bool {
    matches!(entry, "execute_sparql_query" | "http_post_sparql_query" | "http_form_query" | "http_get_query" | "http_form_query_plus" | "http_form_query_raw")
}

fn percent_encode(text: &str, space_as_plus: bool) -> String {
    let mut o = String::new();
    for b in text.bytes() {
        if b.is_ascii_alphanumeric() || matches!(b, b'-' | b'_' | b'.' | b'~') {
            o.push(b as char);
        } else if b == b' ' && space_as_plus {
            o.push('+');
        } else {
            o.push_str(&format!("%{:02X}", b));
        }
    }
    o
}

/// application/x-www-form-urlencoded value decoding, written independently of the subject:
/// '+' is a space, %XX with two hex digits is that byte, anything else stands for itself, and the
/// byte string is read as UTF-8 with replacement characters.
fn form_decode(raw: &str) -> String {
    let b = raw.as_bytes();
    let hex = |c: u8| -> Option<u8> {
        match c {
            b'0'..=b'9' => Some(c - b'0'),
            b'a'..=b'f' => Some(c - b'a' + 10),
            b'A'..=b'F' => Some(c - b'A' + 10),
            _ => None,
        }
    };
    let mut out: Vec<u8> = Vec::with_capacity(b.len());
    let mut i = 0;
    while i < b.len() {
        match b[i] {
            b'+' => {
                out.push(b' ');
                i += 1;
            }
            b'%' if i + 2 < b.len() && hex(b[i + 1]).is_some() && hex(b[i + 2]).is_some() => {
                out.push(hex(b[i + 1]).unwrap() * 16 + hex(b[i + 2]).unwrap());
                i += 3;
            }
            c => {
                out.push(c);
                i += 1;
            }
        }
    }
    String::from_utf8_lossy(&out).into_owned()
}

const POST_QUERY: &str = "POST /sparql HTTP/1.1\r\nHost: x\r\nContent-Type: application/sparql-query\r\n\r\n";
const POST_FORM: &str = "POST /sparql HTTP/1.1\r\nHost: x\r\nContent-Type: application/x-www-form-urlencoded\r\n\r\n";

/// Run `text` through one entry point; Ok(true) = success value, Ok(false) = error value.
fn call_entry(entry: &str, text: &str, db: &mut SparqlDatabase) -> Result<bool, String> {
    guarded(|| match entry {
        "execute_sparql_query" => execute_sparql_query(text, db).is_ok(),
        "execute_sparql_update" => execute_sparql_update(text, db).is_ok(),
        "SparqlDatabase::execute_update" => db.execute_update(text).is_ok(),
        "SparqlDatabase::handle_update" => db.handle_update(text) != "Update Failed",
        // the HTTP query endpoint: HTTP framing is fixed and well-formed, only the query text varies
        "http_post_sparql_query" => !db.handle_http_request(&format!("{}{}", POST_QUERY, text)).starts_with("Query Failed"),
        "http_form_query" => !db.handle_http_request(&format!("{}query={}", POST_FORM, percent_encode(text, false))).starts_with("Query Failed"),
        "http_form_query_plus" => !db.handle_http_request(&format!("{}query={}", POST_FORM, percent_encode(text, true))).starts_with("Query Failed"),
        // `text` is the raw, still encoded value here
        "http_form_query_raw" => !db.handle_http_request(&format!("{}query={}", POST_FORM, text)).starts_with("Query Failed"),
        "http_get_query" => !db.handle_http_request(&format!("GET /sparql?query={} HTTP/1.1\r\nHost: x\r\n\r\n", percent_encode(text, false))).starts_with("Query Failed"),
        _ => {
            let _ = execute_query_rayon_parallel2_volcano(text, db);
            true
        }
    })
}

type Fail = (&'static str, String, &'static str);

/// Judge one (entry, text) execution. `kind` classifies the text that reaches the engine.
fn judge(entry: &'static str, shown: &str, kind: Kind, ok: bool, before: &Dataset, after: &Dataset, fails: &mut Vec<Fail>) {
    let changed = after != before;
    if is_query_entry(entry) {
        if changed {
            fails.push(("query_entry_point_modified_data", format!("{:?}\n  before {:?}\n  after  {:?}", shown, before, after), entry));
        }
        if kind == Kind::Update && ok {
            fails.push(("update_accepted_by_query_entry_point", format!("{:?} is an Update but {} returned a success value", shown, entry), entry));
        }
        if kind == Kind::Malformed && ok {
            fails.push(("malformed_request_accepted", format!("{:?} is rejected by the request parser but {} returned a success value", shown, entry), entry));
        }
    } else if entry == "legacy_volcano" {
        if changed {
            fails.push(("select_modified_data", format!("{:?}\n  before {:?}\n  after  {:?}", shown, before, after), entry));
        }
    } else {
        if kind == Kind::Select {
            if changed {
                fails.push(("select_modified_data", format!("{:?}\n  before {:?}\n  after  {:?}", shown, before, after), entry));
            }
            if ok && entry != "SparqlDatabase::handle_update" {
                fails.push(("select_accepted_by_update_entry_point", format!("{:?}", shown), entry));
            }
        }
        if !ok && changed {
            fails.push(("failed_update_changed_dataset", format!("{:?}\n  before {:?}\n  after  {:?}", shown, before, after), entry));
        }
        if kind == Kind::Malformed && ok && entry != "SparqlDatabase::handle_update" {
            fails.push(("malformed_request_accepted", format!("{:?} is rejected by the request parser but {} returned Ok", shown, entry), entry));
        }
    }
}

/// returns failures (symptom, detail, entry)
fn check_case(text: &str, state_idx: usize, kind: Kind, wide: bool) -> Vec<Fail> {
    let (_, ds, quoted) = &states()[state_idx];
    let mut fails = Vec::new();
    for entry in ENTRIES {
        if entry == "legacy_volcano" && kind != Kind::Select {
            continue; // the legacy adapter accepts updates by design
        }
        if !wide && matches!(entry, "http_get_query" | "http_form_query_plus") {
            continue;
        }
        let mut db = build_state(ds, *quoted);
        let before = extract(&db);
        let ok = match call_entry(entry, text, &mut db) {
            Err(p) => {
                fails.push(("panic", format!("{} panicked on {:?}: {}", entry, text, p), entry));
                continue;
            }
            Ok(ok) => ok,
        };
        let after = extract(&db);
        // the POST application/sparql-query route hands on the body up to the first blank line
        let kind_here = if entry == "http_post_sparql_query" && text.contains("\r\n\r\n") { classify(text.split("\r\n\r\n").next().unwrap_or("")) } else { kind };
        judge(entry, text, kind_here, ok, &before, &after, &mut fails);
    }
    fails
}

fn note_text(out: &mut ShardOut, text: &str, kind: Kind) {
    out.count(&format!("kind_{:?}", kind), 1);
    if kind == Kind::Malformed {
        if text.contains('\t') || text.contains('\r') {
            out.count("malformed_texts_with_tab_or_cr", 1);
        }
        if text.contains('\u{301}') || text.contains('\u{200B}') || text.contains('中') {
            out.count("malformed_texts_with_zero_or_double_width_char", 1);
        }
        if text.lines().any(|l| l.chars().count() > 140) {
            out.count("malformed_texts_with_line_over_140_columns", 1);
        }
    }
}

fn record(out: &mut ShardOut, ctx: &Ctx, family: &str, text: &str, state_idx: usize, wide: bool) {
    if let Some(p) = &ctx.progress {
        p.mark(&json!({"family": family, "text": text, "state": state_idx}).to_string());
    }
    let kind = classify(text);
    out.evaluations += 1;
    out.count(&format!("family_{}", family), 1);
    if wide {
        out.count("cases_with_http_get_and_plus_form_routes", 1);
    }
    note_text(out, text, kind);
    if kind != Kind::Malformed {
        out.nontrivial(&(text, state_idx));
    }
    let fails = check_case(text, state_idx, kind, wide);
    out.outcomes.insert(crate::infra::hash64(&(format!("{:?}", kind), fails.len())));
    for (symptom, detail, entry) in fails {
        let mut tags = vec![format!("entry={}", entry), format!("kind={:?}", kind), format!("multibyte={}", !text.is_ascii()), format!("family={}", family)];
        // structural facts about the request itself
        if text.contains("TRAIN NEURAL RELATION") {
            tags.push("request_has_train_neural_relation".into());
        }
        if text.contains("NEURAL RELATION") {
            tags.push("request_declares_neural_relation".into());
        }
        out.fail(json!({"family": family, "text": text, "state": state_idx, "wide": wide}), symptom, detail, tags);
    }
}

// ---------------------------------------------------------------------------------------
// family http_form_raw
// ---------------------------------------------------------------------------------------

const RAW_INJECTIONS: [&str; 6] = ["%E9", "%", "%zz", "%00", "+", "%C3"];

fn raw_form_values(seed: &str) -> Vec<String> {
    let bounds: Vec<usize> = seed.char_indices().map(|(i, _)| i).chain(std::iter::once(seed.len())).collect();
    let positions = [0usize, bounds[bounds.len() / 2], seed.len()];
    let mut v = Vec::new();
    for inj in RAW_INJECTIONS {
        for (k, &p) in positions.iter().enumerate() {
            if k > 0 && positions[..k].contains(&p) {
                continue;
            }
            v.push(format!("{}{}{}", percent_encode(&seed[..p], false), inj, percent_encode(&seed[p..], false)));
        }
    }
    v
}

fn record_raw_form(out: &mut ShardOut, ctx: &Ctx, raw: &str, state_idx: usize) {
    if let Some(p) = &ctx.progress {
        p.mark(&json!({"family": "http_form_raw", "text": raw, "state": state_idx}).to_string());
    }
    let decoded = form_decode(raw);
    let kind = classify(&decoded);
    out.evaluations += 1;
    out.count("family_http_form_raw", 1);
    if decoded.contains('\u{FFFD}') {
        out.count("http_form_raw_lossy_decodings", 1);
    }
    note_text(out, &decoded, kind);
    if kind != Kind::Malformed {
        out.nontrivial(&(raw, state_idx));
    }
    let (_, ds, quoted) = &states()[state_idx];
    let mut db = build_state(ds, *quoted);
    let before = extract(&db);
    let mut fails: Vec<Fail> = Vec::new();
    let entry = "http_form_query_raw";
    match call_entry(entry, raw, &mut db) {
        Err(p) => fails.push(("panic", format!("{} panicked on query={:?}: {}", entry, raw, p), entry)),
        Ok(ok) => {
            let after = extract(&db);
            judge(entry, &decoded, kind, ok, &before, &after, &mut fails);
        }
    }
    out.outcomes.insert(crate::infra::hash64(&(format!("raw{:?}", kind), fails.len())));
    for (symptom, detail, entry) in fails {
        let tags = vec![format!("entry={}", entry), format!("kind={:?}", kind), format!("multibyte={}", !decoded.is_ascii()), "family=http_form_raw".to_string()];
        out.fail(json!({"family": "http_form_raw", "text": raw, "state": state_idx}), symptom, detail, tags);
    }
}

// ---------------------------------------------------------------------------------------
// family history2
// ---------------------------------------------------------------------------------------

fn history_requests() -> Vec<String> {
    vec![
        "PREFIX ex: <http://e/> SELECT ?s WHERE { ?s ex:p ?o }".into(),
        "SELECT ?s WHERE { ?s ex:p ?o }".into(),
        "PREFIX ex: <http://e/> INSERT DATA { ex:a ex:p ex:c }".into(),
        "INSERT DATA { ex:a ex:p ex:d }".into(),
        "PREFIX ex: <http://e/> INSERT DATA { ex:a ex:p ".into(),
        "PREFIX ex: <http://f/> SELECT ?s WHERE { ?s ex:p ?o }".into(),
        "RULE :R :- CONSTRUCT { ?x <http://e/p> ?z . } WHERE { ?x <http://e/p> ?y . ?y <http://e/p> ?z . }".into(),
        "DELETE WHERE { ?s <http://e/p> ?o }".into(),
        "SELECT ?s ?g WHERE { GRAPH ?g { ?s <http://e/p> ?o } }".into(),
        format!("{} SELECT ?s WHERE {{ ?s <http://e/nr> ?o }}", NEURAL_DECL),
        "SELECT ?s WHERE { ?s <http://e/nr> ?o }".into(),
        "é".into(),
    ]
}

const HISTORY_FIRST: [&str; 3] = ["execute_sparql_query", "SparqlDatabase::execute_update", "legacy_volcano"];
const HISTORY_SECOND: [&str; 6] = ["execute_sparql_query", "http_post_sparql_query", "http_form_query", "execute_sparql_update", "SparqlDatabase::execute_update", "SparqlDatabase::handle_update"];

fn record_history(out: &mut ShardOut, ctx: &Ctx, state_idx: usize, r1: usize, e1: usize, r2: usize) {
    let reqs = history_requests();
    let case = json!({"family": "history2", "state": state_idx, "r1": r1, "e1": e1, "r2": r2, "first": reqs[r1], "text": reqs[r2]});
    if let Some(p) = &ctx.progress {
        p.mark(&case.to_string());
    }
    let text = &reqs[r2];
    let kind = classify(text);
    out.evaluations += 1;
    out.count("family_history2", 1);
    let (_, ds, quoted) = &states()[state_idx];
    let mut fails: Vec<Fail> = Vec::new();
    let mut first_changed = false;
    for entry in HISTORY_SECOND {
        let mut db = build_state(ds, *quoted);
        let start = extract(&db);
        // the first request only builds the history; its own behaviour is judged by the other families
        if call_entry(HISTORY_FIRST[e1], &reqs[r1], &mut db).is_err() {
            out.count("history2_first_request_panicked", 1);
            continue;
        }
        let before = extract(&db);
        first_changed |= before != start;
        match call_entry(entry, text, &mut db) {
            Err(p) => fails.push(("panic", format!("{} panicked on {:?} after {:?}: {}", entry, text, reqs[r1], p), entry)),
            Ok(ok) => {
                let after = extract(&db);
                judge(entry, text, kind, ok, &before, &after, &mut fails);
            }
        }
    }
    if first_changed {
        out.count("history2_first_request_changed_the_data", 1);
    }
    if kind != Kind::Malformed {
        out.nontrivial(&("history2", state_idx, r1, e1, r2));
    }
    out.outcomes.insert(crate::infra::hash64(&(format!("h{:?}", kind), fails.len())));
    for (symptom, detail, entry) in fails {
        let tags = vec![format!("entry={}", entry), format!("kind={:?}", kind), format!("multibyte={}", !text.is_ascii()), "family=history2".to_string(), format!("first_entry={}", HISTORY_FIRST[e1])];
        out.fail(case.clone(), symptom, detail, tags);
    }
}

/// insertion and substitution of each WS special at every character offset
fn ws_mutations(seed: &str, f: &mut dyn FnMut(String)) {
    let idx: Vec<usize> = seed.char_indices().map(|(i, _)| i).chain(std::iter::once(seed.len())).collect();
    for (k, &i) in idx.iter().enumerate() {
        for sp in WS_SPECIALS {
            f(format!("{}{}{}", &seed[..i], sp, &seed[i..]));
        }
        if k + 1 < idx.len() {
            let j = idx[k + 1];
            for sp in WS_SPECIALS {
                f(format!("{}{}{}", &seed[..i], sp, &seed[j..]));
            }
        }
    }
}

fn run(ctx: &Ctx) -> ShardOut {
    let mut out = ShardOut::default();
    let nstates = states().len();
    let mut idx = 0u64;
    let (seeds, n_c16) = all_seeds();
    out.count("max_seeds", seeds.len() as u64);
    // seeds against every state, every route
    for seed in &seeds {
        for st in 0..nstates {
            idx += 1;
            if ctx.mine(idx) {
                record(&mut out, ctx, "seed", seed, st, true);
            }
        }
    }
    out.sample(json!({"seed": seeds[3], "states": states().iter().map(|s| s.0).collect::<Vec<_>>()}));
    // token strings
    let maxlen = if ctx.thorough() { 3 } else { 2 };
    let n = TOKENS.len();
    for len in 1..=maxlen {
        let total = (n as u64).pow(len as u32);
        for code in 0..total {
            let mut c = code;
            let mut toks = Vec::with_capacity(len);
            for _ in 0..len {
                toks.push(TOKENS[(c % n as u64) as usize]);
                c /= n as u64;
            }
            let text = toks.join(" ");
            for st in [0usize, 1] {
                idx += 1;
                if ctx.mine(idx) {
                    record(&mut out, ctx, "tokens", &text, st, len <= 2);
                }
            }
        }
    }
    // token strings containing a WS special, spaced and glued
    {
        let mut texts: Vec<String> = Vec::new();
        for w in WS_SPECIALS {
            texts.push(w.to_string());
            for joiner in [" ", ""] {
                for t in TOKENS.iter().copied().chain(WS_SPECIALS.iter().copied()) {
                    texts.push(format!("{}{}{}", w, joiner, t));
                    texts.push(format!("{}{}{}", t, joiner, w));
                }
            }
        }
        texts.sort();
        texts.dedup();
        for text in &texts {
            for st in [0usize, 1] {
                idx += 1;
                if ctx.mine(idx) {
                    record(&mut out, ctx, "tokens_ws", text, st, true);
                }
            }
        }
    }
    // raw form values
    for (si, seed) in seeds.iter().enumerate() {
        for (k, raw) in raw_form_values(seed).into_iter().enumerate() {
            idx += 1;
            if ctx.mine(idx) {
                record_raw_form(&mut out, ctx, &raw, [1usize, 3, 0, 2][(si + k) % 4]);
            }
        }
    }
    // the complete neural-relation program, every state, every route
    for st in 0..nstates {
        idx += 1;
        if ctx.mine(idx) {
            let text = neural_train_text(st);
            // vacuity: did the request really train (an artifact is registered afterwards)?
            let (_, ds, quoted) = &states()[st];
            let mut db = build_state(ds, *quoted);
            let artifact = std::env::temp_dir().join(format!("kolibrie-vcheck-c17-train-{}.bin", st));
            let _ = std::fs::remove_file(&artifact);
            let _ = guarded(|| execute_sparql_query(&text, &mut db).is_ok());
            if artifact.exists() {
                out.count("neural_train_requests_that_wrote_a_model_artifact", 1);
            }
            if !db.neural_materialized_triples.values().all(|v| v.is_empty()) {
                out.count("neural_train_requests_that_materialised_predictions", 1);
            }
            record(&mut out, ctx, "neural_train", &text, st, true);
        }
    }
    // two-request histories
    let nreq = history_requests().len();
    for st in 0..nstates {
        for r1 in 0..nreq {
            for e1 in 0..HISTORY_FIRST.len() {
                for r2 in 0..nreq {
                    idx += 1;
                    if ctx.mine(idx) {
                        record_history(&mut out, ctx, st, r1, e1, r2);
                    }
                }
            }
        }
    }
    // single mutations
    let mut_states: Vec<usize> = if ctx.thorough() { (0..nstates).collect() } else { vec![1, 3] };
    'm: for (si, seed) in seeds.iter().enumerate() {
        let mut batch = Vec::new();
        mutations(seed, &mut |m| batch.push((false, m)));
        if si % 4 == 0 || si >= n_c16 {
            ws_mutations(seed, &mut |m| batch.push((true, m)));
        }
        for (mi, (ws, m)) in batch.into_iter().enumerate() {
            // quick: C17's own (long) seeds get every third mutation, rotating with the offset so
            // that every kind of mutation still meets every third offset
            if !ctx.thorough() && si >= n_c16 && (mi / 30 + mi) % 3 != 0 {
                continue;
            }
            for (k, &st) in mut_states.iter().enumerate() {
                idx += 1;
                // quick: EVERY mutation meets exactly one of the two states (alternating by the
                // mutation's own index), thorough: all four states
                if !ctx.thorough() && (mi + k) % 2 == 1 {
                    continue;
                }
                if !ctx.mine(idx) {
                    continue;
                }
                record(&mut out, ctx, if ws { "ws_mutation" } else { "single_mutation" }, &m, st, mi % 8 == 0);
            }
        }
        if ctx.expired() {
            out.capped.push("wall-clock cap hit in single mutations (seeds before this one completed)".into());
            break 'm;
        }
    }
    out
}

fn replay(ctx: &Ctx, case: &Value) -> ShardOut {
    let mut out = ShardOut::default();
    let text = case["text"].as_str().unwrap_or("").to_string();
    let st = case["state"].as_u64().unwrap_or(0) as usize;
    let fam = case["family"].as_str().unwrap_or("seed").to_string();
    if st >= states().len() {
        out.machinery_errors.push("replay: bad state".into());
        return out;
    }
    match fam.as_str() {
        "http_form_raw" => record_raw_form(&mut out, ctx, &text, st),
        "history2" => {
            let n = history_requests().len();
            let (r1, e1, r2) = (case["r1"].as_u64().unwrap_or(0) as usize, case["e1"].as_u64().unwrap_or(0) as usize, case["r2"].as_u64().unwrap_or(0) as usize);
            if r1 >= n || r2 >= n || e1 >= HISTORY_FIRST.len() {
                out.machinery_errors.push("replay: bad history case".into());
            } else {
                record_history(&mut out, ctx, st, r1, e1, r2);
            }
        }
        _ => record(&mut out, ctx, &fam, &text, st, case["wide"].as_bool().unwrap_or(true)),
    }
    out
}
