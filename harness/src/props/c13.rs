//! C13 — loading a document adds exactly its triples, whatever its size, the prior content of the
//! database and its dictionary, and the number of threads; the same triples written in different
//! formats load identically.
//! E-in over boundary positions: one abstract document (reference/loader.rs) is rendered to every
//! format, loaded by the real loaders under every prior content x rayon pool size, and the lexical
//! quads in the store are compared with prior ∪ triples(document) as read back by the reference reader.
use crate::infra::{guarded, Ctx, PropDef, ShardOut};
use crate::reference::loader::{self as rl, Format, Layout, LexQuad, Line, Link, Term};
use kolibrie::sparql_database::SparqlDatabase;
use serde_json::{json, Value};
use shared::dataset_index::GraphId;
use std::collections::{BTreeSet, HashMap};

pub const DEF: PropDef = PropDef {
    id: "C13",
    level: "exploration",
    rule: "documents = one abstract line list (filler line i: <http://e/s{i}> <http://e/p{i%3}> (<http://e/o{i%7}> | \"v{i%5}\") .) of n lines, n in {0,1,2} ∪ {998..1003} ∪ {1998..2002} ∪ {3001} (loader chunk size 1000, read from parse_ntriples/parse_n3; thorough adds 2003, 2998..3003, 4001), with ONE distinguished line of each kind {none, @prefix used only by later lines, @prefix RE-BINDING (x: bound on line 0 and used by every line before the distinguished line, which binds x: to another namespace used by every later line), term first seen 3 lines earlier (= previous chunk at offsets 0..+2), duplicate of the triple 3 lines earlier, lang-tagged literal, datatyped literal, literal with escapes, quoted triples (literal inside; nested), comment, blank line, IRI containing #, blank-node subject, STRADDLING statement (Turtle/N3: line p is `s p0 o ;` and line p+1 is `    p1 \"v\" .` — one statement over two physical lines, so that at offset -1 the chunk boundary falls INSIDE the statement; other formats: two ordinary lines; RDF/XML: one indented rdf:Description with two property elements, the layout generate_rdf_xml writes), one-line predicate list `s p0 o ; p1 \"w\" .` and one-line object list `s p0 o , \"w\" .` (Turtle/N3; the next physical line is empty so that line numbers stay aligned; other formats two lines), literal with inner white space and statement punctuation \"a  b . c ; d , e # f\" (crosses the N3 statement tokeniser and n3_comment_start's in-literal branch), rdfs:label / rdfs:subClassOf property with text content (RDF/XML: the Start-element special cases of parse_rdf, namespace declared through an `rdfs` prefix line)} placed at EVERY line index b-2..b+2 around EVERY chunk boundary b in {1000,2000,3000,..} that exists in the document (every index for n<=2), plus per size one ALL-IRI document (no literal anywhere, so that the N3 cross-format comparison is not covered by the known literal-token finding); each abstract document is rendered to N-Triples, N-Quads, N-Quads with a graph column, Turtle, N3, RDF/XML (loaded through parse_rdf AND, from a temporary file, through parse_rdf_from_file) (a format takes part iff every line is expressible in the subset its loader supports; skips are counted) x prior content {empty, one triple sharing no term, one triple sharing predicate+object, the document's first triple, non-empty dictionary without triples, HISTORY (an earlier parse_turtle of another document that leaves db.prefixes = {x: -> http://other/} and a quoted triple in the store, then an earlier parse_nquads_and_add that puts the document's first triple into <http://e/g1> and another quad into <http://e/g2>), SAME DOCUMENT LOADED TWICE (the first load through the same loader is the prior)} x rayon pool size {1,2,4,16} (ThreadPool::install around the loader). LAYOUT family: the documents of 2 and 1001 lines (every kind, every position) are also rendered with CRLF line ends, TAB separators, no terminator on the last line, and no white space before the closing dot (`<o>.`), loaded by the five line loaders (prior empty, pool sizes {1,4} for parse_ntriples/parse_n3). RDF/XML batch boundary (8192 triples per batch): quick loads documents of 8193 lines (plain; duplicate at 8192) through N-Triples, parse_rdf and parse_rdf_from_file; thorough 8190..8194 with kinds at 8190..8193 and 16385. QUICK tier reductions (thorough runs the full product, except pool sizes {2,16} instead of all four for the loaders that never touch the installed pool on documents of more than 1003 lines): documents up to the first boundary (n <= 1003) run all kinds (rdfs kinds only for n in {1,2,1001}), the five simple priors (HISTORY and TWICE for n in {1,2,1001}; parse_rdf_from_file for n in {0,1,2,1001}), all four pool sizes for the two loaders that run rayon tasks on the installed pool (parse_ntriples, parse_n3) and one pool size for the others (parse_turtle and parse_nquads_and_add are sequential, parse_rdf uses its own threads); documents beyond it (n >= 1998) keep every offset of every boundary with the chunk-sensitive kinds {@prefix, @prefix re-binding, earlier term, duplicate, straddling statement} (+ {comment, blank line} at later boundaries), priors {empty, first triple}, pool sizes {1,4}. Oracle per load: (a) lexical quads (decode_any over all_quads) and named graphs after the load = quads and named graphs OBSERVED BEFORE the load ∪ quads the reference reader finds in the text (for the five simple priors the observation before the load must itself equal the constructed prior, else machinery error); (b) dictionary still a bijection, next_id above every id, prior ids unchanged; (c) every load that satisfied (a) shows the same quads as the N-Triples load of the same abstract list under the same prior. A load that fails (a) with a distinguished line is re-run with the same line(s) moved to index 500 (mid-chunk): the outcome is recorded as tag mid_chunk_control=pass|fail (pass = the loader reads this very shape correctly when no chunk boundary is near, i.e. the failure depends on how the document is split). non-trivial = the document has >= 2 triples and (spans > 1 chunk or prior dictionary non-empty or has a distinguished line or a non-plain layout); distinct = distinct (n, kind, position, layout, prior, pool, format). Interleavings INSIDE the rayon pool are not enumerable (work stealing is not interceptable); pool sizes are. Verified by reading: parse_ntriples chunk tasks are pure functions of their lines (they only call the &self tokenisers parse_ntriples_parts/clean_ntriples_term, no dictionary access), collect() keeps chunk order and encode_triples encodes sequentially; parse_n3 chunk tasks each own a private SparqlDatabase and are merged sequentially; parse_turtle and parse_nquads_and_add never use rayon; parse_rdf encodes sequentially while reading and only ships batches of 8192 encoded triples to crossbeam threads whose results are inserted sequentially; parse_rdf_from_file is sequential with its own 8192 loop.",
    assumptions: &[
        "reference model: harness/src/reference/loader.rs (generator + independent reader, self-tested on hand-written documents); expected quads are computed from the rendered TEXT by the reference reader and cross-checked against the abstract list",
        "lexical forms: IRI bare, blank node _:label, plain literal = decoded value, \"v\"^^<dt> -> v, \"v\"@en -> v@en (the forms N-Triples/N-Quads loaders implement); N3 is checked against the literal token form parse_n3 documents (quotes, raw escapes, @lang, ^^datatype) and the resulting difference to all other formats is reported by the cross-format clause",
        "RDF/XML subset = rdf:Description/@rdf:about + property elements with text or rdf:resource, one or two per description (no blank nodes, xml:lang, rdf:datatype, quoted triples, default namespace); N3 subset has no quoted triples; documents outside a format's subset skip that format (counted)",
        "statement punctuation: `;` and `,` lists and a statement continued on the next line are part of the Turtle and N3 subset because both loaders implement them explicitly (parse_turtle keeps its statement state across lines, parse_n3 accumulates lines until one ends in `.`; parse_statement has `;` and `,` cases); layouts (CRLF, TAB, missing final newline, `<o>.`) are lexical freedoms of all four line grammars",
        "thread schedules inside rayon's pool are not enumerated (not interceptable); pool sizes 1,2,4,16 are; parse_rdf uses its own crossbeam threads + the global rayon pool (RAYON_NUM_THREADS=2), so the pool size does not reach it",
        "escape literal of the distinguished line keeps its special characters in the middle: literal CONTENT is C14's quantifier, not C13's (the inner-white-space literal is in C13 because N3 has no writer and therefore no C14 leg)",
        "the HISTORY and TWICE priors are taken as OBSERVED (whatever the earlier loads left in the store is 'the previous quads'); only the effect of the load under test is judged",
    ],
    run,
    replay,
    cap_s: (50, 1800),
    shards: 0,
};

pub const CHUNK: usize = 1000;
/// index the distinguished line(s) are moved to for the mid-chunk control run
pub const CONTROL_POS: usize = 500;
pub const RDFS_NS: &str = "http://www.w3.org/2000/01/rdf-schema#";

#[derive(Clone, Copy, PartialEq, Eq, Debug, Hash)]
pub enum Kind {
    None,
    Prefix,
    PrefixRebind,
    EarlyTerm,
    Duplicate,
    LangLit,
    DtLit,
    EscLit,
    Quoted,
    Comment,
    EmptyLine,
    HashIri,
    BlankSubj,
    StraddleSemi,
    InlineSemi,
    InlineComma,
    SpaceLit,
    RdfsProp,
    /// no distinguished line: every filler object is an IRI
    AllIri,
}

pub const KINDS: [Kind; 19] = [
    Kind::None,
    Kind::Prefix,
    Kind::PrefixRebind,
    Kind::EarlyTerm,
    Kind::Duplicate,
    Kind::LangLit,
    Kind::DtLit,
    Kind::EscLit,
    Kind::Quoted,
    Kind::Comment,
    Kind::EmptyLine,
    Kind::HashIri,
    Kind::BlankSubj,
    Kind::StraddleSemi,
    Kind::InlineSemi,
    Kind::InlineComma,
    Kind::SpaceLit,
    Kind::RdfsProp,
    Kind::AllIri,
];

impl Kind {
    fn name(&self) -> String {
        format!("{:?}", self)
    }
    fn parse(s: &str) -> Option<Kind> {
        KINDS.iter().copied().find(|k| k.name() == s)
    }
    /// kinds without a distinguished position (one document per size)
    fn positionless(&self) -> bool {
        matches!(self, Kind::None | Kind::AllIri)
    }
    /// kinds whose distinguished content occupies lines p and p+1
    fn two_lines(&self) -> bool {
        matches!(self, Kind::StraddleSemi | Kind::InlineSemi | Kind::InlineComma)
    }
}

#[derive(Clone, Copy, PartialEq, Eq, Debug, Hash)]
pub enum Loader {
    Fmt(Format),
    /// N-Quads with a graph column on every odd line (not part of the cross-format comparison)
    NQuadsNamed,
    /// the RDF/XML text written to a temporary file and loaded through parse_rdf_from_file
    RdfXmlFile,
}

pub const LOADERS: [Loader; 7] = [
    Loader::Fmt(Format::NTriples),
    Loader::Fmt(Format::NQuads),
    Loader::Fmt(Format::Turtle),
    Loader::Fmt(Format::N3),
    Loader::Fmt(Format::RdfXml),
    Loader::NQuadsNamed,
    Loader::RdfXmlFile,
];

impl Loader {
    fn name(&self) -> &'static str {
        match self {
            Loader::Fmt(f) => f.name(),
            Loader::NQuadsNamed => "nquads_named",
            Loader::RdfXmlFile => "rdfxml_file",
        }
    }
    fn parse(s: &str) -> Option<Loader> {
        LOADERS.iter().copied().find(|l| l.name() == s)
    }
    fn format(&self) -> Format {
        match self {
            Loader::Fmt(f) => *f,
            Loader::NQuadsNamed => Format::NQuads,
            Loader::RdfXmlFile => Format::RdfXml,
        }
    }
    fn is_xml(&self) -> bool {
        self.format() == Format::RdfXml
    }
}

#[derive(Clone, Copy, PartialEq, Eq, Debug, Hash)]
pub enum Prior {
    Empty,
    Disjoint,
    SharesTerm,
    SameTriple,
    DictOnly,
    History,
    SameDocTwice,
}

pub const PRIORS: [Prior; 7] = [Prior::Empty, Prior::Disjoint, Prior::SharesTerm, Prior::SameTriple, Prior::DictOnly, Prior::History, Prior::SameDocTwice];
pub const SIMPLE_PRIORS: [Prior; 5] = [Prior::Empty, Prior::Disjoint, Prior::SharesTerm, Prior::SameTriple, Prior::DictOnly];

impl Prior {
    fn name(&self) -> String {
        format!("{:?}", self)
    }
    fn parse(s: &str) -> Option<Prior> {
        PRIORS.iter().copied().find(|k| k.name() == s)
    }
    /// built by earlier runs of real loaders (judged as observed)
    fn is_history(&self) -> bool {
        matches!(self, Prior::History | Prior::SameDocTwice)
    }
}

pub const POOLS: [usize; 4] = [1, 2, 4, 16];

fn layout_name(l: Layout) -> String {
    format!("{:?}", l)
}

fn layout_parse(s: &str) -> Option<Layout> {
    rl::LAYOUTS.iter().copied().find(|l| layout_name(*l) == s)
}

/// one abstract document of the enumeration
#[derive(Clone, Copy, PartialEq, Eq, Debug, Hash)]
pub struct Spec {
    pub n: usize,
    pub kind: Kind,
    pub pos: Option<usize>,
    pub layout: Layout,
}

fn iri(s: String) -> Term {
    Term::Iri(s)
}

pub fn filler(i: usize) -> Line {
    let o = if i % 2 == 0 { iri(format!("http://e/o{}", i % 7)) } else { Term::lit(&format!("v{}", i % 5)) };
    Line::Triple { s: iri(format!("http://e/s{}", i)), p: iri(format!("http://e/p{}", i % 3)), o, g: None, pname: false, link: Link::None }
}

fn filler_all_iri(i: usize) -> Line {
    Line::Triple { s: iri(format!("http://e/s{}", i)), p: iri(format!("http://e/p{}", i % 3)), o: iri(format!("http://e/o{}", i % 7)), g: None, pname: false, link: Link::None }
}

/// can a document of n lines carry `kind` at index p?
fn placeable(n: usize, kind: Kind, p: usize) -> bool {
    if p >= n {
        return false;
    }
    if kind == Kind::Duplicate && p == 0 {
        return false; // nothing earlier to duplicate: identical to the plain document
    }
    if kind.two_lines() && p + 1 >= n {
        return false;
    }
    true
}

/// the abstract document of `n` lines with the distinguished line of `kind` at index `pos`
pub fn build_doc(n: usize, kind: Kind, pos: Option<usize>) -> Vec<Line> {
    if kind == Kind::AllIri {
        return (0..n).map(filler_all_iri).collect();
    }
    let mut lines: Vec<Line> = (0..n).map(filler).collect();
    let Some(p) = pos else { return lines };
    if !placeable(n, kind, p) {
        return lines;
    }
    let subj = iri(format!("http://e/s{}", p));
    let p0 = iri("http://e/p0".to_string());
    let p1 = iri("http://e/p1".to_string());
    let t = |o: Term| Line::Triple { s: subj.clone(), p: p0.clone(), o, g: None, pname: false, link: Link::None };
    let linked = |p: &Term, o: Term, link: Link| Line::Triple { s: subj.clone(), p: p.clone(), o, g: None, pname: false, link };
    match kind {
        Kind::None | Kind::AllIri => {}
        Kind::Prefix => {
            lines[p] = Line::Prefix { name: "x".into(), iri: "http://e/".into() };
            for l in lines.iter_mut().skip(p + 1) {
                if let Line::Triple { pname, .. } = l {
                    *pname = true;
                }
            }
        }
        Kind::PrefixRebind => {
            // x: bound to http://e/ on line 0, used by every line up to p, RE-BOUND to http://f/ on
            // line p and used under the new binding by every later line (subjects move to http://f/)
            if p >= 1 {
                lines[0] = Line::Prefix { name: "x".into(), iri: "http://e/".into() };
            }
            lines[p] = Line::Prefix { name: "x".into(), iri: "http://f/".into() };
            for (i, l) in lines.iter_mut().enumerate().skip(1) {
                if let Line::Triple { pname, s, .. } = l {
                    *pname = true;
                    if i > p {
                        *s = iri(format!("http://f/s{}", i));
                    }
                }
            }
        }
        Kind::EarlyTerm => {
            lines[p] = t(iri("http://e/early".to_string()));
            if p >= 3 {
                lines[p - 3] = Line::Triple { s: iri(format!("http://e/s{}", p - 3)), p: iri("http://e/p1".to_string()), o: iri("http://e/early".to_string()), g: None, pname: false, link: Link::None };
            }
        }
        Kind::Duplicate => {
            if p >= 3 {
                lines[p] = lines[p - 3].clone();
            } else if p >= 1 {
                lines[p] = lines[0].clone();
            }
        }
        Kind::LangLit => lines[p] = t(Term::lang("v", "en")),
        Kind::DtLit => lines[p] = t(Term::typed("7", "http://e/dt")),
        Kind::EscLit => lines[p] = t(Term::lit("a\"b\\c\nd\te")),
        Kind::Quoted => {
            let inner = Term::quoted(iri("http://e/a".into()), iri("http://e/q".into()), Term::lit("v"));
            let nested = Term::quoted(Term::quoted(iri("http://e/a".into()), iri("http://e/q".into()), iri("http://e/b".into())), iri("http://e/q".into()), iri("http://e/c".into()));
            lines[p] = Line::Triple { s: inner, p: p0.clone(), o: nested, g: None, pname: false, link: Link::None };
        }
        Kind::Comment => lines[p] = Line::Comment(format!("comment at {}", p)),
        Kind::EmptyLine => lines[p] = Line::Empty,
        Kind::HashIri => lines[p] = t(iri("http://e/x#frag".to_string())),
        Kind::BlankSubj => lines[p] = Line::Triple { s: Term::Blank(format!("b{}", p)), p: p0.clone(), o: iri("http://e/o1".to_string()), g: None, pname: false, link: Link::None },
        Kind::StraddleSemi => {
            lines[p] = linked(&p0, iri("http://e/o1".to_string()), Link::OpenNl);
            lines[p + 1] = linked(&p1, Term::lit("v"), Link::ContNl);
        }
        Kind::InlineSemi => {
            lines[p] = linked(&p0, iri("http://e/o1".to_string()), Link::OpenSemi);
            lines[p + 1] = linked(&p1, Term::lit("w"), Link::Absorbed);
        }
        Kind::InlineComma => {
            lines[p] = linked(&p0, iri("http://e/o1".to_string()), Link::OpenComma);
            lines[p + 1] = linked(&p0, Term::lit("w"), Link::Absorbed);
        }
        Kind::SpaceLit => lines[p] = t(Term::lit("a  b . c ; d , e # f")),
        Kind::RdfsProp => {
            // the namespace is declared through a prefix line (root-element xmlns:rdfs in RDF/XML)
            if p >= 1 {
                lines[0] = Line::Prefix { name: "rdfs".into(), iri: RDFS_NS.into() };
            }
            let local = if p % 2 == 0 { "label" } else { "subClassOf" };
            lines[p] = Line::Triple { s: subj.clone(), p: iri(format!("{}{}", RDFS_NS, local)), o: Term::lit("lbl"), g: None, pname: true, link: Link::None };
        }
    }
    lines
}

/// the document as loaded by `loader` (the graph-column variant puts odd lines into <http://e/g1>)
fn doc_for(loader: Loader, lines: &[Line]) -> Vec<Line> {
    let mut v = lines.to_vec();
    if loader == Loader::NQuadsNamed {
        for (i, l) in v.iter_mut().enumerate() {
            if let Line::Triple { g, .. } = l {
                if i % 2 == 1 {
                    *g = Some("http://e/g1".to_string());
                }
            }
        }
    }
    v
}

/// distinguished positions of a document of n lines
pub fn positions(n: usize) -> Vec<usize> {
    if n <= 2 {
        return (0..n).collect();
    }
    let mut v = Vec::new();
    let mut b = CHUNK;
    while b <= n + 2 {
        for d in -2i64..=2 {
            let p = b as i64 + d;
            if p >= 0 && (p as usize) < n {
                v.push(p as usize);
            }
        }
        b += CHUNK;
    }
    v
}

pub fn sizes(thorough: bool) -> Vec<usize> {
    let mut v: Vec<usize> = vec![0, 1, 2];
    v.extend(998..=1003);
    v.extend(1998..=2002);
    v.push(3001);
    if thorough {
        v.push(2003);
        v.extend(2998..=3000);
        v.extend(3002..=3003);
        v.push(4001);
    }
    v.sort();
    v.dedup();
    v
}

/// sizes on which the quick tier runs the extra priors, the rdfs kinds, parse_rdf_from_file and the layouts
fn quick_focus_size(n: usize) -> bool {
    matches!(n, 1 | 2 | 1001)
}

/// all plain-layout documents in the global enumeration order
pub fn documents(thorough: bool) -> Vec<Spec> {
    let mut v = Vec::new();
    for n in sizes(thorough) {
        v.push(Spec { n, kind: Kind::None, pos: None, layout: Layout::Plain });
        if n >= 1 {
            v.push(Spec { n, kind: Kind::AllIri, pos: None, layout: Layout::Plain });
        }
        for p in positions(n) {
            for k in KINDS.iter().filter(|k| !k.positionless()) {
                if !placeable(n, *k, p) {
                    continue;
                }
                if !thorough && n > CHUNK + 3 && !quick_kind_for_large(*k, p) {
                    continue;
                }
                if !thorough && *k == Kind::RdfsProp && !quick_focus_size(n) {
                    continue;
                }
                v.push(Spec { n, kind: *k, pos: Some(p), layout: Layout::Plain });
            }
        }
    }
    v
}

/// the layout family: documents of 2 and 1001 lines (thorough: also 2001), every kind and position, every non-plain layout
pub fn layout_documents(thorough: bool) -> Vec<Spec> {
    let mut v = Vec::new();
    let mut ns = vec![2usize, 1001];
    if thorough {
        ns.push(2001);
    }
    for n in ns {
        for layout in rl::LAYOUTS.iter().copied().filter(|l| *l != Layout::Plain) {
            v.push(Spec { n, kind: Kind::None, pos: None, layout });
            for p in positions(n) {
                for k in KINDS.iter().filter(|k| !k.positionless()) {
                    if placeable(n, *k, p) {
                        v.push(Spec { n, kind: *k, pos: Some(p), layout });
                    }
                }
            }
        }
    }
    v
}

/// Quick tier, documents beyond the first boundary (n >= 1998): every offset of every boundary is kept, with
/// the chunk-sensitive kinds only — around the first boundary {Prefix, EarlyTerm, Duplicate, StraddleSemi} (all kinds are
/// run there by the documents of 999..1003 lines), around later boundaries also {Comment, EmptyLine}.
fn quick_kind_for_large(k: Kind, p: usize) -> bool {
    if p <= CHUNK + 2 {
        matches!(k, Kind::Prefix | Kind::PrefixRebind | Kind::EarlyTerm | Kind::Duplicate | Kind::StraddleSemi)
    } else {
        matches!(k, Kind::Prefix | Kind::PrefixRebind | Kind::EarlyTerm | Kind::Duplicate | Kind::StraddleSemi | Kind::Comment | Kind::EmptyLine)
    }
}

fn first_iri_triple(lines: &[Line]) -> Option<(String, String, String)> {
    lines.iter().find_map(|l| match l {
        Line::Triple { s: Term::Iri(s), p: Term::Iri(p), o: Term::Iri(o), .. } => Some((s.clone(), p.clone(), o.clone())),
        _ => None,
    })
}

/// prior content of the five simple priors: (triples, extra dictionary-only terms)
fn prior_content(prior: Prior, lines: &[Line]) -> (Vec<(String, String, String)>, Vec<String>) {
    let z = ("http://z/s".to_string(), "http://z/p".to_string(), "zlit".to_string());
    match prior {
        Prior::Empty | Prior::History | Prior::SameDocTwice => (vec![], vec![]),
        Prior::Disjoint => (vec![z], vec![]),
        Prior::SharesTerm => (vec![("http://z/s".into(), "http://e/p0".into(), "http://e/o0".into())], vec![]),
        Prior::SameTriple => (vec![first_iri_triple(lines).unwrap_or(z)], vec![]),
        Prior::DictOnly => (vec![], vec!["http://z/unused".into(), "http://e/p0".into(), "zz".into(), "http://e/s0".into()]),
    }
}

#[derive(Clone, Debug, PartialEq, Eq, Hash)]
pub struct Obs {
    quads: BTreeSet<LexQuad>,
    named: BTreeSet<String>,
    dict_error: Option<String>,
}

/// observation before and after the load under test
#[derive(Clone, Debug, PartialEq, Eq, Hash)]
pub struct Run {
    before_quads: BTreeSet<LexQuad>,
    before_named: BTreeSet<String>,
    prefixes_before: usize,
    quoted_before: usize,
    after: Obs,
}

fn dictionary_check(db: &SparqlDatabase, before: &HashMap<String, u32>) -> Option<String> {
    let d = db.dictionary.read().unwrap();
    if d.string_to_id.len() != d.id_to_string.len() {
        return Some(format!("string_to_id has {} entries, id_to_string has {}", d.string_to_id.len(), d.id_to_string.len()));
    }
    for (s, i) in d.string_to_id.iter() {
        if d.id_to_string.get(i) != Some(s) {
            return Some(format!("string_to_id[{:?}] = {} but id_to_string[{}] = {:?}", s, i, i, d.id_to_string.get(i)));
        }
        if *i >= d.next_id {
            return Some(format!("id {} of {:?} is not below next_id {}", i, s, d.next_id));
        }
    }
    for (i, s) in d.id_to_string.iter() {
        if d.string_to_id.get(s) != Some(i) {
            return Some(format!("id_to_string[{}] = {:?} but string_to_id[..] = {:?}", i, s, d.string_to_id.get(s)));
        }
    }
    for (s, i) in before {
        if d.string_to_id.get(s) != Some(i) {
            return Some(format!("prior term {:?} had id {}, now {:?}", s, i, d.string_to_id.get(s)));
        }
    }
    None
}

fn observe(db: &SparqlDatabase, before: &HashMap<String, u32>) -> Obs {
    let dec = |id: u32| db.decode_any(id).unwrap_or_else(|| format!("\u{0}<undecodable id {}>", id));
    let mut quads = BTreeSet::new();
    for q in db.dataset_index.all_quads() {
        let g = match q.graph {
            GraphId::Default => None,
            GraphId::Named(n) => Some(dec(n)),
        };
        quads.insert((dec(q.subject), dec(q.predicate), dec(q.object), g));
    }
    let named = db
        .dataset_index
        .named_graphs()
        .into_iter()
        .filter_map(|g| match g {
            GraphId::Named(n) => Some(dec(n)),
            GraphId::Default => None,
        })
        .collect();
    Obs { quads, named, dict_error: dictionary_check(db, before) }
}

pub struct Pools {
    pools: Vec<(usize, rayon::ThreadPool)>,
}

impl Pools {
    pub fn new(sizes: &[usize]) -> Pools {
        Pools { pools: sizes.iter().map(|n| (*n, rayon::ThreadPoolBuilder::new().num_threads(*n).build().unwrap())).collect() }
    }
    fn get(&self, n: usize) -> &rayon::ThreadPool {
        &self.pools.iter().find(|p| p.0 == n).expect("pool size").1
    }
}

static TMP_COUNTER: std::sync::atomic::AtomicU64 = std::sync::atomic::AtomicU64::new(0);

/// run the loader under test on `text`
fn load(db: &mut SparqlDatabase, loader: Loader, text: &str, pool: &rayon::ThreadPool) {
    if loader == Loader::RdfXmlFile {
        let k = TMP_COUNTER.fetch_add(1, std::sync::atomic::Ordering::Relaxed);
        let path = std::env::temp_dir().join(format!("vcheck-c13-{}-{}.rdf", std::process::id(), k));
        std::fs::write(&path, text).expect("write temporary RDF/XML file");
        let p = path.to_string_lossy().to_string();
        let r = std::panic::catch_unwind(std::panic::AssertUnwindSafe(|| pool.install(|| db.parse_rdf_from_file(&p))));
        let _ = std::fs::remove_file(&path);
        if let Err(e) = r {
            std::panic::resume_unwind(e);
        }
        return;
    }
    pool.install(|| match loader.format() {
        Format::NTriples => db.parse_ntriples_and_add(text),
        Format::NQuads => db.parse_nquads_and_add(text),
        Format::Turtle => db.parse_turtle(text),
        Format::N3 => db.parse_n3(text),
        Format::RdfXml => db.parse_rdf(text),
    });
}

/// One execution of the real loader from scratch. Err = panic of the subject.
fn execute(loader: Loader, text: &str, prior: Prior, lines: &[Line], pool: &rayon::ThreadPool) -> Result<Run, String> {
    let (triples, terms) = prior_content(prior, lines);
    guarded(|| {
        let mut db = SparqlDatabase::new();
        for (s, p, o) in &triples {
            db.add_triple_parts(s, p, o);
        }
        for t in &terms {
            db.dictionary.write().unwrap().encode(t);
        }
        match prior {
            Prior::History => {
                // an earlier Turtle load of ANOTHER document (leaves a prefix x: -> http://other/ and a quoted
                // triple behind), then an earlier N-Quads load into two named graphs
                db.parse_turtle("@prefix x: <http://other/> .\nx:hs x:hp << x:a x:q \"hv\" >> .\nx:hs x:hp \"hlit\" .\n");
                let (s, p, o) = first_iri_triple(lines).unwrap_or(("http://z/s".into(), "http://z/p".into(), "http://z/o".into()));
                db.parse_nquads_and_add(&format!("<{}> <{}> <{}> <http://e/g1> .\n<http://z/s> <http://z/p> \"zlit\" <http://e/g2> .\n", s, p, o));
            }
            Prior::SameDocTwice => load(&mut db, loader, text, pool),
            _ => {}
        }
        let before: HashMap<String, u32> = db.dictionary.read().unwrap().string_to_id.clone();
        let b = observe(&db, &before);
        let prefixes_before = db.prefixes.len();
        let quoted_before = db.quoted_triple_store.read().unwrap().id_to_components.len();
        load(&mut db, loader, text, pool);
        Run { before_quads: b.quads, before_named: b.named, prefixes_before, quoted_before, after: observe(&db, &before) }
    })
}

fn simple_prior_quads(prior: Prior, lines: &[Line]) -> BTreeSet<LexQuad> {
    prior_content(prior, lines).0.into_iter().map(|(s, p, o)| (s, p, o, None)).collect()
}

fn diff_detail(got: &BTreeSet<LexQuad>, exp: &BTreeSet<LexQuad>) -> String {
    let missing: Vec<&LexQuad> = exp.difference(got).take(3).collect();
    let extra: Vec<&LexQuad> = got.difference(exp).take(3).collect();
    format!(
        "store has {} quads, expected {}; {} missing, {} unexpected; first missing {:?}; first unexpected {:?}",
        got.len(),
        exp.len(),
        exp.difference(got).count(),
        got.difference(exp).count(),
        missing,
        extra
    )
}

/// structural tags of a case (never derived from the observed result)
fn tags(spec: Spec, prior: Prior, pool: usize, loader: Loader, lines: &[Line]) -> Vec<String> {
    let Spec { n, kind, pos, layout } = spec;
    let mut t = vec![format!("format={}", loader.name()), format!("prior={}", prior.name()), format!("pool={}", pool), format!("kind={}", kind.name())];
    t.push(if n > CHUNK { "lines>chunk".into() } else { "lines<=chunk".into() });
    if layout != Layout::Plain {
        t.push(format!("layout={}", layout_name(layout)));
    }
    if prior != Prior::Empty {
        t.push("prior_dict_nonempty".into());
    }
    if matches!(prior, Prior::Disjoint | Prior::SharesTerm | Prior::SameTriple | Prior::History | Prior::SameDocTwice) {
        t.push("prior_db_nonempty".into());
    }
    if prior.is_history() {
        t.push("prior_built_by_loaders".into());
    }
    let mut lit = false;
    let mut lang = false;
    let mut typed = false;
    let mut esc = false;
    let mut inner_ws = false;
    let mut hash = false;
    let mut quoted = false;
    let mut blank = false;
    let mut semi = false;
    let mut comma = false;
    let mut multi_line = false;
    let mut prefix_at: Option<usize> = None;
    let mut prefix_later_chunk = false;
    let mut straddles_chunk = false;
    fn walk(t: &Term, hash: &mut bool, quoted: &mut bool, blank: &mut bool) {
        match t {
            Term::Iri(i) => *hash |= i.contains('#'),
            Term::Blank(_) => *blank = true,
            Term::Lit { .. } => {}
            Term::Quoted(b) => {
                *quoted = true;
                walk(&b.0, hash, quoted, blank);
                walk(&b.1, hash, quoted, blank);
                walk(&b.2, hash, quoted, blank);
            }
        }
    }
    for (i, l) in lines.iter().enumerate() {
        match l {
            Line::Prefix { .. } => prefix_at = Some(i),
            Line::Triple { s, p, o, pname, link, .. } => {
                if let Term::Lit { value, lang: l, dt } = o {
                    lit = true;
                    lang |= l.is_some();
                    typed |= dt.is_some();
                    esc |= rl::escape(value) != *value;
                    inner_ws |= value.contains("  ") || value.contains(" . ") || value.contains(" ; ") || value.contains(" , ");
                }
                walk(s, &mut hash, &mut quoted, &mut blank);
                walk(p, &mut hash, &mut quoted, &mut blank);
                walk(o, &mut hash, &mut quoted, &mut blank);
                match link {
                    Link::OpenNl => {
                        semi = true;
                        multi_line = true;
                        if (i + 1) % CHUNK == 0 {
                            straddles_chunk = true;
                        }
                    }
                    Link::OpenSemi => semi = true,
                    Link::OpenComma => comma = true,
                    _ => {}
                }
                if let (true, Some(pa)) = (*pname, prefix_at) {
                    if i / CHUNK > pa / CHUNK {
                        prefix_later_chunk = true;
                    }
                }
            }
            _ => {}
        }
    }
    // punctuation and multi-line statements only exist in the Turtle / N3 renderings
    let punct = matches!(loader.format(), Format::Turtle | Format::N3);
    for (flag, name) in [
        (lit, "doc_has_literal_object"),
        (lang, "doc_has_lang_literal"),
        (typed, "doc_has_typed_literal"),
        (esc, "doc_has_escaped_literal"),
        (inner_ws, "doc_has_literal_with_inner_ws_or_punctuation"),
        (hash, "doc_has_hash_in_iri"),
        (quoted, "doc_has_quoted_triple"),
        (blank, "doc_has_blank_node"),
        (prefix_at.is_some(), "doc_declares_prefix"),
        (prefix_later_chunk, "prefix_used_in_later_chunk"),
        (semi && punct, "doc_has_predicate_list"),
        (comma && punct, "doc_has_object_list"),
        (multi_line && punct, "doc_has_multi_line_statement"),
        (straddles_chunk && punct, "statement_straddles_chunk_boundary"),
        ((semi || comma) && loader.is_xml(), "doc_has_multi_property_description"),
    ] {
        if flag {
            t.push(name.to_string());
        }
    }
    if let Some(p) = pos {
        t.push(format!("distinguished_in_chunk={}", p / CHUNK));
    }
    t
}

fn case_json(spec: Spec, prior: Prior, pool: usize, loader: Loader, cross: bool) -> Value {
    let mut v = json!({"n": spec.n, "kind": spec.kind.name(), "pos": spec.pos, "prior": prior.name(), "pool": pool, "format": loader.name()});
    if spec.layout != Layout::Plain {
        v["layout"] = json!(layout_name(spec.layout));
    }
    if cross {
        v["cross_with"] = json!("ntriples");
    }
    v
}

/// Result of one absolute evaluation (loader run + comparison): list of (symptom, detail)
fn judge(run: &Result<Run, String>, doc_quads: &BTreeSet<LexQuad>) -> Vec<(&'static str, String)> {
    let mut f = Vec::new();
    match run {
        Err(msg) => f.push(("panic", format!("loader panicked: {}", msg))),
        Ok(r) => {
            let exp_q: BTreeSet<LexQuad> = r.before_quads.union(doc_quads).cloned().collect();
            let mut exp_named = r.before_named.clone();
            exp_named.extend(doc_quads.iter().filter_map(|x| x.3.clone()));
            let o = &r.after;
            if o.quads != exp_q {
                f.push(("wrong_quads", diff_detail(&o.quads, &exp_q)));
            } else if o.named != exp_named {
                f.push(("wrong_named_graphs", format!("named graphs {:?}, expected {:?}", o.named, exp_named)));
            }
            if let Some(e) = &o.dict_error {
                f.push(("dictionary_not_bijective", e.clone()));
            }
        }
    }
    f
}

/// triage aid: with VCHECK_C13_DUMP=<path> every failing case is appended as one JSON line
fn dump_failure(case: &Value, symptom: &str, tags: &[String], detail: &str) {
    if let Ok(path) = std::env::var("VCHECK_C13_DUMP") {
        use std::io::Write;
        if let Ok(mut fh) = std::fs::OpenOptions::new().create(true).append(true).open(format!("{}.{}", path, std::process::id())) {
            let _ = writeln!(fh, "{}", json!({"case": case, "symptom": symptom, "tags": tags, "detail": detail}));
        }
    }
}

struct Rendered {
    loader: Loader,
    text: String,
    doc_quads: BTreeSet<LexQuad>,
}

/// render + reference-read one document for one loader; None = not expressible; Err = machinery
fn prepare(loader: Loader, lines: &[Line], layout: Layout) -> Result<Option<Rendered>, String> {
    let d = doc_for(loader, lines);
    let f = loader.format();
    if !rl::document_expressible(&d, f) {
        return Ok(None);
    }
    rl::links_well_formed(&d).map_err(|e| format!("generator built an ill-formed linked pair: {}", e))?;
    let text = rl::render_with(&d, f, layout);
    let from_text = rl::expected_from_text(&text, f).map_err(|e| format!("reference reader failed on generated {} text: {}", f.name(), e))?;
    let from_abstract = rl::expected_quads(&d, f);
    if from_text != from_abstract {
        return Err(format!("reference reader and generator disagree for {}: {}", f.name(), diff_detail(&from_text, &from_abstract)));
    }
    if f != Format::RdfXml {
        let nlines = text.lines().count();
        let ok = nlines == lines.len() || (layout == Layout::NoFinalNewline && nlines + 1 == lines.len());
        if !ok {
            return Err(format!("{} rendering has {} physical lines for {} abstract lines", f.name(), nlines, lines.len()));
        }
    }
    Ok(Some(Rendered { loader, text, doc_quads: from_text }))
}

fn nontrivial_case(spec: Spec, prior: Prior, doc_quads: &BTreeSet<LexQuad>) -> bool {
    doc_quads.len() >= 2 && (spec.n > CHUNK || prior != Prior::Empty || spec.kind != Kind::None || spec.layout != Layout::Plain)
}

/// which pool sizes a loader is run under. Thorough: all four (two for the sequential loaders beyond the first boundary). Quick: all four for the
/// two loaders that run rayon tasks on the installed pool (parse_ntriples, parse_n3) up to the first chunk
/// boundary and {1,4} beyond it (and in the layout family); one size for the loaders that (by reading) never touch the installed pool
/// (parse_turtle, parse_nquads_and_add, parse_rdf_from_file: sequential; parse_rdf: own threads + global pool).
fn pool_sizes_for(thorough: bool, spec: Spec, loader: Loader) -> Vec<usize> {
    let uses_installed_pool = matches!(loader, Loader::Fmt(Format::NTriples) | Loader::Fmt(Format::N3));
    if spec.layout != Layout::Plain {
        return if uses_installed_pool { vec![1, 4] } else { vec![2] };
    }
    let n = spec.n;
    if thorough {
        // full product, except that the loaders which never touch the installed pool get two of the four
        // sizes on the multi-chunk documents
        return if uses_installed_pool || n <= CHUNK + 3 { POOLS.to_vec() } else { vec![2, 16] };
    }
    if uses_installed_pool {
        if n <= CHUNK + 3 {
            POOLS.to_vec()
        } else {
            vec![1, 4]
        }
    } else {
        vec![2]
    }
}

/// prior contents: the five simple ones up to the first chunk boundary (+ HISTORY and TWICE on the focus sizes; everything everywhere in thorough); two beyond it in quick
fn priors_for(thorough: bool, spec: Spec) -> Vec<Prior> {
    if spec.layout != Layout::Plain {
        return if thorough { vec![Prior::Empty, Prior::History] } else { vec![Prior::Empty] };
    }
    if thorough {
        return PRIORS.to_vec();
    }
    if spec.n <= CHUNK + 3 {
        if quick_focus_size(spec.n) {
            PRIORS.to_vec()
        } else {
            SIMPLE_PRIORS.to_vec()
        }
    } else {
        vec![Prior::Empty, Prior::SameTriple]
    }
}

fn loaders_for(thorough: bool, spec: Spec) -> Vec<Loader> {
    if spec.layout != Layout::Plain {
        // RDF/XML is always written plain
        return LOADERS.iter().copied().filter(|l| !l.is_xml()).collect();
    }
    if thorough || spec.n == 0 || quick_focus_size(spec.n) {
        LOADERS.to_vec()
    } else {
        LOADERS.iter().copied().filter(|l| *l != Loader::RdfXmlFile).collect()
    }
}

/// mid-chunk control of a failing positional case: the same kind at index CONTROL_POS of a document of the same size.
/// Some(true) = control satisfies the absolute clause, Some(false) = it fails too, None = no control exists
fn mid_chunk_control(spec: Spec, loader: Loader, prior: Prior, pool: &rayon::ThreadPool) -> Option<bool> {
    let p = spec.pos?;
    if p == CONTROL_POS || p == CONTROL_POS + 1 || !placeable(spec.n, spec.kind, CONTROL_POS) || CONTROL_POS + 3 >= spec.n {
        return None;
    }
    let lines = build_doc(spec.n, spec.kind, Some(CONTROL_POS));
    let r = prepare(loader, &lines, spec.layout).ok()??;
    let run = execute(loader, &r.text, prior, &lines, pool);
    Some(judge(&run, &r.doc_quads).is_empty())
}

/// evaluate loaders x priors x pools for one abstract document
fn run_document(ctx: &Ctx, out: &mut ShardOut, pools: &Pools, spec: Spec, loaders: &[Loader], priors: &[Prior], pool_sizes: &dyn Fn(Loader) -> Vec<usize>) {
    let lines = build_doc(spec.n, spec.kind, spec.pos);
    let mut rendered = Vec::new();
    for l in loaders {
        match prepare(*l, &lines, spec.layout) {
            Ok(Some(r)) => rendered.push(r),
            Ok(None) => out.count(&format!("skipped_inexpressible.{}", l.name()), 1),
            Err(e) => {
                out.machinery_errors.push(format!("{:?}: {}", spec, e));
                return;
            }
        }
    }
    // vacuity counters: what this document crosses
    if let Some(p) = spec.pos {
        if spec.kind == Kind::StraddleSemi && (p + 1) % CHUNK == 0 {
            out.count("documents_with_statement_straddling_a_chunk_boundary", 1);
        }
    }
    for &prior in priors {
        // (loader, pool, observation) of every load that satisfied the absolute clause
        let mut passed: Vec<(Loader, usize, Obs)> = Vec::new();
        for r in &rendered {
            for pool in pool_sizes(r.loader) {
                let case = case_json(spec, prior, pool, r.loader, false);
                if let Some(p) = &ctx.progress {
                    p.mark(&case.to_string());
                }
                let run = execute(r.loader, &r.text, prior, &lines, pools.get(pool));
                out.evaluations += 1;
                out.count(&format!("loads.{}", r.loader.name()), 1);
                out.count(&format!("loads_by_kind.{}", spec.kind.name()), 1);
                if prior.is_history() {
                    out.count(&format!("loads_by_prior.{}", prior.name()), 1);
                }
                if spec.layout != Layout::Plain {
                    out.count(&format!("loads_by_layout.{}", layout_name(spec.layout)), 1);
                }
                if nontrivial_case(spec, prior, &r.doc_quads) {
                    out.nontrivial(&(spec, prior, pool, r.loader));
                }
                if let Ok(x) = &run {
                    out.outcome(&x.after.quads);
                    out.max("max_quads_in_store", x.after.quads.len() as u64);
                    if x.prefixes_before > 0 {
                        out.count("loads_into_db_with_declared_prefixes", 1);
                    }
                    if x.quoted_before > 0 {
                        out.count("loads_into_db_with_quoted_triples", 1);
                    }
                    if !x.before_named.is_empty() {
                        out.count("loads_into_db_with_named_graphs", 1);
                    }
                    if r.loader.is_xml() && r.doc_quads.len() > 8192 {
                        out.count("rdfxml_loads_crossing_the_8192_batch", 1);
                    }
                    if !prior.is_history() && x.before_quads != simple_prior_quads(prior, &lines) {
                        out.machinery_errors.push(format!("{}: constructed prior is not what the store shows before the load: {:?}", case, x.before_quads));
                        continue;
                    }
                }
                let fails = judge(&run, &r.doc_quads);
                if fails.is_empty() {
                    if let Ok(x) = run {
                        passed.push((r.loader, pool, x.after));
                    }
                    if out.samples.len() < 4 && spec.n >= 2 && spec.kind != Kind::None && prior != Prior::Empty {
                        out.sample(json!({"case": case, "first_lines": r.text.lines().take(3).collect::<Vec<_>>(), "document_quads": r.doc_quads.len()}));
                    }
                    continue;
                }
                // determinism: re-execute from scratch before recording
                let run2 = execute(r.loader, &r.text, prior, &lines, pools.get(pool));
                let mut tg = tags(spec, prior, pool, r.loader, &lines);
                if run2 != run {
                    // thread schedules are part of C13's quantifier: run-to-run variation of the loader on a
                    // fixed text and fixed prior content is itself a violation, recorded with its own tag
                    tg.push("rerun_differs".into());
                    out.count("rerun_differs", 1);
                }
                match mid_chunk_control(spec, r.loader, prior, pools.get(pool)) {
                    Some(true) => {
                        tg.push("mid_chunk_control=pass".into());
                        out.count("failing_with_passing_mid_chunk_control", 1);
                    }
                    Some(false) => tg.push("mid_chunk_control=fail".into()),
                    None => {}
                }
                for (symptom, detail) in fails {
                    out.count(&format!("failing.{}.{}", r.loader.name(), symptom), 1);
                    dump_failure(&case, symptom, &tg, &detail);
                    out.fail(case.clone(), symptom, detail, tg.clone());
                }
            }
        }
        // cross-format clause: every load that satisfied the absolute clause must show the same quads as
        // N-Triples (same abstract list, same prior content)
        let Some((_, nt_pool, nt)) = passed.iter().find(|(l, _, _)| *l == Loader::Fmt(Format::NTriples)).cloned() else {
            if !rendered.is_empty() {
                out.count("cross_format_skipped_no_ntriples_baseline", 1);
            }
            continue;
        };
        for (l, pool, o) in &passed {
            if matches!(l, Loader::NQuadsNamed | Loader::Fmt(Format::NTriples)) {
                continue;
            }
            out.count("cross_format_comparisons", 1);
            if *l == Loader::Fmt(Format::N3) && !lines.iter().any(|x| matches!(x, Line::Triple { o: Term::Lit { .. }, .. })) {
                out.count("cross_format_comparisons_n3_without_literal", 1);
            }
            if o.quads != nt.quads {
                let r = rendered.iter().find(|r| r.loader == *l).unwrap();
                let ntr = rendered.iter().find(|r| r.loader == Loader::Fmt(Format::NTriples)).unwrap();
                let again = execute(*l, &r.text, prior, &lines, pools.get(*pool));
                let again_nt = execute(Loader::Fmt(Format::NTriples), &ntr.text, prior, &lines, pools.get(nt_pool));
                let mut tg = tags(spec, prior, *pool, *l, &lines);
                if again.as_ref().ok().map(|x| &x.after) != Some(o) || again_nt.as_ref().ok().map(|x| &x.after) != Some(&nt) {
                    tg.push("rerun_differs".into());
                    out.count("rerun_differs", 1);
                }
                out.count(&format!("failing.{}.cross_format_differs", l.name()), 1);
                let detail = format!("same abstract triples, {} vs ntriples: {}", l.name(), diff_detail(&o.quads, &nt.quads));
                let case = case_json(spec, prior, *pool, *l, true);
                dump_failure(&case, "cross_format_differs", &tg, &detail);
                out.fail(case, "cross_format_differs", detail, tg);
            }
        }
    }
}

/// triage aid: VCHECK_C13_KINDS=Kind1,Kind2 restricts the enumeration to those kinds (the run is then reported as capped)
fn kind_filter() -> Option<Vec<Kind>> {
    let v = std::env::var("VCHECK_C13_KINDS").ok()?;
    Some(v.split(',').filter_map(|s| Kind::parse(s.trim())).collect())
}

fn run(ctx: &Ctx) -> ShardOut {
    let mut out = ShardOut::default();
    let pools = Pools::new(&POOLS);
    let thorough = ctx.thorough();
    let filter = kind_filter();
    if let Some(f) = &filter {
        out.capped.push(format!("triage run: enumeration restricted to kinds {:?} by VCHECK_C13_KINDS", f));
    }
    let keep = |s: &Spec| filter.as_ref().map_or(true, |f| f.contains(&s.kind));
    let mut idx = 0u64;

    // part 1: RDF/XML batch boundary (8192 triples per batch shipped to the worker threads). First, because
    // these are the longest single cases: the work is spread before the per-shard tails begin.
    let mut xdocs: Vec<Spec> = Vec::new();
    let plain = |n: usize, kind: Kind, pos: Option<usize>| Spec { n, kind, pos, layout: Layout::Plain };
    if thorough {
        for n in 8190..=8194usize {
            xdocs.push(plain(n, Kind::None, None));
            for kind in [Kind::Duplicate, Kind::Comment, Kind::HashIri, Kind::StraddleSemi] {
                for pos in 8190..=8193usize {
                    if placeable(n, kind, pos) {
                        xdocs.push(plain(n, kind, Some(pos)));
                    }
                }
            }
        }
        xdocs.push(plain(16385, Kind::None, None));
    } else {
        xdocs.push(plain(8193, Kind::None, None));
        xdocs.push(plain(8193, Kind::Duplicate, Some(8192)));
    }
    let xml_loaders = [Loader::Fmt(Format::NTriples), Loader::Fmt(Format::RdfXml), Loader::RdfXmlFile];
    let xml_priors: Vec<Prior> = if thorough { SIMPLE_PRIORS.to_vec() } else { vec![Prior::Empty, Prior::SameTriple] };
    for spec in xdocs.iter().filter(|s| keep(s)) {
        idx += 1;
        if !ctx.mine(idx) {
            continue;
        }
        if ctx.expired() {
            out.capped.push("wall-clock cap during the RDF/XML 8192 boundary part".into());
            return out;
        }
        run_document(ctx, &mut out, &pools, *spec, &xml_loaders, &xml_priors, &|_| vec![2]);
        out.count("rdfxml_8192_boundary_documents", 1);
    }

    // part 2: the boundary documents, plain layout; part 3: the layout family
    let docs = documents(thorough);
    let ldocs = layout_documents(thorough);
    out.count("documents_in_enumeration", if ctx.shard == 0 { (docs.len() + ldocs.len() + xdocs.len()) as u64 } else { 0 });
    let mut done = 0u64;
    // Execution order: the groups (document size class; layout family) advance PROPORTIONALLY, so that a
    // wall-clock cap on a loaded machine thins every group evenly instead of cutting the documents
    // around the last chunk boundaries and the whole layout family. Which shard owns which document is
    // unchanged (position in the enumeration).
    let specs: Vec<_> = docs.iter().chain(ldocs.iter()).filter(|s| keep(s)).collect();
    let group_of = |s: &&Spec| -> (bool, usize) { (s.layout != Layout::Plain, s.n / 500) };
    let mut gsize: std::collections::HashMap<(bool, usize), u64> = std::collections::HashMap::new();
    for s in &specs {
        *gsize.entry(group_of(s)).or_insert(0) += 1;
    }
    let mut gseen: std::collections::HashMap<(bool, usize), u64> = std::collections::HashMap::new();
    let mut order: Vec<(u64, u64, &Spec)> = Vec::new();
    for (k, s) in specs.iter().enumerate() {
        let g = group_of(s);
        let seen = gseen.entry(g).or_insert(0);
        order.push(((*seen * 1_000_000) / gsize[&g], idx + 1 + k as u64, *s));
        *seen += 1;
    }
    idx += specs.len() as u64;
    order.sort_by_key(|(frac, pos, _)| (*frac, *pos));
    for (_, pos, spec) in order {
        if !ctx.mine(pos) {
            continue;
        }
        if ctx.expired() {
            out.capped.push(format!("wall-clock cap: shard {} completed {} of its documents (after the RDF/XML batch documents the size classes and the layout family advance proportionally: every group was thinned evenly)", ctx.shard, done));
            break;
        }
        let spec = *spec;
        run_document(ctx, &mut out, &pools, spec, &loaders_for(thorough, spec), &priors_for(thorough, spec), &|l| pool_sizes_for(thorough, spec, l));
        if spec.layout != Layout::Plain {
            out.count("layout_family_documents", 1);
        }
        done += 1;
    }
    out
}

fn replay(_ctx: &Ctx, case: &Value) -> ShardOut {
    let mut out = ShardOut::default();
    let parsed = (|| {
        let n = case["n"].as_u64()? as usize;
        let kind = Kind::parse(case["kind"].as_str()?)?;
        let pos = case["pos"].as_u64().map(|p| p as usize);
        let prior = Prior::parse(case["prior"].as_str()?)?;
        let pool = case["pool"].as_u64()? as usize;
        let loader = Loader::parse(case["format"].as_str()?)?;
        let layout = match case.get("layout").and_then(|v| v.as_str()) {
            Some(s) => layout_parse(s)?,
            None => Layout::Plain,
        };
        Some((Spec { n, kind, pos, layout }, prior, pool, loader))
    })();
    let Some((spec, prior, pool, loader)) = parsed else {
        out.machinery_errors.push(format!("unreadable C13 case {}", case));
        return out;
    };
    let pools = Pools::new(&[pool]);
    let cross = case.get("cross_with").is_some();
    let loaders: Vec<Loader> = if cross { vec![Loader::Fmt(Format::NTriples), loader] } else { vec![loader] };
    run_document(&Ctx::for_replay(crate::infra::Tier::Quick), &mut out, &pools, spec, &loaders, &[prior], &|_| vec![pool]);
    // keep only what the recorded case is about
    out.failure_sigs.retain(|_, (_, f)| f.case["format"] == case["format"]);
    out
}
