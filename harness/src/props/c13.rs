//! C13 — loading a document adds exactly its triples, whatever its size, the prior content of the
//! database and its dictionary, and the number of threads; the same triples written in different
//! formats load identically.
//! E-in over boundary positions: one abstract document (reference/loader.rs) is rendered to every
//! format, loaded by the real loaders under every prior content x rayon pool size, and the lexical
//! quads in the store are compared with prior ∪ triples(document) as read back by the reference reader.
use crate::infra::{guarded, Ctx, PropDef, ShardOut};
use crate::reference::loader::{self as rl, Format, LexQuad, Line, Term};
use kolibrie::sparql_database::SparqlDatabase;
use serde_json::{json, Value};
use shared::dataset_index::GraphId;
use std::collections::{BTreeSet, HashMap};

pub const DEF: PropDef = PropDef {
    id: "C13",
    level: "exploration",
    rule: "documents = one abstract line list (filler line i: <http://e/s{i}> <http://e/p{i%3}> (<http://e/o{i%7}> | \"v{i%5}\") .) of n lines, n in {0,1,2} ∪ {998..1003} ∪ {1998..2002} ∪ {3001} (loader chunk size 1000, read from parse_ntriples/parse_n3; thorough adds 2003, 2998..3003, 4001, and 8190..8194 for RDF/XML whose batch size is 8192 triples), with ONE distinguished line of each kind {none, @prefix used only by later lines, @prefix RE-BINDING (x: bound on line 0 and used by every line before the distinguished line, which binds x: to another namespace used by every later line), term first seen 3 lines earlier (= previous chunk at offsets 0..+2), duplicate of the triple 3 lines earlier, lang-tagged literal, datatyped literal, literal with escapes, quoted triples (literal inside; nested), comment, blank line, IRI containing #, blank-node subject} placed at EVERY line index b-2..b+2 around EVERY chunk boundary b in {1000,2000,3000,..} that exists in the document (every index for n<=2); each abstract document is rendered to N-Triples, N-Quads, N-Quads with a graph column, Turtle, N3, RDF/XML (a format takes part iff every line is expressible in the subset its loader supports; skips are counted) x prior content {empty, one triple sharing no term, one triple sharing predicate+object, the document's first triple, non-empty dictionary without triples} x rayon pool size {1,2,4,16} (ThreadPool::install around the loader). QUICK tier reductions (thorough runs the full product, except pool sizes {2,16} instead of all four for the loaders that never touch the installed pool on documents of more than 1003 lines): documents up to the first boundary (n <= 1003) run all kinds, all five priors, all four pool sizes for the two loaders that run rayon tasks on the installed pool (parse_ntriples, parse_n3) and one pool size for the others (parse_turtle and parse_nquads_and_add are sequential, parse_rdf uses its own threads); documents beyond it (n >= 1998) keep every offset of every boundary with the chunk-sensitive kinds {@prefix, @prefix re-binding, earlier term, duplicate} (+ {comment, blank line} at later boundaries), priors {empty, first triple}, pool sizes {1,4}. Oracle per load: (a) lexical quads (decode_any over all_quads) and named graphs after the load = prior ∪ quads the reference reader finds in the text; (b) dictionary still a bijection, next_id above every id, prior ids unchanged; (c) every load that satisfied (a) shows the same quads as the N-Triples load of the same abstract list. non-trivial = the document has >= 2 triples and (spans > 1 chunk or prior dictionary non-empty or has a distinguished line); distinct = distinct (n, kind, position, prior, pool, format). Interleavings INSIDE the rayon pool are not enumerable (work stealing is not interceptable); pool sizes are. Verified by reading: parse_ntriples chunk tasks are pure functions of their lines (they only call the &self tokenisers parse_ntriples_parts/clean_ntriples_term, no dictionary access), collect() keeps chunk order and encode_triples encodes sequentially; parse_n3 chunk tasks each own a private SparqlDatabase and are merged sequentially (by id - the defect found); parse_turtle and parse_nquads_and_add never use rayon; parse_rdf encodes sequentially while reading and only ships batches of 8192 encoded triples to crossbeam threads whose results are inserted sequentially.",
    assumptions: &[
        "reference model: harness/src/reference/loader.rs (generator + independent reader, self-tested on hand-written documents); expected quads are computed from the rendered TEXT by the reference reader and cross-checked against the abstract list",
        "lexical forms: IRI bare, blank node _:label, plain literal = decoded value, \"v\"^^<dt> -> v, \"v\"@en -> v@en (the forms N-Triples/N-Quads loaders implement); N3 is checked against the literal token form parse_n3 documents (quotes, raw escapes, @lang, ^^datatype) and the resulting difference to all other formats is reported by the cross-format clause",
        "RDF/XML subset = rdf:Description/@rdf:about + property elements with text or rdf:resource (no blank nodes, xml:lang, rdf:datatype, quoted triples); N3 subset has no quoted triples; documents outside a format's subset skip that format (counted)",
        "thread schedules inside rayon's pool are not enumerated (not interceptable); pool sizes 1,2,4,16 are; parse_rdf uses its own crossbeam threads + the global rayon pool (RAYON_NUM_THREADS=2), so the pool size does not reach it",
        "escape literal of the distinguished line keeps its special characters in the middle: literal CONTENT is C14's quantifier, not C13's",
    ],
    run,
    replay,
    cap_s: (50, 1800),
    shards: 0,
};

pub const CHUNK: usize = 1000;

#[derive(Clone, Copy, PartialEq, Eq, Debug, Hash)]
pub enum Kind {
    None,
    Prefix,
    PrefixRebind,
    EarlyTerm,
    Duplicate,
    LangLit,
    DtLit,
    EscLit,
    Quoted,
    Comment,
    EmptyLine,
    HashIri,
    BlankSubj,
}

pub const KINDS: [Kind; 13] = [
    Kind::None,
    Kind::Prefix,
    Kind::PrefixRebind,
    Kind::EarlyTerm,
    Kind::Duplicate,
    Kind::LangLit,
    Kind::DtLit,
    Kind::EscLit,
    Kind::Quoted,
    Kind::Comment,
    Kind::EmptyLine,
    Kind::HashIri,
    Kind::BlankSubj,
];

impl Kind {
    fn name(&self) -> String {
        format!("{:?}", self)
    }
    fn parse(s: &str) -> Option<Kind> {
        KINDS.iter().copied().find(|k| k.name() == s)
    }
}

#[derive(Clone, Copy, PartialEq, Eq, Debug, Hash)]
pub enum Loader {
    Fmt(Format),
    /// N-Quads with a graph column on every odd line (not part of the cross-format comparison)
    NQuadsNamed,
}

pub const LOADERS: [Loader; 6] = [
    Loader::Fmt(Format::NTriples),
    Loader::Fmt(Format::NQuads),
    Loader::Fmt(Format::Turtle),
    Loader::Fmt(Format::N3),
    Loader::Fmt(Format::RdfXml),
    Loader::NQuadsNamed,
];

impl Loader {
    fn name(&self) -> &'static str {
        match self {
            Loader::Fmt(f) => f.name(),
            Loader::NQuadsNamed => "nquads_named",
        }
    }
    fn parse(s: &str) -> Option<Loader> {
        LOADERS.iter().copied().find(|l| l.name() == s)
    }
    fn format(&self) -> Format {
        match self {
            Loader::Fmt(f) => *f,
            Loader::NQuadsNamed => Format::NQuads,
        }
    }
}

#[derive(Clone, Copy, PartialEq, Eq, Debug, Hash)]
pub enum Prior {
    Empty,
    Disjoint,
    SharesTerm,
    SameTriple,
    DictOnly,
}

pub const PRIORS: [Prior; 5] = [Prior::Empty, Prior::Disjoint, Prior::SharesTerm, Prior::SameTriple, Prior::DictOnly];

impl Prior {
    fn name(&self) -> String {
        format!("{:?}", self)
    }
    fn parse(s: &str) -> Option<Prior> {
        PRIORS.iter().copied().find(|k| k.name() == s)
    }
}

pub const POOLS: [usize; 4] = [1, 2, 4, 16];

fn iri(s: String) -> Term {
    Term::Iri(s)
}

pub fn filler(i: usize) -> Line {
    let o = if i % 2 == 0 { iri(format!("http://e/o{}", i % 7)) } else { Term::lit(&format!("v{}", i % 5)) };
    Line::Triple { s: iri(format!("http://e/s{}", i)), p: iri(format!("http://e/p{}", i % 3)), o, g: None, pname: false }
}

/// the abstract document of `n` lines with the distinguished line of `kind` at index `pos`
pub fn build_doc(n: usize, kind: Kind, pos: Option<usize>) -> Vec<Line> {
    let mut lines: Vec<Line> = (0..n).map(filler).collect();
    let Some(p) = pos else { return lines };
    if p >= n {
        return lines;
    }
    let subj = iri(format!("http://e/s{}", p));
    let p0 = iri("http://e/p0".to_string());
    let t = |o: Term| Line::Triple { s: subj.clone(), p: p0.clone(), o, g: None, pname: false };
    match kind {
        Kind::None => {}
        Kind::Prefix => {
            lines[p] = Line::Prefix { name: "x".into(), iri: "http://e/".into() };
            for l in lines.iter_mut().skip(p + 1) {
                if let Line::Triple { pname, .. } = l {
                    *pname = true;
                }
            }
        }
        Kind::PrefixRebind => {
            // x: bound to http://e/ on line 0, used by every line up to p, RE-BOUND to http://f/ on
            // line p and used under the new binding by every later line (subjects move to http://f/)
            if p >= 1 {
                lines[0] = Line::Prefix { name: "x".into(), iri: "http://e/".into() };
            }
            lines[p] = Line::Prefix { name: "x".into(), iri: "http://f/".into() };
            for (i, l) in lines.iter_mut().enumerate().skip(1) {
                if let Line::Triple { pname, s, .. } = l {
                    *pname = true;
                    if i > p {
                        *s = iri(format!("http://f/s{}", i));
                    }
                }
            }
        }
        Kind::EarlyTerm => {
            lines[p] = t(iri("http://e/early".to_string()));
            if p >= 3 {
                lines[p - 3] = Line::Triple { s: iri(format!("http://e/s{}", p - 3)), p: iri("http://e/p1".to_string()), o: iri("http://e/early".to_string()), g: None, pname: false };
            }
        }
        Kind::Duplicate => {
            if p >= 3 {
                lines[p] = lines[p - 3].clone();
            } else if p >= 1 {
                lines[p] = lines[0].clone();
            }
        }
        Kind::LangLit => lines[p] = t(Term::lang("v", "en")),
        Kind::DtLit => lines[p] = t(Term::typed("7", "http://e/dt")),
        Kind::EscLit => lines[p] = t(Term::lit("a\"b\\c\nd\te")),
        Kind::Quoted => {
            let inner = Term::quoted(iri("http://e/a".into()), iri("http://e/q".into()), Term::lit("v"));
            let nested = Term::quoted(Term::quoted(iri("http://e/a".into()), iri("http://e/q".into()), iri("http://e/b".into())), iri("http://e/q".into()), iri("http://e/c".into()));
            lines[p] = Line::Triple { s: inner, p: p0.clone(), o: nested, g: None, pname: false };
        }
        Kind::Comment => lines[p] = Line::Comment(format!("comment at {}", p)),
        Kind::EmptyLine => lines[p] = Line::Empty,
        Kind::HashIri => lines[p] = t(iri("http://e/x#frag".to_string())),
        Kind::BlankSubj => lines[p] = Line::Triple { s: Term::Blank(format!("b{}", p)), p: p0.clone(), o: iri("http://e/o1".to_string()), g: None, pname: false },
    }
    lines
}

/// the document as loaded by `loader` (the graph-column variant puts odd lines into <http://e/g1>)
fn doc_for(loader: Loader, lines: &[Line]) -> Vec<Line> {
    let mut v = lines.to_vec();
    if loader == Loader::NQuadsNamed {
        for (i, l) in v.iter_mut().enumerate() {
            if let Line::Triple { g, .. } = l {
                if i % 2 == 1 {
                    *g = Some("http://e/g1".to_string());
                }
            }
        }
    }
    v
}

/// distinguished positions of a document of n lines
pub fn positions(n: usize) -> Vec<usize> {
    if n <= 2 {
        return (0..n).collect();
    }
    let mut v = Vec::new();
    let mut b = CHUNK;
    while b <= n + 2 {
        for d in -2i64..=2 {
            let p = b as i64 + d;
            if p >= 0 && (p as usize) < n {
                v.push(p as usize);
            }
        }
        b += CHUNK;
    }
    v
}

pub fn sizes(thorough: bool) -> Vec<usize> {
    let mut v: Vec<usize> = vec![0, 1, 2];
    v.extend(998..=1003);
    v.extend(1998..=2002);
    v.push(3001);
    if thorough {
        v.push(2003);
        v.extend(2998..=3000);
        v.extend(3002..=3003);
        v.push(4001);
    }
    v.sort();
    v.dedup();
    v
}

/// all (n, kind, pos) documents in the global enumeration order
pub fn documents(thorough: bool) -> Vec<(usize, Kind, Option<usize>)> {
    let mut v = Vec::new();
    for n in sizes(thorough) {
        v.push((n, Kind::None, None));
        for p in positions(n) {
            for k in KINDS.iter().skip(1) {
                if *k == Kind::Duplicate && p == 0 {
                    continue; // nothing earlier to duplicate: identical to the plain document
                }
                if !thorough && n > CHUNK + 3 && !quick_kind_for_large(*k, p) {
                    continue;
                }
                v.push((n, *k, Some(p)));
            }
        }
    }
    v
}

/// Quick tier, documents beyond the first boundary (n >= 1998): every offset of every boundary is kept, with
/// the chunk-sensitive kinds only — around the first boundary {Prefix, EarlyTerm, Duplicate} (all 11 kinds are
/// run there by the documents of 999..1002 lines), around later boundaries also {Comment, EmptyLine}.
fn quick_kind_for_large(k: Kind, p: usize) -> bool {
    if p <= CHUNK + 2 {
        matches!(k, Kind::Prefix | Kind::PrefixRebind | Kind::EarlyTerm | Kind::Duplicate)
    } else {
        matches!(k, Kind::Prefix | Kind::PrefixRebind | Kind::EarlyTerm | Kind::Duplicate | Kind::Comment | Kind::EmptyLine)
    }
}

fn first_iri_triple(lines: &[Line]) -> Option<(String, String, String)> {
    lines.iter().find_map(|l| match l {
        Line::Triple { s: Term::Iri(s), p: Term::Iri(p), o: Term::Iri(o), .. } => Some((s.clone(), p.clone(), o.clone())),
        _ => None,
    })
}

/// prior content: (triples, extra dictionary-only terms)
fn prior_content(prior: Prior, lines: &[Line]) -> (Vec<(String, String, String)>, Vec<String>) {
    let z = ("http://z/s".to_string(), "http://z/p".to_string(), "zlit".to_string());
    match prior {
        Prior::Empty => (vec![], vec![]),
        Prior::Disjoint => (vec![z], vec![]),
        Prior::SharesTerm => (vec![("http://z/s".into(), "http://e/p0".into(), "http://e/o0".into())], vec![]),
        Prior::SameTriple => (vec![first_iri_triple(lines).unwrap_or(z)], vec![]),
        Prior::DictOnly => (vec![], vec!["http://z/unused".into(), "http://e/p0".into(), "zz".into(), "http://e/s0".into()]),
    }
}

#[derive(Clone, Debug, PartialEq, Eq, Hash)]
pub struct Obs {
    quads: BTreeSet<LexQuad>,
    named: BTreeSet<String>,
    dict_error: Option<String>,
}

fn dictionary_check(db: &SparqlDatabase, before: &HashMap<String, u32>) -> Option<String> {
    let d = db.dictionary.read().unwrap();
    if d.string_to_id.len() != d.id_to_string.len() {
        return Some(format!("string_to_id has {} entries, id_to_string has {}", d.string_to_id.len(), d.id_to_string.len()));
    }
    for (s, i) in d.string_to_id.iter() {
        if d.id_to_string.get(i) != Some(s) {
            return Some(format!("string_to_id[{:?}] = {} but id_to_string[{}] = {:?}", s, i, i, d.id_to_string.get(i)));
        }
        if *i >= d.next_id {
            return Some(format!("id {} of {:?} is not below next_id {}", i, s, d.next_id));
        }
    }
    for (i, s) in d.id_to_string.iter() {
        if d.string_to_id.get(s) != Some(i) {
            return Some(format!("id_to_string[{}] = {:?} but string_to_id[..] = {:?}", i, s, d.string_to_id.get(s)));
        }
    }
    for (s, i) in before {
        if d.string_to_id.get(s) != Some(i) {
            return Some(format!("prior term {:?} had id {}, now {:?}", s, i, d.string_to_id.get(s)));
        }
    }
    None
}

fn observe(db: &SparqlDatabase, before: &HashMap<String, u32>) -> Obs {
    let dec = |id: u32| db.decode_any(id).unwrap_or_else(|| format!("\u{0}<undecodable id {}>", id));
    let mut quads = BTreeSet::new();
    for q in db.dataset_index.all_quads() {
        let g = match q.graph {
            GraphId::Default => None,
            GraphId::Named(n) => Some(dec(n)),
        };
        quads.insert((dec(q.subject), dec(q.predicate), dec(q.object), g));
    }
    let named = db
        .dataset_index
        .named_graphs()
        .into_iter()
        .filter_map(|g| match g {
            GraphId::Named(n) => Some(dec(n)),
            GraphId::Default => None,
        })
        .collect();
    Obs { quads, named, dict_error: dictionary_check(db, before) }
}

pub struct Pools {
    pools: Vec<(usize, rayon::ThreadPool)>,
}

impl Pools {
    pub fn new(sizes: &[usize]) -> Pools {
        Pools { pools: sizes.iter().map(|n| (*n, rayon::ThreadPoolBuilder::new().num_threads(*n).build().unwrap())).collect() }
    }
    fn get(&self, n: usize) -> &rayon::ThreadPool {
        &self.pools.iter().find(|p| p.0 == n).expect("pool size").1
    }
}

/// One execution of the real loader from scratch. Err = panic of the subject.
fn execute(loader: Loader, text: &str, prior: Prior, lines: &[Line], pool: &rayon::ThreadPool) -> Result<Obs, String> {
    let (triples, terms) = prior_content(prior, lines);
    guarded(|| {
        let mut db = SparqlDatabase::new();
        for (s, p, o) in &triples {
            db.add_triple_parts(s, p, o);
        }
        for t in &terms {
            db.dictionary.write().unwrap().encode(t);
        }
        let before: HashMap<String, u32> = db.dictionary.read().unwrap().string_to_id.clone();
        pool.install(|| match loader.format() {
            Format::NTriples => db.parse_ntriples_and_add(text),
            Format::NQuads => db.parse_nquads_and_add(text),
            Format::Turtle => db.parse_turtle(text),
            Format::N3 => db.parse_n3(text),
            Format::RdfXml => db.parse_rdf(text),
        });
        observe(&db, &before)
    })
}

fn expected_for(loader: Loader, prior: Prior, lines: &[Line], doc_quads: &BTreeSet<LexQuad>) -> (BTreeSet<LexQuad>, BTreeSet<String>) {
    let _ = loader;
    let mut q = doc_quads.clone();
    for (s, p, o) in prior_content(prior, lines).0 {
        q.insert((s, p, o, None));
    }
    let named = q.iter().filter_map(|x| x.3.clone()).collect();
    (q, named)
}

fn diff_detail(got: &BTreeSet<LexQuad>, exp: &BTreeSet<LexQuad>) -> String {
    let missing: Vec<&LexQuad> = exp.difference(got).take(3).collect();
    let extra: Vec<&LexQuad> = got.difference(exp).take(3).collect();
    format!(
        "store has {} quads, expected {}; {} missing, {} unexpected; first missing {:?}; first unexpected {:?}",
        got.len(),
        exp.len(),
        exp.difference(got).count(),
        got.difference(exp).count(),
        missing,
        extra
    )
}

/// structural tags of a case (never derived from the observed result)
fn tags(n: usize, kind: Kind, pos: Option<usize>, prior: Prior, pool: usize, loader: Loader, lines: &[Line]) -> Vec<String> {
    let mut t = vec![format!("format={}", loader.name()), format!("prior={}", prior.name()), format!("pool={}", pool), format!("kind={}", kind.name())];
    t.push(if n > CHUNK { "lines>chunk".into() } else { "lines<=chunk".into() });
    if prior != Prior::Empty {
        t.push("prior_dict_nonempty".into());
    }
    if matches!(prior, Prior::Disjoint | Prior::SharesTerm | Prior::SameTriple) {
        t.push("prior_db_nonempty".into());
    }
    let mut lit = false;
    let mut lang = false;
    let mut typed = false;
    let mut esc = false;
    let mut hash = false;
    let mut quoted = false;
    let mut blank = false;
    let mut prefix_at: Option<usize> = None;
    let mut prefix_later_chunk = false;
    fn walk(t: &Term, hash: &mut bool, quoted: &mut bool, blank: &mut bool) {
        match t {
            Term::Iri(i) => *hash |= i.contains('#'),
            Term::Blank(_) => *blank = true,
            Term::Lit { .. } => {}
            Term::Quoted(b) => {
                *quoted = true;
                walk(&b.0, hash, quoted, blank);
                walk(&b.1, hash, quoted, blank);
                walk(&b.2, hash, quoted, blank);
            }
        }
    }
    for (i, l) in lines.iter().enumerate() {
        match l {
            Line::Prefix { .. } => prefix_at = Some(i),
            Line::Triple { s, p, o, pname, .. } => {
                if let Term::Lit { value, lang: l, dt } = o {
                    lit = true;
                    lang |= l.is_some();
                    typed |= dt.is_some();
                    esc |= rl::escape(value) != *value;
                }
                walk(s, &mut hash, &mut quoted, &mut blank);
                walk(p, &mut hash, &mut quoted, &mut blank);
                walk(o, &mut hash, &mut quoted, &mut blank);
                if let (true, Some(pa)) = (*pname, prefix_at) {
                    if i / CHUNK > pa / CHUNK {
                        prefix_later_chunk = true;
                    }
                }
            }
            _ => {}
        }
    }
    for (flag, name) in [
        (lit, "doc_has_literal_object"),
        (lang, "doc_has_lang_literal"),
        (typed, "doc_has_typed_literal"),
        (esc, "doc_has_escaped_literal"),
        (hash, "doc_has_hash_in_iri"),
        (quoted, "doc_has_quoted_triple"),
        (blank, "doc_has_blank_node"),
        (prefix_at.is_some(), "doc_declares_prefix"),
        (prefix_later_chunk, "prefix_used_in_later_chunk"),
    ] {
        if flag {
            t.push(name.to_string());
        }
    }
    if let Some(p) = pos {
        t.push(format!("distinguished_in_chunk={}", p / CHUNK));
    }
    t
}

fn case_json(n: usize, kind: Kind, pos: Option<usize>, prior: Prior, pool: usize, loader: Loader, cross: bool) -> Value {
    let mut v = json!({"n": n, "kind": kind.name(), "pos": pos, "prior": prior.name(), "pool": pool, "format": loader.name()});
    if cross {
        v["cross_with"] = json!("ntriples");
    }
    v
}

/// Result of one absolute evaluation (loader run + comparison): list of (symptom, detail)
fn judge(obs: &Result<Obs, String>, exp_q: &BTreeSet<LexQuad>, exp_named: &BTreeSet<String>) -> Vec<(&'static str, String)> {
    let mut f = Vec::new();
    match obs {
        Err(msg) => f.push(("panic", format!("loader panicked: {}", msg))),
        Ok(o) => {
            if &o.quads != exp_q {
                f.push(("wrong_quads", diff_detail(&o.quads, exp_q)));
            } else if &o.named != exp_named {
                f.push(("wrong_named_graphs", format!("named graphs {:?}, expected {:?}", o.named, exp_named)));
            }
            if let Some(e) = &o.dict_error {
                f.push(("dictionary_not_bijective", e.clone()));
            }
        }
    }
    f
}


/// triage aid: with VCHECK_C13_DUMP=<path> every failing case is appended as one JSON line
fn dump_failure(case: &Value, symptom: &str, tags: &[String], detail: &str) {
    if let Ok(path) = std::env::var("VCHECK_C13_DUMP") {
        use std::io::Write;
        if let Ok(mut fh) = std::fs::OpenOptions::new().create(true).append(true).open(format!("{}.{}", path, std::process::id())) {
            let _ = writeln!(fh, "{}", json!({"case": case, "symptom": symptom, "tags": tags, "detail": detail}));
        }
    }
}

struct Rendered {
    loader: Loader,
    text: String,
    doc_quads: BTreeSet<LexQuad>,
}

/// render + reference-read one document for one loader; None = not expressible; Err = machinery
fn prepare(loader: Loader, lines: &[Line]) -> Result<Option<Rendered>, String> {
    let d = doc_for(loader, lines);
    let f = loader.format();
    if !rl::document_expressible(&d, f) {
        return Ok(None);
    }
    let text = rl::render(&d, f);
    let from_text = rl::expected_from_text(&text, f).map_err(|e| format!("reference reader failed on generated {} text: {}", f.name(), e))?;
    let from_abstract = rl::expected_quads(&d, f);
    if from_text != from_abstract {
        return Err(format!("reference reader and generator disagree for {}: {}", f.name(), diff_detail(&from_text, &from_abstract)));
    }
    if f != Format::RdfXml {
        let nlines = text.lines().count();
        if nlines != lines.len() {
            return Err(format!("{} rendering has {} physical lines for {} abstract lines", f.name(), nlines, lines.len()));
        }
    }
    Ok(Some(Rendered { loader, text, doc_quads: from_text }))
}

fn nontrivial_case(n: usize, kind: Kind, prior: Prior, doc_quads: &BTreeSet<LexQuad>) -> bool {
    doc_quads.len() >= 2 && (n > CHUNK || prior != Prior::Empty || kind != Kind::None)
}

/// which pool sizes a loader is run under. Thorough: all four (two for the sequential loaders beyond the first boundary). Quick: all four for the
/// two loaders that run rayon tasks on the installed pool (parse_ntriples, parse_n3) up to the first chunk
/// boundary and {1,4} beyond it; one size for the loaders that (by reading) never touch the installed pool
/// (parse_turtle, parse_nquads_and_add: sequential; parse_rdf: own threads + global pool).
fn pool_sizes_for(thorough: bool, n: usize, loader: Loader) -> Vec<usize> {
    let uses_installed_pool = matches!(loader, Loader::Fmt(Format::NTriples) | Loader::Fmt(Format::N3));
    if thorough {
        // full product, except that the loaders which never touch the installed pool get two of the four
        // sizes on the multi-chunk documents
        return if uses_installed_pool || n <= CHUNK + 3 { POOLS.to_vec() } else { vec![2, 16] };
    }
    match loader {
        Loader::Fmt(Format::NTriples) | Loader::Fmt(Format::N3) => {
            if n <= CHUNK + 3 {
                POOLS.to_vec()
            } else {
                vec![1, 4]
            }
        }
        _ => vec![2],
    }
}

/// prior contents: all five up to the first chunk boundary (and everywhere in thorough); two beyond it in quick
fn priors_for(thorough: bool, n: usize) -> Vec<Prior> {
    if thorough || n <= CHUNK + 3 {
        PRIORS.to_vec()
    } else {
        vec![Prior::Empty, Prior::SameTriple]
    }
}

/// evaluate loaders x priors x pools for one abstract document
#[allow(clippy::too_many_arguments)]
fn run_document(ctx: &Ctx, out: &mut ShardOut, pools: &Pools, n: usize, kind: Kind, pos: Option<usize>, loaders: &[Loader], priors: &[Prior], pool_sizes: &dyn Fn(Loader) -> Vec<usize>) {
    let lines = build_doc(n, kind, pos);
    let mut rendered = Vec::new();
    for l in loaders {
        match prepare(*l, &lines) {
            Ok(Some(r)) => rendered.push(r),
            Ok(None) => out.count(&format!("skipped_inexpressible.{}", l.name()), 1),
            Err(e) => {
                out.machinery_errors.push(format!("n={} kind={:?} pos={:?}: {}", n, kind, pos, e));
                return;
            }
        }
    }
    for &prior in priors {
        // (loader, pool, observation) of every load that satisfied the absolute clause
        let mut passed: Vec<(Loader, usize, Obs)> = Vec::new();
        for r in &rendered {
            let (exp_q, exp_named) = expected_for(r.loader, prior, &lines, &r.doc_quads);
            for pool in pool_sizes(r.loader) {
                let case = case_json(n, kind, pos, prior, pool, r.loader, false);
                if let Some(p) = &ctx.progress {
                    p.mark(&case.to_string());
                }
                let obs = execute(r.loader, &r.text, prior, &lines, pools.get(pool));
                out.evaluations += 1;
                out.count(&format!("loads.{}", r.loader.name()), 1);
                if nontrivial_case(n, kind, prior, &r.doc_quads) {
                    out.nontrivial(&(n, kind, pos, prior, pool, r.loader));
                }
                if let Ok(o) = &obs {
                    out.outcome(&o.quads);
                    out.max("max_quads_in_store", o.quads.len() as u64);
                }
                let fails = judge(&obs, &exp_q, &exp_named);
                if fails.is_empty() {
                    if let Ok(o) = obs {
                        passed.push((r.loader, pool, o));
                    }
                    if out.samples.len() < 4 && n >= 2 && kind != Kind::None && prior != Prior::Empty {
                        out.sample(json!({"case": case, "first_lines": r.text.lines().take(3).collect::<Vec<_>>(), "expected_quads": exp_q.len()}));
                    }
                    continue;
                }
                // determinism: re-execute from scratch before recording
                let obs2 = execute(r.loader, &r.text, prior, &lines, pools.get(pool));
                let mut tg = tags(n, kind, pos, prior, pool, r.loader, &lines);
                if obs2 != obs {
                    // thread schedules are part of C13's quantifier: run-to-run variation of the loader on a
                    // fixed text and fixed prior content is itself a violation, recorded with its own tag
                    tg.push("rerun_differs".into());
                    out.count("rerun_differs", 1);
                }
                for (symptom, detail) in fails {
                    out.count(&format!("failing.{}.{}", r.loader.name(), symptom), 1);
                    dump_failure(&case, symptom, &tg, &detail);
                    out.fail(case.clone(), symptom, detail, tg.clone());
                }
            }
        }
        // cross-format clause: every load that satisfied the absolute clause must show the same quads as
        // N-Triples (same abstract list, same prior content)
        let Some((_, nt_pool, nt)) = passed.iter().find(|(l, _, _)| *l == Loader::Fmt(Format::NTriples)).cloned() else {
            if !rendered.is_empty() {
                out.count("cross_format_skipped_no_ntriples_baseline", 1);
            }
            continue;
        };
        for (l, pool, o) in &passed {
            if matches!(l, Loader::NQuadsNamed | Loader::Fmt(Format::NTriples)) {
                continue;
            }
            out.count("cross_format_comparisons", 1);
            if o.quads != nt.quads {
                let r = rendered.iter().find(|r| r.loader == *l).unwrap();
                let ntr = rendered.iter().find(|r| r.loader == Loader::Fmt(Format::NTriples)).unwrap();
                let again = execute(*l, &r.text, prior, &lines, pools.get(*pool));
                let again_nt = execute(Loader::Fmt(Format::NTriples), &ntr.text, prior, &lines, pools.get(nt_pool));
                let mut tg = tags(n, kind, pos, prior, *pool, *l, &lines);
                if again.as_ref().ok() != Some(o) || again_nt.as_ref().ok() != Some(&nt) {
                    tg.push("rerun_differs".into());
                    out.count("rerun_differs", 1);
                }
                out.count(&format!("failing.{}.cross_format_differs", l.name()), 1);
                let detail = format!("same abstract triples, {} vs ntriples: {}", l.name(), diff_detail(&o.quads, &nt.quads));
                let case = case_json(n, kind, pos, prior, *pool, *l, true);
                dump_failure(&case, "cross_format_differs", &tg, &detail);
                out.fail(case, "cross_format_differs", detail, tg);
            }
        }
    }
}

fn run(ctx: &Ctx) -> ShardOut {
    let mut out = ShardOut::default();
    let pools = Pools::new(&POOLS);
    let thorough = ctx.thorough();
    let docs = documents(thorough);
    out.count("documents_in_enumeration", if ctx.shard == 0 { docs.len() as u64 } else { 0 });
    let mut done = 0u64;
    for (i, (n, kind, pos)) in docs.iter().enumerate() {
        if !ctx.mine(i as u64) {
            continue;
        }
        if ctx.expired() {
            out.capped.push(format!("wall-clock cap: shard {} completed {} of its documents (enumeration order: sizes ascending)", ctx.shard, done));
            break;
        }
        let n = *n;
        run_document(ctx, &mut out, &pools, n, *kind, *pos, &LOADERS, &priors_for(thorough, n), &|l| pool_sizes_for(thorough, n, l));
        done += 1;
    }
    // RDF/XML batch boundary (8192 triples per batch sent to the worker threads): thorough only
    if thorough {
        let mut idx = docs.len() as u64;
        let mut xdocs: Vec<(usize, Kind, Option<usize>)> = Vec::new();
        for n in 8190..=8194usize {
            xdocs.push((n, Kind::None, None));
            for kind in [Kind::Duplicate, Kind::Comment, Kind::HashIri] {
                for pos in 8190..=8193usize {
                    if pos < n {
                        xdocs.push((n, kind, Some(pos)));
                    }
                }
            }
        }
        for (n, kind, pos) in xdocs {
            idx += 1;
            if !ctx.mine(idx) {
                continue;
            }
            if ctx.expired() {
                out.capped.push("wall-clock cap during the RDF/XML 8192 boundary part".into());
                return out;
            }
            run_document(ctx, &mut out, &pools, n, kind, pos, &[Loader::Fmt(Format::NTriples), Loader::Fmt(Format::RdfXml)], &PRIORS, &|_| vec![2]);
            out.count("rdfxml_8192_boundary_documents", 1);
        }
    }
    out
}

fn replay(_ctx: &Ctx, case: &Value) -> ShardOut {
    let mut out = ShardOut::default();
    let parsed = (|| {
        let n = case["n"].as_u64()? as usize;
        let kind = Kind::parse(case["kind"].as_str()?)?;
        let pos = case["pos"].as_u64().map(|p| p as usize);
        let prior = Prior::parse(case["prior"].as_str()?)?;
        let pool = case["pool"].as_u64()? as usize;
        let loader = Loader::parse(case["format"].as_str()?)?;
        Some((n, kind, pos, prior, pool, loader))
    })();
    let Some((n, kind, pos, prior, pool, loader)) = parsed else {
        out.machinery_errors.push(format!("unreadable C13 case {}", case));
        return out;
    };
    let pools = Pools::new(&[pool]);
    let cross = case.get("cross_with").is_some();
    let loaders: Vec<Loader> = if cross { vec![Loader::Fmt(Format::NTriples), loader] } else { vec![loader] };
    run_document(&Ctx::for_replay(crate::infra::Tier::Quick), &mut out, &pools, n, kind, pos, &loaders, &[prior], &|_| vec![pool]);
    // keep only what the recorded case is about
    out.failure_sigs.retain(|_, (_, f)| f.case["format"] == case["format"]);
    out
}
