//! Bounded-exhaustive generator of SELECT queries of the supported fragment (shared by C01,
//! C02, C16, C17). Everything here is deterministic: the same tier yields the same list.
use super::common::*;
use crate::reference::sparql_ast::*;
use std::collections::{BTreeMap, BTreeSet};

fn v(n: &str) -> T {
    T::var(n)
}
fn i(n: &str) -> T {
    T::iri(n)
}
fn l(n: &str) -> T {
    T::lit(n)
}

/// the 12 triple-pattern templates
pub fn templates() -> Vec<TP> {
    vec![
        tp(v("s"), i(P), v("o")),  // 0
        tp(v("s"), i(Q), v("v")),  // 1
        tp(v("o"), i(P), v("z")),  // 2 chain with 0 (o-s)
        tp(v("s"), v("pp"), v("o")), // 3 variable predicate
        tp(v("x"), i(P), v("x")),  // 4 repeated variable
        tp(i(A), i(P), v("o")),    // 5 constant subject
        tp(v("s"), i(P), i(C)),    // 6 constant object
        tp(v("s"), i(Q), l("1")),  // 7 literal constant
        tp(v("o"), i(Q), v("v")),  // 8 o-s join with 0
        tp(v("z"), i(P), v("o")),  // 9 o-o join with 0
        tp(i(A), i(P), i(B)),      // 10 ground
        tp(v("s"), i(Q), v("w")),  // 11 s-s join with 1
    ]
}

fn t1(k: usize) -> Elem {
    Elem::Triples(vec![templates()[k].clone()])
}
fn tn(ks: &[usize]) -> Elem {
    Elem::Triples(ks.iter().map(|k| templates()[*k].clone()).collect())
}
fn g(e: Vec<Elem>) -> Group {
    Group(e)
}

pub fn subselects() -> Vec<Select> {
    let mut out = Vec::new();
    // S1 projection drops a variable (duplicates stay)
    out.push(Select::simple(&["s"], g(vec![t1(0)])));
    // S2 DISTINCT inside
    let mut s = Select::simple(&["s"], g(vec![t1(0)]));
    s.distinct = true;
    out.push(s);
    // S3 ORDER BY DESC + LIMIT 1 (ties are identical rows)
    let mut s = Select::simple(&["v"], g(vec![Elem::Triples(vec![tp(v("y"), i(Q), v("v"))])]));
    s.order_by = vec![("v".into(), true)];
    s.limit = Some(1);
    out.push(s);
    // S4 GROUP BY + SUM
    let mut s = Select::simple(&[], g(vec![t1(1)]));
    s.proj = Proj::Items(vec![ProjItem::Var("s".into()), ProjItem::Agg(Agg::Sum, "v".into(), "t".into())]);
    s.group_by = vec!["s".into()];
    out.push(s);
    // S5 aggregate without GROUP BY (one row even over nothing; MAX of nothing is unbound)
    let mut s = Select::simple(&[], g(vec![Elem::Triples(vec![tp(v("y"), i(Q), v("v"))])]));
    s.proj = Proj::Items(vec![ProjItem::Agg(Agg::Max, "v".into(), "m".into())]);
    out.push(s);
    // S6 ORDER BY + LIMIT 2
    let mut s = Select::simple(&["o"], g(vec![t1(0)]));
    s.order_by = vec![("o".into(), false)];
    s.limit = Some(2);
    out.push(s);
    // S7 SELECT *
    let mut s = Select::simple(&[], g(vec![t1(1)]));
    s.proj = Proj::Star;
    out.push(s);
    // S8 LIMIT 0
    let mut s = Select::simple(&["s"], g(vec![t1(0)]));
    s.limit = Some(0);
    out.push(s);
    // S9 two keys, DISTINCT, LIMIT 2
    let mut s = Select::simple(&["o", "z"], g(vec![t1(2)]));
    s.distinct = true;
    s.order_by = vec![("o".into(), false), ("z".into(), true)];
    s.limit = Some(2);
    out.push(s);
    // S10 GROUP BY without any aggregate (one row per group; appended last so that the indexes
    // used by `core_elements` stay what they were)
    let mut s = Select::simple(&["s"], g(vec![t1(1)]));
    s.group_by = vec!["s".into()];
    out.push(s);
    out
}

/// Elements from which base groups are formed. `wide` adds the rarer shapes.
pub fn elements(wide: bool) -> Vec<Elem> {
    let mut e = Vec::new();
    for k in 0..12 {
        e.push(t1(k));
    }
    // multi-pattern blocks
    e.push(tn(&[0, 1]));
    e.push(tn(&[0, 2]));
    e.push(tn(&[1, 11]));
    // GRAPH
    for gt in [i(G1), v("g")] {
        e.push(Elem::Graph(gt.clone(), g(vec![])));
        for k in [0usize, 1, 3, 4] {
            e.push(Elem::Graph(gt.clone(), g(vec![t1(k)])));
        }
        e.push(Elem::Graph(gt.clone(), g(vec![tn(&[0, 2])])));
    }
    e.push(Elem::Graph(i(G2), g(vec![t1(9)])));
    e.push(Elem::Graph(i(G3), g(vec![t1(0)])));
    e.push(Elem::Graph(i(GX), g(vec![t1(0)])));
    e.push(Elem::Graph(i(G3), g(vec![])));
    // graph variable also used inside the pattern
    e.push(Elem::Graph(v("g"), g(vec![Elem::Triples(vec![tp(v("s"), i(P), v("g"))])])));
    // UNION
    let ub = [0usize, 1, 5, 6, 2];
    for a in ub {
        for b in ub {
            if !wide && a > b {
                continue;
            }
            e.push(Elem::Union(vec![g(vec![t1(a)]), g(vec![t1(b)])]));
        }
    }
    e.push(Elem::Union(vec![g(vec![t1(0)]), g(vec![Elem::Graph(v("g"), g(vec![t1(0)]))])]));
    e.push(Elem::Union(vec![g(vec![t1(0)]), g(vec![t1(6)]), g(vec![t1(5)])]));
    e.push(Elem::Union(vec![g(vec![]), g(vec![t1(10)])]));
    // nested groups
    for k in [0usize, 1, 2] {
        e.push(Elem::Nested(g(vec![t1(k)])));
    }
    e.push(Elem::Nested(g(vec![])));
    e.push(Elem::Nested(g(vec![t1(0), t1(2)])));
    // sub-selects
    for s in subselects() {
        e.push(Elem::Sub(Box::new(s)));
    }
    // GRAPH around UNION / sub-select / nested
    e.push(Elem::Graph(v("g"), g(vec![Elem::Union(vec![g(vec![t1(0)]), g(vec![t1(6)])])])));
    e.push(Elem::Graph(i(G1), g(vec![Elem::Sub(Box::new(subselects()[0].clone()))])));
    e.push(Elem::Graph(v("g"), g(vec![Elem::Sub(Box::new(subselects()[3].clone()))])));
    // inner filters (group scoping): filter inside GRAPH / UNION branch / nested group, written
    // before, between and after the patterns of that inner group
    let f_s_a = Elem::Filter(Expr::Cmp(v("s"), Cmp::Eq, i(A)));
    let f_v_gt1 = Elem::Filter(Expr::Cmp(v("v"), Cmp::Gt, T::Num("1".into())));
    let f_o_ne_b = Elem::Filter(Expr::Cmp(v("o"), Cmp::Ne, i(B)));
    e.push(Elem::Graph(v("g"), g(vec![t1(0), f_s_a.clone()])));
    e.push(Elem::Graph(i(G1), g(vec![f_v_gt1.clone(), t1(1)])));
    e.push(Elem::Union(vec![g(vec![t1(0), f_o_ne_b.clone()]), g(vec![t1(6)])]));
    e.push(Elem::Union(vec![g(vec![f_s_a.clone(), t1(0)]), g(vec![t1(1), f_v_gt1.clone()])]));
    e.push(Elem::Nested(g(vec![t1(1), f_v_gt1.clone()])));
    e.push(Elem::Nested(g(vec![t1(0), f_o_ne_b.clone(), t1(2)])));
    // (a FILTER on ?g written inside GRAPH ?g { .. } is outside the property's quantifier: ?g is not
    //  in scope of the inner group in the SPARQL algebra, so it is not generated.)
    e
}

/// Narrow element list for depth-3 products and decorations.
pub fn core_elements() -> Vec<Elem> {
    let all = elements(false);
    let mut e = Vec::new();
    for k in [0usize, 1, 2, 3, 4, 6, 8, 11] {
        e.push(t1(k));
    }
    e.push(Elem::Graph(i(G1), g(vec![t1(0)])));
    e.push(Elem::Graph(v("g"), g(vec![t1(0)])));
    e.push(Elem::Graph(v("g"), g(vec![t1(1)])));
    e.push(Elem::Graph(v("g"), g(vec![])));
    e.push(Elem::Union(vec![g(vec![t1(0)]), g(vec![t1(6)])]));
    e.push(Elem::Union(vec![g(vec![t1(1)]), g(vec![t1(0)])]));
    e.push(Elem::Union(vec![g(vec![t1(0)]), g(vec![t1(0)])]));
    e.push(Elem::Nested(g(vec![t1(2)])));
    for k in [0usize, 2, 3, 5] {
        e.push(Elem::Sub(Box::new(subselects()[k].clone())));
    }
    let _ = all;
    e
}

fn all_vars_select(group: Group) -> Select {
    let mut vars = Vec::new();
    group.visible_vars_ordered(&mut vars);
    let mut s = Select::simple(&[], group);
    if vars.is_empty() {
        s.proj = Proj::Star;
    } else {
        s.proj = Proj::Items(vars.into_iter().map(ProjItem::Var).collect());
    }
    s
}

/// Is the group inside the property's quantifier and the generator's value conventions?
/// (BIND targets fresh, sub-select columns do not clash in kind, ...)
fn well_formed(group: &Group) -> bool {
    let mut kinds = BTreeMap::new();
    group.var_kinds(Q, &mut kinds);
    // a variable used both as IRI and as number can never match; allowed (just empty), but a
    // variable of Unknown kind must not be compared/ordered — enforced where filters are built.
    let mut seen = BTreeSet::new();
    for e in &group.0 {
        if let Elem::Bind(_, o) = e {
            if seen.contains(o) {
                return false;
            }
        }
        let mut vs = Vec::new();
        Group(vec![e.clone()]).visible_vars_ordered(&mut vs);
        seen.extend(vs);
    }
    true
}

/// base groups: all sequences of length 1..=n over `elems`
fn sequences(elems: &[Elem], n: usize) -> Vec<Group> {
    let mut out: Vec<Group> = Vec::new();
    let mut level: Vec<Vec<Elem>> = vec![vec![]];
    for _ in 0..n {
        let mut next = Vec::new();
        for prefix in &level {
            for e in elems {
                let mut p = prefix.clone();
                p.push(e.clone());
                next.push(p);
            }
        }
        for p in &next {
            out.push(Group(p.clone()));
        }
        level = next;
    }
    out
}

/// Filters for a base group: `.0` are written at every position of the group, `.1` (the
/// round-3 additions: constant on the LEFT of a simple comparison, the remaining order operators)
/// only after the last element, to bound the query count.
fn filters_for(group: &Group) -> (Vec<Expr>, Vec<Expr>) {
    let certain = group.certain_vars();
    let mut kinds = BTreeMap::new();
    group.var_kinds(Q, &mut kinds);
    let mut simple = Vec::new();
    let cv: Vec<&String> = certain.iter().collect();
    for x in &cv {
        match kinds.get(*x) {
            Some(VarKind::Iri) => {
                simple.push(Expr::Cmp(v(x), Cmp::Eq, i(A)));
                simple.push(Expr::Cmp(v(x), Cmp::Ne, i(B)));
            }
            Some(VarKind::Num) => {
                simple.push(Expr::Cmp(v(x), Cmp::Eq, l("1")));
                simple.push(Expr::Cmp(v(x), Cmp::Lt, T::Num("2".into())));
                simple.push(Expr::Cmp(v(x), Cmp::Ge, T::Num("2".into())));
            }
            Some(VarKind::Str) => {
                simple.push(Expr::Cmp(v(x), Cmp::Eq, l("1k")));
            }
            _ => {}
        }
    }
    for (a, x) in cv.iter().enumerate() {
        for y in cv.iter().skip(a + 1) {
            let (kx, ky) = (kinds.get(*x), kinds.get(*y));
            if kx == ky && matches!(kx, Some(VarKind::Iri) | Some(VarKind::Num)) {
                simple.push(Expr::Cmp(v(x), Cmp::Eq, v(y)));
                simple.push(Expr::Cmp(v(x), Cmp::Ne, v(y)));
                if kx == Some(&VarKind::Num) {
                    simple.push(Expr::Cmp(v(x), Cmp::Lt, v(y)));
                }
            }
        }
    }
    simple.truncate(7);
    // round 3: the same simple comparisons with the constant written on the left (mirrored
    // operator, same truth value), the order operators not used above, and compositions
    let mut end_only: Vec<Expr> = Vec::new();
    for f in simple.iter() {
        if let Expr::Cmp(a @ T::Var(_), op, b) = f {
            if !b.is_var() {
                end_only.push(Expr::Cmp(b.clone(), op.mirror(), a.clone()));
            }
        }
    }
    end_only.truncate(5);
    if let Some(m) = end_only.first().cloned() {
        end_only.push(Expr::Not(Box::new(m.clone())));
        if let Some(f) = simple.get(1) {
            end_only.push(Expr::And(Box::new(m.clone()), Box::new(f.clone())));
            end_only.push(Expr::Or(Box::new(f.clone()), Box::new(m)));
        }
    }
    for x in &cv {
        if kinds.get(*x) == Some(&VarKind::Num) {
            end_only.push(Expr::Cmp(v(x), Cmp::Gt, T::Num("1".into())));
            end_only.push(Expr::Cmp(v(x), Cmp::Le, T::Num("1".into())));
            end_only.push(Expr::Cmp(T::Num("1".into()), Cmp::Lt, v(x)));
            end_only.push(Expr::Cmp(l("2"), Cmp::Ne, v(x)));
            break;
        }
    }
    'pairs: for (a, x) in cv.iter().enumerate() {
        for y in cv.iter().skip(a + 1) {
            if kinds.get(*x) == Some(&VarKind::Num) && kinds.get(*y) == Some(&VarKind::Num) {
                end_only.push(Expr::Cmp(v(x), Cmp::Le, v(y)));
                end_only.push(Expr::Cmp(v(x), Cmp::Gt, v(y)));
                end_only.push(Expr::Cmp(v(x), Cmp::Ge, v(y)));
                break 'pairs;
            }
        }
    }
    // arithmetic comparisons over certainly bound numeric variables (precedence, every operator)
    let nums: Vec<&&String> = cv.iter().filter(|x| kinds.get(**x) == Some(&VarKind::Num)).collect();
    let mut arith: Vec<Expr> = Vec::new();
    let op = |t: T| Box::new(Arith::Operand(t));
    let n = |k: &str| T::Num(k.to_string());
    if let Some(x) = nums.first() {
        // (x + 1) * 2 > 4   /   x + 1 * 2 > 3 (precedence)   /   x - 1 = 0   /   x / 2 >= 1   /   6 / x != 3
        arith.push(Expr::ArithCmp(Arith::Mul(Box::new(Arith::Add(op(v(x)), op(n("1")))), op(n("2"))), Cmp::Gt, Arith::Operand(n("4"))));
        arith.push(Expr::ArithCmp(Arith::Add(op(v(x)), Box::new(Arith::Mul(op(n("1")), op(n("2"))))), Cmp::Gt, Arith::Operand(n("3"))));
        arith.push(Expr::ArithCmp(Arith::Sub(op(v(x)), op(n("1"))), Cmp::Eq, Arith::Operand(n("0"))));
        arith.push(Expr::ArithCmp(Arith::Div(op(v(x)), op(n("2"))), Cmp::Ge, Arith::Operand(n("1"))));
        arith.push(Expr::ArithCmp(Arith::Div(op(n("6")), op(v(x))), Cmp::Ne, Arith::Operand(n("3"))));
        if let Some(y) = nums.get(1) {
            arith.push(Expr::ArithCmp(Arith::Add(op(v(x)), op(v(y))), Cmp::Le, Arith::Operand(n("3"))));
            arith.push(Expr::ArithCmp(Arith::Operand(v(x)), Cmp::Lt, Arith::Mul(op(v(y)), op(n("2")))));
            arith.push(Expr::ArithCmp(Arith::Sub(op(v(x)), op(v(y))), Cmp::Eq, Arith::Sub(op(v(y)), op(v(x)))));
        }
    }
    let mut out = simple.clone();
    if simple.len() >= 2 {
        out.push(Expr::And(Box::new(simple[0].clone()), Box::new(simple[1].clone())));
        out.push(Expr::Or(Box::new(simple[0].clone()), Box::new(simple[1].clone())));
        out.push(Expr::Not(Box::new(Expr::Or(Box::new(simple[0].clone()), Box::new(simple[1].clone())))));
        let last = simple.last().unwrap().clone();
        out.push(Expr::And(Box::new(Expr::Or(Box::new(simple[0].clone()), Box::new(last))), Box::new(Expr::Not(Box::new(simple[1].clone())))));
    }
    if let Some(f) = simple.first() {
        out.push(Expr::Not(Box::new(f.clone())));
    }
    if let (Some(a), Some(f)) = (arith.first(), simple.first()) {
        out.push(Expr::And(Box::new(a.clone()), Box::new(f.clone())));
        out.push(Expr::Not(Box::new(a.clone())));
    }
    out.extend(arith);
    (out, end_only)
}

fn values_menu() -> Vec<Elem> {
    vec![
        Elem::Values(vec!["s".into()], vec![vec![Some(i(A))], vec![Some(i(B))]]),
        Elem::Values(vec!["s".into(), "v".into()], vec![vec![Some(i(A)), Some(l("1"))], vec![None, Some(l("2"))], vec![Some(i(B)), None]]),
        Elem::Values(vec!["u".into()], vec![vec![Some(l("1"))], vec![Some(l("1"))]]),
        Elem::Values(vec!["s".into()], vec![]),
        Elem::Values(vec!["s".into()], vec![vec![None]]),
        Elem::Values(vec!["o".into(), "s".into()], vec![vec![Some(i(B)), Some(i(A))], vec![Some(i(C)), None]]),
    ]
}

fn insert_at(group: &Group, pos: usize, e: Elem) -> Group {
    let mut v = group.0.clone();
    v.insert(pos, e);
    Group(v)
}

/// FILTER / BIND / VALUES decorations of the given base groups.
fn decorate(bases: &[Group], out: &mut Vec<Select>) {
    for base in bases {
        let n = base.0.len();
        // filters at every position
        let (fs, fs_end) = filters_for(base);
        for f in &fs {
            for pos in 0..=n {
                out.push(all_vars_select(insert_at(base, pos, Elem::Filter(f.clone()))));
            }
        }
        for f in &fs_end {
            out.push(all_vars_select(insert_at(base, n, Elem::Filter(f.clone()))));
        }
        // two filters in one group (both deferred to the end)
        if fs.len() >= 2 {
            let gq = insert_at(&insert_at(base, 0, Elem::Filter(fs[0].clone())), n + 1, Elem::Filter(fs[1].clone()));
            out.push(all_vars_select(gq));
        }
        // values at every position
        for val in values_menu() {
            for pos in 0..=n {
                out.push(all_vars_select(insert_at(base, pos, val.clone())));
            }
        }
        // bind after the element that certainly binds a numeric variable
        let mut kinds = BTreeMap::new();
        base.var_kinds(Q, &mut kinds);
        for (idx, e) in base.0.iter().enumerate() {
            let eg = Group(vec![e.clone()]);
            let cert = eg.certain_vars();
            for x in cert.iter().filter(|x| kinds.get(*x) == Some(&VarKind::Num)) {
                for args in [vec![v(x), l("k")], vec![l("k"), v(x)], vec![v(x), v(x)], vec![l("a"), l("b")]] {
                    for pos in (idx + 1)..=n {
                        let gb = insert_at(base, pos, Elem::Bind(args.clone(), "n".into()));
                        if !well_formed(&gb) {
                            continue;
                        }
                        out.push(all_vars_select(gb.clone()));
                        // filter on the bound value, before and after the BIND textually
                        let f = Elem::Filter(Expr::Cmp(v("n"), Cmp::Eq, l("1k")));
                        out.push(all_vars_select(insert_at(&gb, 0, f.clone())));
                        out.push(all_vars_select(insert_at(&gb, pos + 1, f)));
                    }
                }
                break;
            }
        }
    }
}

/// Solution modifiers on the given base groups.
fn modifiers(bases: &[Group], out: &mut Vec<Select>) {
    for base in bases {
        let mut vars = Vec::new();
        base.visible_vars_ordered(&mut vars);
        let certain = base.certain_vars();
        let mut kinds = BTreeMap::new();
        base.var_kinds(Q, &mut kinds);
        let full = all_vars_select(base.clone());
        // SELECT *
        let mut s = full.clone();
        s.proj = Proj::Star;
        out.push(s);
        // DISTINCT, projections of subsets, projection of a never-bound variable
        let mut s = full.clone();
        s.distinct = true;
        out.push(s);
        for x in &vars {
            let mut s = Select::simple(&[x.as_str()], base.clone());
            out.push(s.clone());
            s.distinct = true;
            out.push(s);
        }
        if vars.len() >= 2 {
            let mut s = Select::simple(&[vars[1].as_str(), vars[0].as_str()], base.clone());
            out.push(s.clone());
            s.distinct = true;
            out.push(s);
        }
        if let Some(x) = vars.first() {
            out.push(Select::simple(&[x.as_str(), "nb"], base.clone()));
            out.push(Select::simple(&["nb"], base.clone()));
        }
        // dataset clauses (also applied to every pair of core elements, see `dataset_clauses`)
        for (from, named) in [
            (vec![G1], vec![]),
            (vec![G1, G2], vec![]),
            (vec![G2, G1, G2], vec![]),
            (vec![], vec![G1]),
            (vec![], vec![G1, G2, G3]),
            (vec![G1], vec![G2]),
            (vec![G2], vec![G1, G2]),
            (vec![GX], vec![]),
            (vec![G3], vec![G1]),
        ] {
            let mut s = full.clone();
            s.from = from.iter().map(|x| x.to_string()).collect();
            s.from_named = named.iter().map(|x| x.to_string()).collect();
            out.push(s.clone());
            s.distinct = true;
            out.push(s);
        }
        // LIMIT without ORDER BY
        for lim in [0usize, 1, 2] {
            let mut s = full.clone();
            s.limit = Some(lim);
            out.push(s.clone());
            s.distinct = true;
            out.push(s);
        }
        // ORDER BY on certainly bound variables of one kind
        let orderable: Vec<&String> = vars.iter().filter(|x| certain.contains(*x) && matches!(kinds.get(*x), Some(VarKind::Iri) | Some(VarKind::Num))).collect();
        for x in &orderable {
            for desc in [false, true] {
                for lim in [None, Some(0usize), Some(1), Some(2)] {
                    let mut s = full.clone();
                    s.order_by = vec![((*x).clone(), desc)];
                    s.limit = lim;
                    out.push(s.clone());
                    if lim != Some(0) {
                        s.distinct = true;
                        out.push(s.clone());
                        // projected onto the key only (ties become identical rows)
                        let mut s2 = Select::simple(&[x.as_str()], base.clone());
                        s2.order_by = vec![((*x).clone(), desc)];
                        s2.limit = lim;
                        out.push(s2.clone());
                        s2.distinct = true;
                        out.push(s2);
                    }
                }
            }
        }
        if orderable.len() >= 2 {
            let mut s = full.clone();
            s.order_by = vec![(orderable[0].clone(), true), (orderable[1].clone(), false)];
            out.push(s.clone());
            s.limit = Some(2);
            out.push(s);
        }
        // aggregates
        let nums: Vec<&String> = vars.iter().filter(|x| certain.contains(*x) && kinds.get(*x) == Some(&VarKind::Num)).collect();
        let iris: Vec<&String> = vars.iter().filter(|x| certain.contains(*x) && kinds.get(*x) == Some(&VarKind::Iri)).collect();
        if let Some(x) = nums.first() {
            let mut s = Select::simple(&[], base.clone());
            s.proj = Proj::Items(vec![
                ProjItem::Agg(Agg::Sum, (*x).clone(), "t".into()),
                ProjItem::Agg(Agg::Min, (*x).clone(), "lo".into()),
                ProjItem::Agg(Agg::Max, (*x).clone(), "hi".into()),
                ProjItem::Agg(Agg::Avg, (*x).clone(), "av".into()),
            ]);
            out.push(s);
            for key in iris.iter().take(2) {
                for f in [Agg::Sum, Agg::Min, Agg::Max, Agg::Avg] {
                    let mut s = Select::simple(&[], base.clone());
                    s.proj = Proj::Items(vec![ProjItem::Var((*key).clone()), ProjItem::Agg(f, (*x).clone(), "t".into())]);
                    s.group_by = vec![(*key).clone()];
                    out.push(s.clone());
                    s.order_by = vec![("t".into(), true)];
                    out.push(s.clone());
                    s.order_by = vec![((*key).clone(), false)];
                    s.limit = Some(1);
                    out.push(s);
                }
            }
            if iris.len() >= 2 {
                let mut s = Select::simple(&[], base.clone());
                s.proj = Proj::Items(vec![ProjItem::Var(iris[0].clone()), ProjItem::Var(iris[1].clone()), ProjItem::Agg(Agg::Sum, (*x).clone(), "t".into())]);
                s.group_by = vec![iris[0].clone(), iris[1].clone()];
                out.push(s);
            }
        }
        // round 3: GROUP BY without any aggregate (one row per distinct key; the top-level
        // finalisation only aggregates when an aggregate is projected, the sub-select path always)
        for key in iris.iter().take(2).chain(nums.iter().take(1)) {
            let mut s = Select::simple(&[key.as_str()], base.clone());
            s.group_by = vec![(*key).clone()];
            out.push(s.clone());
            let mut d = s.clone();
            d.distinct = true;
            out.push(d);
            let mut o = s.clone();
            o.order_by = vec![((*key).clone(), true)];
            out.push(o.clone());
            o.limit = Some(1);
            out.push(o);
            let mut lim = s.clone();
            lim.limit = Some(1);
            out.push(lim);
            // the same as a sub-select joined with the base group
            let sub = Elem::Sub(Box::new(s.clone()));
            out.push(all_vars_select(Group(vec![sub.clone()])));
            let mut joined = base.0.clone();
            joined.push(sub);
            out.push(all_vars_select(Group(joined)));
        }
        if iris.len() >= 2 {
            let mut s = Select::simple(&[iris[0].as_str(), iris[1].as_str()], base.clone());
            s.group_by = vec![iris[0].clone(), iris[1].clone()];
            out.push(s.clone());
            // projecting a subset of the keys keeps one row per (k0, k1) group
            let mut s1 = Select::simple(&[iris[1].as_str()], base.clone());
            s1.group_by = vec![iris[0].clone(), iris[1].clone()];
            out.push(s1);
        }
    }
}

/// FROM / FROM NAMED replacement datasets on the given base groups (merged default graphs meet
/// joins, unions, VALUES and sub-selects here, not only single patterns).
fn dataset_clauses(bases: &[Group], out: &mut Vec<Select>) {
    for base in bases {
        let full = all_vars_select(base.clone());
        for (from, named) in [(vec![G1, G2], vec![]), (vec![G2, G1, G2], vec![G1]), (vec![G1], vec![G2]), (vec![], vec![G1, G2])] {
            let mut s = full.clone();
            s.from = from.iter().map(|x| x.to_string()).collect();
            s.from_named = named.iter().map(|x| x.to_string()).collect();
            out.push(s);
        }
    }
}

// ---------------------------------------------------------------------------------------
// Round-3 families (audit A): shapes that cross engine branches the grammar above never reached
// ---------------------------------------------------------------------------------------

fn tpq(s: &str, o: &str) -> TP {
    tp(v(s), i(Q), v(o))
}

/// BIND inside an inner group (nested braces, UNION branch, GRAPH) whose target variable is ALSO
/// bound by a sibling element of the outer group. In the algebra the inner group is evaluated on
/// its own (Extend over the inner solutions) and then joined: solutions whose BIND value differs
/// from the sibling's value are incompatible and disappear. An engine that feeds the outer rows
/// into the inner plan and lets BIND assign its target would overwrite instead of join.
/// The BIND expression only mentions variables of its own group (the property's quantifier).
pub fn bind_scope_bases() -> Vec<Group> {
    // inner groups
    let nb_k = Elem::Nested(g(vec![Elem::Triples(vec![tpq("s", "v")]), Elem::Bind(vec![v("v"), l("k")], "n".into())]));
    let nb_id = Elem::Nested(g(vec![Elem::Triples(vec![tpq("s", "v")]), Elem::Bind(vec![v("v"), l("")], "n".into())]));
    let nb_x = Elem::Nested(g(vec![Elem::Triples(vec![tpq("x", "v")]), Elem::Bind(vec![v("v"), l("k")], "n".into())]));
    let nb_w = Elem::Nested(g(vec![Elem::Triples(vec![tpq("s", "w")]), Elem::Bind(vec![v("w"), l("k")], "n".into())]));
    let ub = Elem::Union(vec![g(vec![Elem::Triples(vec![tpq("s", "n")])]), g(vec![Elem::Triples(vec![tpq("s", "w")]), Elem::Bind(vec![v("w"), l("")], "n".into())])]);
    let gb_var = Elem::Graph(v("g"), g(vec![Elem::Triples(vec![tpq("s", "v")]), Elem::Bind(vec![v("v"), l("k")], "n".into())]));
    let gb_iri = Elem::Graph(i(G1), g(vec![Elem::Triples(vec![tpq("s", "v")]), Elem::Bind(vec![v("v"), l("")], "n".into())]));
    // sibling elements that bind ?n
    let on_q = Elem::Triples(vec![tpq("s", "n")]);
    let on_vals = Elem::Values(vec!["n".into()], vec![vec![Some(l("1k"))], vec![Some(l("2k"))], vec![Some(l("3k"))]]);
    let on_vals2 = Elem::Values(vec!["s".into(), "n".into()], vec![vec![Some(i(A)), Some(l("1k"))], vec![None, Some(l("2k"))], vec![Some(i(B)), None]]);
    let on_num = Elem::Values(vec!["n".into()], vec![vec![Some(l("1"))], vec![Some(l("7"))]]);
    let on_sub = Elem::Sub(Box::new(Select::simple(&["n"], g(vec![Elem::Triples(vec![tpq("y", "n")])]))));
    let mut out = Vec::new();
    let pairs: Vec<(Elem, Elem)> = vec![
        (on_vals.clone(), nb_k.clone()),
        (on_vals2.clone(), nb_k.clone()),
        (on_vals.clone(), nb_x.clone()),
        (on_q.clone(), nb_id.clone()),
        (on_num.clone(), nb_id.clone()),
        (on_sub.clone(), nb_id.clone()),
        (on_q.clone(), ub.clone()),
        (on_num.clone(), ub.clone()),
        (on_vals.clone(), gb_var.clone()),
        (on_vals2.clone(), gb_var.clone()),
        (on_q.clone(), gb_iri.clone()),
        (on_num.clone(), gb_iri.clone()),
        // two inner groups binding the same target
        (nb_k.clone(), nb_w.clone()),
        (nb_k.clone(), gb_var.clone()),
    ];
    for (a, b) in pairs {
        out.push(Group(vec![a.clone(), b.clone()]));
        out.push(Group(vec![b.clone(), a.clone()]));
        // a third element that joins on ?s (keeps the clash below a join node)
        out.push(Group(vec![a.clone(), b.clone(), t1(0)]));
        out.push(Group(vec![t1(0), a, b]));
    }
    // the inner groups on their own and next to an unrelated element (no clash: sanity)
    for e in [nb_k, nb_id, nb_x, ub, gb_var, gb_iri] {
        out.push(Group(vec![e.clone()]));
        out.push(Group(vec![t1(0), e.clone()]));
        out.push(Group(vec![e, t1(6)]));
    }
    out
}

/// A braced group that contains ONLY a BIND over constants, next to an element binding the same
/// variable: `{ ?s q ?v . { BIND(CONCAT("1","") AS ?v) } }` = Join(BGP, Extend(unit, v, "1")).
/// Kept apart from the shared list because C16's tree comparison (correctly) distinguishes
/// `{ BIND }` from an inline BIND, which the parser does not.
pub fn lone_bind_bases() -> Vec<Group> {
    let lone = |args: Vec<T>, out: &str| Elem::Nested(g(vec![Elem::Bind(args, out.into())]));
    let mut out = Vec::new();
    for (args, var, sib) in [
        (vec![l("1"), l("")], "v", t1(1)),
        (vec![l("2"), l("")], "v", t1(1)),
        (vec![l("1"), l("k")], "n", Elem::Values(vec!["n".into()], vec![vec![Some(l("1k"))], vec![Some(l("2k"))]])),
        (vec![l("9"), l("")], "v", t1(1)),
    ] {
        out.push(Group(vec![sib.clone(), lone(args.clone(), var)]));
        out.push(Group(vec![lone(args.clone(), var), sib.clone()]));
        out.push(Group(vec![t1(0), sib, lone(args, var)]));
    }
    out.push(Group(vec![lone(vec![l("a"), l("b")], "n")]));
    out.push(Group(vec![t1(0), lone(vec![l("a"), l("b")], "n")]));
    out
}

/// Subject stars (>= 3 default-scope patterns sharing the subject variable: the optimizer's
/// StarJoin rewrite fires syntactically, whatever the statistics) under FILTER (Selection over a
/// star = Filter(StarJoin)), under FROM (merged default graphs inside the star executor), split
/// over two triples blocks, and two stars in one group.
pub fn star_bases() -> Vec<Group> {
    let spo = tp(v("s"), i(P), v("o"));
    let spz = tp(v("s"), i(P), v("z"));
    let svy = tp(v("s"), v("pp"), v("y"));
    vec![
        g(vec![tn(&[0, 1, 11])]),
        g(vec![tn(&[0, 1]), t1(11)]),
        // a star that is non-empty on merged FROM graphs (no q triples needed)
        g(vec![Elem::Triples(vec![spo.clone(), spz.clone(), svy.clone()])]),
        // two stars: on ?s and on ?o
        g(vec![Elem::Triples(vec![spo.clone(), tpq("s", "v"), tpq("s", "w"), tp(v("o"), i(P), v("z")), tpq("o", "y"), tpq("o", "u")])]),
        // star + one leftover pattern joined through the object
        g(vec![Elem::Triples(vec![spo, tpq("s", "v"), tpq("s", "w"), tpq("o", "y")])]),
    ]
}

/// Labelled family "errors under NOT / in BIND" - justified by the algebra's error semantics
/// (SPARQL 1.1 §17.2: an unbound variable or a failing operator raises an error; `!` of an error is
/// an error; FILTER drops the solution; Extend leaves the target unbound). Every expression only
/// mentions variables IN SCOPE of its own group (the property's quantifier) - but not certainly
/// bound ones, which is what the main enumeration restricts itself to.
pub fn error_semantics_queries() -> Vec<Select> {
    let u_vs = Elem::Union(vec![g(vec![t1(1)]), g(vec![t1(0)])]); // ?s certain, ?v / ?o possibly unbound
    let mut out = Vec::new();
    let not = |e: Expr| Expr::Not(Box::new(e));
    let filters = vec![
        not(Expr::Cmp(v("v"), Cmp::Lt, T::Num("2".into()))),
        not(Expr::Cmp(v("v"), Cmp::Eq, l("1"))),
        not(Expr::Cmp(v("o"), Cmp::Eq, i(B))),
        not(Expr::Cmp(v("v"), Cmp::Ne, l("1"))),
        Expr::Or(Box::new(not(Expr::Cmp(v("v"), Cmp::Eq, l("1")))), Box::new(Expr::Cmp(v("s"), Cmp::Eq, i(A)))),
        Expr::And(Box::new(not(Expr::Cmp(v("o"), Cmp::Eq, i(B)))), Box::new(Expr::Cmp(v("s"), Cmp::Ne, i(C)))),
    ];
    for f in &filters {
        for pos in [0usize, 1] {
            out.push(all_vars_select(insert_at(&g(vec![u_vs.clone()]), pos, Elem::Filter(f.clone()))));
        }
        out.push(all_vars_select(g(vec![u_vs.clone(), t1(2), Elem::Filter(f.clone())])));
    }
    // division by zero under NOT, over a certainly bound numeric variable (?v = 1 divides by zero)
    let op = |t: T| Box::new(Arith::Operand(t));
    let n = |k: &str| T::Num(k.to_string());
    let div = Expr::ArithCmp(Arith::Div(op(n("6")), Box::new(Arith::Sub(op(v("v")), op(n("1"))))), Cmp::Gt, Arith::Operand(n("1")));
    out.push(all_vars_select(g(vec![t1(1), Elem::Filter(div.clone())])));
    out.push(all_vars_select(g(vec![t1(1), Elem::Filter(not(div.clone()))])));
    out.push(all_vars_select(g(vec![Elem::Filter(not(div.clone())), t1(0), t1(1)])));
    out.push(all_vars_select(g(vec![t1(1), Elem::Filter(Expr::Or(Box::new(not(div)), Box::new(Expr::Cmp(v("s"), Cmp::Eq, i(A)))))])));
    // BIND whose argument is in scope but unbound in some solutions: the target stays unbound there
    for args in [vec![v("v"), l("k")], vec![l("k"), v("v")], vec![v("o"), v("v")], vec![v("s"), v("v")]] {
        out.push(all_vars_select(g(vec![u_vs.clone(), Elem::Bind(args.clone(), "n".into())])));
        out.push(all_vars_select(g(vec![u_vs.clone(), Elem::Bind(args.clone(), "n".into()), t1(2)])));
        let mut d = all_vars_select(g(vec![u_vs.clone(), Elem::Bind(args, "n".into())]));
        d.proj = Proj::Items(vec![ProjItem::Var("n".into())]);
        d.distinct = true;
        out.push(d);
    }
    out
}

/// The group with the target of every BIND that sits in an inner group (nested braces, UNION
/// branch, GRAPH) renamed to a fresh variable: used only for a vacuity counter ("does the join on
/// the BIND target discard solutions?").
pub fn rename_inner_bind_targets(group: &Group) -> Group {
    fn rec(group: &Group, depth: usize) -> Group {
        Group(
            group
                .0
                .iter()
                .map(|e| match e {
                    Elem::Bind(args, out) if depth > 0 => Elem::Bind(args.clone(), format!("{}_r", out)),
                    Elem::Nested(inner) => Elem::Nested(rec(inner, depth + 1)),
                    Elem::Graph(t, inner) => Elem::Graph(t.clone(), rec(inner, depth + 1)),
                    Elem::Union(bs) => Elem::Union(bs.iter().map(|b| rec(b, depth + 1)).collect()),
                    other => other.clone(),
                })
                .collect(),
        )
    }
    rec(group, 0)
}

/// The group without any FILTER (vacuity counters: "does the filter remove solutions?").
pub fn strip_filters(group: &Group) -> Group {
    Group(
        group
            .0
            .iter()
            .filter(|e| !matches!(e, Elem::Filter(_)))
            .map(|e| match e {
                Elem::Nested(inner) => Elem::Nested(strip_filters(inner)),
                Elem::Graph(t, inner) => Elem::Graph(t.clone(), strip_filters(inner)),
                Elem::Union(bs) => Elem::Union(bs.iter().map(strip_filters).collect()),
                other => other.clone(),
            })
            .collect(),
    )
}

/// Queries of the round-3 families that only C01 runs (see `lone_bind_bases`,
/// `error_semantics_queries`): not part of `queries()`, which C16/C17 also consume.
pub fn c01_only(scope: Scope) -> Vec<Select> {
    let mut out: Vec<Select> = Vec::new();
    if scope == Scope::Tiny {
        return out;
    }
    let mut seen = BTreeSet::new();
    for s in lone_bind_bases().into_iter().map(all_vars_select).chain(error_semantics_queries()) {
        if seen.insert(print_select(&s, Layout::Canonical)) {
            out.push(s);
        }
    }
    out
}

#[derive(Clone, Copy, PartialEq, Eq, Debug)]
pub enum Scope {
    /// C01 quick
    Quick,
    /// C01 thorough
    Thorough,
    /// a few hundred queries covering every construct once (C16/C17 seeds, C02 extras)
    Tiny,
}

/// The deterministic query list of a scope.
pub fn queries(scope: Scope) -> Vec<Select> {
    let mut out: Vec<Select> = Vec::new();
    let mut seen = BTreeSet::new();
    let push_all = |list: Vec<Select>, out: &mut Vec<Select>, seen: &mut BTreeSet<String>| {
        for s in list {
            if !well_formed(&s.pattern) {
                continue;
            }
            let key = print_select(&s, Layout::Canonical);
            if seen.insert(key) {
                out.push(s);
            }
        }
    };
    let wide = elements(scope == Scope::Thorough);
    let core = core_elements();
    match scope {
        Scope::Tiny => {
            let singles: Vec<Group> = wide.iter().map(|e| Group(vec![e.clone()])).collect();
            push_all(singles.iter().cloned().map(all_vars_select).collect(), &mut out, &mut seen);
            let small: Vec<Group> = vec![g(vec![t1(0), t1(1)]), g(vec![t1(1)]), g(vec![t1(0), t1(2)])];
            let mut dec = Vec::new();
            decorate(&small, &mut dec);
            modifiers(&small, &mut dec);
            push_all(dec, &mut out, &mut seen);
            // round 3: one of each new shared shape
            let mut r3: Vec<Select> = bind_scope_bases().into_iter().step_by(23).map(all_vars_select).collect();
            r3.extend(star_bases().into_iter().skip(2).take(2).map(all_vars_select));
            push_all(r3, &mut out, &mut seen);
        }
        Scope::Quick | Scope::Thorough => {
            // all base groups of <= 2 elements over the wide element list
            let base2 = sequences(&wide, 2);
            push_all(base2.iter().cloned().map(all_vars_select).collect(), &mut out, &mut seen);
            // depth 3 over the core list (thorough)
            if scope == Scope::Thorough {
                let base3 = sequences(&core, 3);
                push_all(base3.into_iter().filter(|g| g.0.len() == 3).map(all_vars_select).collect(), &mut out, &mut seen);
            }
            // decorations on groups of <= 2 core elements (quick: <= 2 over a narrower list)
            let deco_bases: Vec<Group> = if scope == Scope::Thorough { sequences(&core, 2) } else { sequences(&core[..12], 2) };
            let mut dec = Vec::new();
            decorate(&deco_bases, &mut dec);
            push_all(dec, &mut out, &mut seen);
            // modifiers
            let mod_bases: Vec<Group> = if scope == Scope::Thorough {
                sequences(&core, 2)
            } else {
                let mut b: Vec<Group> = core.iter().map(|e| Group(vec![e.clone()])).collect();
                b.extend(vec![g(vec![t1(0), t1(1)]), g(vec![t1(0), t1(2)]), g(vec![t1(1), t1(11)]), g(vec![t1(0), Elem::Graph(v("g"), g(vec![t1(0)]))]), g(vec![t1(1), Elem::Union(vec![g(vec![t1(0)]), g(vec![t1(6)])])])]);
                b
            };
            let mut m = Vec::new();
            modifiers(&mod_bases, &mut m);
            // dataset clauses on every pair of core elements and on the VALUES decorations of singles
            let mut dc_bases = sequences(&core, 2);
            for e in core.iter().take(8) {
                for val in values_menu() {
                    dc_bases.push(Group(vec![val.clone(), e.clone()]));
                    dc_bases.push(Group(vec![e.clone(), val.clone()]));
                }
            }
            dataset_clauses(&dc_bases, &mut m);
            push_all(m, &mut out, &mut seen);
            // round-3 families (appended last: the indexes of the earlier queries do not move)
            let mut r3: Vec<Select> = bind_scope_bases().into_iter().map(all_vars_select).collect();
            let sb = star_bases();
            r3.extend(sb.iter().cloned().map(all_vars_select));
            decorate(&sb, &mut r3);
            dataset_clauses(&sb, &mut r3);
            modifiers(&sb[..3], &mut r3);
            // FILTER over a star under FROM (merged default graphs below Filter(StarJoin))
            for base in &sb {
                let (fs, fs_end) = filters_for(base);
                for f in fs.iter().take(4).chain(fs_end.iter().take(2)) {
                    for from in [vec![G1, G2], vec![G2, G1, G2]] {
                        let mut s = all_vars_select(insert_at(base, base.0.len(), Elem::Filter(f.clone())));
                        s.from = from.iter().map(|x| x.to_string()).collect();
                        r3.push(s);
                    }
                }
            }
            push_all(r3, &mut out, &mut seen);
        }
    }
    out
}
