//! Bounded-exhaustive generator of SELECT queries of the supported fragment (shared by C01,
//! C02, C16, C17). Everything here is deterministic: the same tier yields the same list.
use super::common::*;
use crate::reference::sparql_ast::*;
use std::collections::{BTreeMap, BTreeSet};

fn v(n: &str) -> T {
    T::var(n)
}
fn i(n: &str) -> T {
    T::iri(n)
}
fn l(n: &str) -> T {
    T::lit(n)
}

/// the 12 triple-pattern templates
pub fn templates() -> Vec<TP> {
    vec![
        tp(v("s"), i(P), v("o")),  // 0
        tp(v("s"), i(Q), v("v")),  // 1
        tp(v("o"), i(P), v("z")),  // 2 chain with 0 (o-s)
        tp(v("s"), v("pp"), v("o")), // 3 variable predicate
        tp(v("x"), i(P), v("x")),  // 4 repeated variable
        tp(i(A), i(P), v("o")),    // 5 constant subject
        tp(v("s"), i(P), i(C)),    // 6 constant object
        tp(v("s"), i(Q), l("1")),  // 7 literal constant
        tp(v("o"), i(Q), v("v")),  // 8 o-s join with 0
        tp(v("z"), i(P), v("o")),  // 9 o-o join with 0
        tp(i(A), i(P), i(B)),      // 10 ground
        tp(v("s"), i(Q), v("w")),  // 11 s-s join with 1
    ]
}

fn t1(k: usize) -> Elem {
    Elem::Triples(vec![templates()[k].clone()])
}
fn tn(ks: &[usize]) -> Elem {
    Elem::Triples(ks.iter().map(|k| templates()[*k].clone()).collect())
}
fn g(e: Vec<Elem>) -> Group {
    Group(e)
}

pub fn subselects() -> Vec<Select> {
    let mut out = Vec::new();
    // S1 projection drops a variable (duplicates stay)
    out.push(Select::simple(&["s"], g(vec![t1(0)])));
    // S2 DISTINCT inside
    let mut s = Select::simple(&["s"], g(vec![t1(0)]));
    s.distinct = true;
    out.push(s);
    // S3 ORDER BY DESC + LIMIT 1 (ties are identical rows)
    let mut s = Select::simple(&["v"], g(vec![Elem::Triples(vec![tp(v("y"), i(Q), v("v"))])]));
    s.order_by = vec![("v".into(), true)];
    s.limit = Some(1);
    out.push(s);
    // S4 GROUP BY + SUM
    let mut s = Select::simple(&[], g(vec![t1(1)]));
    s.proj = Proj::Items(vec![ProjItem::Var("s".into()), ProjItem::Agg(Agg::Sum, "v".into(), "t".into())]);
    s.group_by = vec!["s".into()];
    out.push(s);
    // S5 aggregate without GROUP BY (one row even over nothing; MAX of nothing is unbound)
    let mut s = Select::simple(&[], g(vec![Elem::Triples(vec![tp(v("y"), i(Q), v("v"))])]));
    s.proj = Proj::Items(vec![ProjItem::Agg(Agg::Max, "v".into(), "m".into())]);
    out.push(s);
    // S6 ORDER BY + LIMIT 2
    let mut s = Select::simple(&["o"], g(vec![t1(0)]));
    s.order_by = vec![("o".into(), false)];
    s.limit = Some(2);
    out.push(s);
    // S7 SELECT *
    let mut s = Select::simple(&[], g(vec![t1(1)]));
    s.proj = Proj::Star;
    out.push(s);
    // S8 LIMIT 0
    let mut s = Select::simple(&["s"], g(vec![t1(0)]));
    s.limit = Some(0);
    out.push(s);
    // S9 two keys, DISTINCT, LIMIT 2
    let mut s = Select::simple(&["o", "z"], g(vec![t1(2)]));
    s.distinct = true;
    s.order_by = vec![("o".into(), false), ("z".into(), true)];
    s.limit = Some(2);
    out.push(s);
    out
}

/// Elements from which base groups are formed. `wide` adds the rarer shapes.
pub fn elements(wide: bool) -> Vec<Elem> {
    let mut e = Vec::new();
    for k in 0..12 {
        e.push(t1(k));
    }
    // multi-pattern blocks
    e.push(tn(&[0, 1]));
    e.push(tn(&[0, 2]));
    e.push(tn(&[1, 11]));
    // GRAPH
    for gt in [i(G1), v("g")] {
        e.push(Elem::Graph(gt.clone(), g(vec![])));
        for k in [0usize, 1, 3, 4] {
            e.push(Elem::Graph(gt.clone(), g(vec![t1(k)])));
        }
        e.push(Elem::Graph(gt.clone(), g(vec![tn(&[0, 2])])));
    }
    e.push(Elem::Graph(i(G2), g(vec![t1(9)])));
    e.push(Elem::Graph(i(G3), g(vec![t1(0)])));
    e.push(Elem::Graph(i(GX), g(vec![t1(0)])));
    e.push(Elem::Graph(i(G3), g(vec![])));
    // graph variable also used inside the pattern
    e.push(Elem::Graph(v("g"), g(vec![Elem::Triples(vec![tp(v("s"), i(P), v("g"))])])));
    // UNION
    let ub = [0usize, 1, 5, 6, 2];
    for a in ub {
        for b in ub {
            if !wide && a > b {
                continue;
            }
            e.push(Elem::Union(vec![g(vec![t1(a)]), g(vec![t1(b)])]));
        }
    }
    e.push(Elem::Union(vec![g(vec![t1(0)]), g(vec![Elem::Graph(v("g"), g(vec![t1(0)]))])]));
    e.push(Elem::Union(vec![g(vec![t1(0)]), g(vec![t1(6)]), g(vec![t1(5)])]));
    e.push(Elem::Union(vec![g(vec![]), g(vec![t1(10)])]));
    // nested groups
    for k in [0usize, 1, 2] {
        e.push(Elem::Nested(g(vec![t1(k)])));
    }
    e.push(Elem::Nested(g(vec![])));
    e.push(Elem::Nested(g(vec![t1(0), t1(2)])));
    // sub-selects
    for s in subselects() {
        e.push(Elem::Sub(Box::new(s)));
    }
    // GRAPH around UNION / sub-select / nested
    e.push(Elem::Graph(v("g"), g(vec![Elem::Union(vec![g(vec![t1(0)]), g(vec![t1(6)])])])));
    e.push(Elem::Graph(i(G1), g(vec![Elem::Sub(Box::new(subselects()[0].clone()))])));
    e.push(Elem::Graph(v("g"), g(vec![Elem::Sub(Box::new(subselects()[3].clone()))])));
    // inner filters (group scoping): filter inside GRAPH / UNION branch / nested group, written
    // before, between and after the patterns of that inner group
    let f_s_a = Elem::Filter(Expr::Cmp(v("s"), Cmp::Eq, i(A)));
    let f_v_gt1 = Elem::Filter(Expr::Cmp(v("v"), Cmp::Gt, T::Num("1".into())));
    let f_o_ne_b = Elem::Filter(Expr::Cmp(v("o"), Cmp::Ne, i(B)));
    e.push(Elem::Graph(v("g"), g(vec![t1(0), f_s_a.clone()])));
    e.push(Elem::Graph(i(G1), g(vec![f_v_gt1.clone(), t1(1)])));
    e.push(Elem::Union(vec![g(vec![t1(0), f_o_ne_b.clone()]), g(vec![t1(6)])]));
    e.push(Elem::Union(vec![g(vec![f_s_a.clone(), t1(0)]), g(vec![t1(1), f_v_gt1.clone()])]));
    e.push(Elem::Nested(g(vec![t1(1), f_v_gt1.clone()])));
    e.push(Elem::Nested(g(vec![t1(0), f_o_ne_b.clone(), t1(2)])));
    // (a FILTER on ?g written inside GRAPH ?g { .. } is outside the property's quantifier: ?g is not
    //  in scope of the inner group in the SPARQL algebra, so it is not generated.)
    e
}

/// Narrow element list for depth-3 products and decorations.
pub fn core_elements() -> Vec<Elem> {
    let all = elements(false);
    let mut e = Vec::new();
    for k in [0usize, 1, 2, 3, 4, 6, 8, 11] {
        e.push(t1(k));
    }
    e.push(Elem::Graph(i(G1), g(vec![t1(0)])));
    e.push(Elem::Graph(v("g"), g(vec![t1(0)])));
    e.push(Elem::Graph(v("g"), g(vec![t1(1)])));
    e.push(Elem::Graph(v("g"), g(vec![])));
    e.push(Elem::Union(vec![g(vec![t1(0)]), g(vec![t1(6)])]));
    e.push(Elem::Union(vec![g(vec![t1(1)]), g(vec![t1(0)])]));
    e.push(Elem::Union(vec![g(vec![t1(0)]), g(vec![t1(0)])]));
    e.push(Elem::Nested(g(vec![t1(2)])));
    for k in [0usize, 2, 3, 5] {
        e.push(Elem::Sub(Box::new(subselects()[k].clone())));
    }
    let _ = all;
    e
}

fn all_vars_select(group: Group) -> Select {
    let mut vars = Vec::new();
    group.visible_vars_ordered(&mut vars);
    let mut s = Select::simple(&[], group);
    if vars.is_empty() {
        s.proj = Proj::Star;
    } else {
        s.proj = Proj::Items(vars.into_iter().map(ProjItem::Var).collect());
    }
    s
}

/// Is the group inside the property's quantifier and the generator's value conventions?
/// (BIND targets fresh, sub-select columns do not clash in kind, ...)
fn well_formed(group: &Group) -> bool {
    let mut kinds = BTreeMap::new();
    group.var_kinds(Q, &mut kinds);
    // a variable used both as IRI and as number can never match; allowed (just empty), but a
    // variable of Unknown kind must not be compared/ordered — enforced where filters are built.
    let mut seen = BTreeSet::new();
    for e in &group.0 {
        if let Elem::Bind(_, o) = e {
            if seen.contains(o) {
                return false;
            }
        }
        let mut vs = Vec::new();
        Group(vec![e.clone()]).visible_vars_ordered(&mut vs);
        seen.extend(vs);
    }
    true
}

/// base groups: all sequences of length 1..=n over `elems`
fn sequences(elems: &[Elem], n: usize) -> Vec<Group> {
    let mut out: Vec<Group> = Vec::new();
    let mut level: Vec<Vec<Elem>> = vec![vec![]];
    for _ in 0..n {
        let mut next = Vec::new();
        for prefix in &level {
            for e in elems {
                let mut p = prefix.clone();
                p.push(e.clone());
                next.push(p);
            }
        }
        for p in &next {
            out.push(Group(p.clone()));
        }
        level = next;
    }
    out
}

fn filters_for(group: &Group) -> Vec<Expr> {
    let certain = group.certain_vars();
    let mut kinds = BTreeMap::new();
    group.var_kinds(Q, &mut kinds);
    let mut simple = Vec::new();
    let cv: Vec<&String> = certain.iter().collect();
    for x in &cv {
        match kinds.get(*x) {
            Some(VarKind::Iri) => {
                simple.push(Expr::Cmp(v(x), Cmp::Eq, i(A)));
                simple.push(Expr::Cmp(v(x), Cmp::Ne, i(B)));
            }
            Some(VarKind::Num) => {
                simple.push(Expr::Cmp(v(x), Cmp::Eq, l("1")));
                simple.push(Expr::Cmp(v(x), Cmp::Lt, T::Num("2".into())));
                simple.push(Expr::Cmp(v(x), Cmp::Ge, T::Num("2".into())));
            }
            Some(VarKind::Str) => {
                simple.push(Expr::Cmp(v(x), Cmp::Eq, l("1k")));
            }
            _ => {}
        }
    }
    for (a, x) in cv.iter().enumerate() {
        for y in cv.iter().skip(a + 1) {
            let (kx, ky) = (kinds.get(*x), kinds.get(*y));
            if kx == ky && matches!(kx, Some(VarKind::Iri) | Some(VarKind::Num)) {
                simple.push(Expr::Cmp(v(x), Cmp::Eq, v(y)));
                simple.push(Expr::Cmp(v(x), Cmp::Ne, v(y)));
                if kx == Some(&VarKind::Num) {
                    simple.push(Expr::Cmp(v(x), Cmp::Lt, v(y)));
                }
            }
        }
    }
    simple.truncate(7);
    // arithmetic comparisons over certainly bound numeric variables (precedence, every operator)
    let nums: Vec<&&String> = cv.iter().filter(|x| kinds.get(**x) == Some(&VarKind::Num)).collect();
    let mut arith: Vec<Expr> = Vec::new();
    let op = |t: T| Box::new(Arith::Operand(t));
    let n = |k: &str| T::Num(k.to_string());
    if let Some(x) = nums.first() {
        // (x + 1) * 2 > 4   /   x + 1 * 2 > 3 (precedence)   /   x - 1 = 0   /   x / 2 >= 1   /   6 / x != 3
        arith.push(Expr::ArithCmp(Arith::Mul(Box::new(Arith::Add(op(v(x)), op(n("1")))), op(n("2"))), Cmp::Gt, Arith::Operand(n("4"))));
        arith.push(Expr::ArithCmp(Arith::Add(op(v(x)), Box::new(Arith::Mul(op(n("1")), op(n("2"))))), Cmp::Gt, Arith::Operand(n("3"))));
        arith.push(Expr::ArithCmp(Arith::Sub(op(v(x)), op(n("1"))), Cmp::Eq, Arith::Operand(n("0"))));
        arith.push(Expr::ArithCmp(Arith::Div(op(v(x)), op(n("2"))), Cmp::Ge, Arith::Operand(n("1"))));
        arith.push(Expr::ArithCmp(Arith::Div(op(n("6")), op(v(x))), Cmp::Ne, Arith::Operand(n("3"))));
        if let Some(y) = nums.get(1) {
            arith.push(Expr::ArithCmp(Arith::Add(op(v(x)), op(v(y))), Cmp::Le, Arith::Operand(n("3"))));
            arith.push(Expr::ArithCmp(Arith::Operand(v(x)), Cmp::Lt, Arith::Mul(op(v(y)), op(n("2")))));
            arith.push(Expr::ArithCmp(Arith::Sub(op(v(x)), op(v(y))), Cmp::Eq, Arith::Sub(op(v(y)), op(v(x)))));
        }
    }
    let mut out = simple.clone();
    if simple.len() >= 2 {
        out.push(Expr::And(Box::new(simple[0].clone()), Box::new(simple[1].clone())));
        out.push(Expr::Or(Box::new(simple[0].clone()), Box::new(simple[1].clone())));
        out.push(Expr::Not(Box::new(Expr::Or(Box::new(simple[0].clone()), Box::new(simple[1].clone())))));
        let last = simple.last().unwrap().clone();
        out.push(Expr::And(Box::new(Expr::Or(Box::new(simple[0].clone()), Box::new(last))), Box::new(Expr::Not(Box::new(simple[1].clone())))));
    }
    if let Some(f) = simple.first() {
        out.push(Expr::Not(Box::new(f.clone())));
    }
    if let (Some(a), Some(f)) = (arith.first(), simple.first()) {
        out.push(Expr::And(Box::new(a.clone()), Box::new(f.clone())));
        out.push(Expr::Not(Box::new(a.clone())));
    }
    out.extend(arith);
    out
}

fn values_menu() -> Vec<Elem> {
    vec![
        Elem::Values(vec!["s".into()], vec![vec![Some(i(A))], vec![Some(i(B))]]),
        Elem::Values(vec!["s".into(), "v".into()], vec![vec![Some(i(A)), Some(l("1"))], vec![None, Some(l("2"))], vec![Some(i(B)), None]]),
        Elem::Values(vec!["u".into()], vec![vec![Some(l("1"))], vec![Some(l("1"))]]),
        Elem::Values(vec!["s".into()], vec![]),
        Elem::Values(vec!["s".into()], vec![vec![None]]),
        Elem::Values(vec!["o".into(), "s".into()], vec![vec![Some(i(B)), Some(i(A))], vec![Some(i(C)), None]]),
    ]
}

fn insert_at(group: &Group, pos: usize, e: Elem) -> Group {
    let mut v = group.0.clone();
    v.insert(pos, e);
    Group(v)
}

/// FILTER / BIND / VALUES decorations of the given base groups.
fn decorate(bases: &[Group], out: &mut Vec<Select>) {
    for base in bases {
        let n = base.0.len();
        // filters at every position
        for f in filters_for(base) {
            for pos in 0..=n {
                out.push(all_vars_select(insert_at(base, pos, Elem::Filter(f.clone()))));
            }
        }
        // two filters in one group (both deferred to the end)
        let fs = filters_for(base);
        if fs.len() >= 2 {
            let gq = insert_at(&insert_at(base, 0, Elem::Filter(fs[0].clone())), n + 1, Elem::Filter(fs[1].clone()));
            out.push(all_vars_select(gq));
        }
        // values at every position
        for val in values_menu() {
            for pos in 0..=n {
                out.push(all_vars_select(insert_at(base, pos, val.clone())));
            }
        }
        // bind after the element that certainly binds a numeric variable
        let mut kinds = BTreeMap::new();
        base.var_kinds(Q, &mut kinds);
        for (idx, e) in base.0.iter().enumerate() {
            let eg = Group(vec![e.clone()]);
            let cert = eg.certain_vars();
            for x in cert.iter().filter(|x| kinds.get(*x) == Some(&VarKind::Num)) {
                for args in [vec![v(x), l("k")], vec![l("k"), v(x)], vec![v(x), v(x)], vec![l("a"), l("b")]] {
                    for pos in (idx + 1)..=n {
                        let gb = insert_at(base, pos, Elem::Bind(args.clone(), "n".into()));
                        if !well_formed(&gb) {
                            continue;
                        }
                        out.push(all_vars_select(gb.clone()));
                        // filter on the bound value, before and after the BIND textually
                        let f = Elem::Filter(Expr::Cmp(v("n"), Cmp::Eq, l("1k")));
                        out.push(all_vars_select(insert_at(&gb, 0, f.clone())));
                        out.push(all_vars_select(insert_at(&gb, pos + 1, f)));
                    }
                }
                break;
            }
        }
    }
}

/// Solution modifiers on the given base groups.
fn modifiers(bases: &[Group], out: &mut Vec<Select>) {
    for base in bases {
        let mut vars = Vec::new();
        base.visible_vars_ordered(&mut vars);
        let certain = base.certain_vars();
        let mut kinds = BTreeMap::new();
        base.var_kinds(Q, &mut kinds);
        let full = all_vars_select(base.clone());
        // SELECT *
        let mut s = full.clone();
        s.proj = Proj::Star;
        out.push(s);
        // DISTINCT, projections of subsets, projection of a never-bound variable
        let mut s = full.clone();
        s.distinct = true;
        out.push(s);
        for x in &vars {
            let mut s = Select::simple(&[x.as_str()], base.clone());
            out.push(s.clone());
            s.distinct = true;
            out.push(s);
        }
        if vars.len() >= 2 {
            let mut s = Select::simple(&[vars[1].as_str(), vars[0].as_str()], base.clone());
            out.push(s.clone());
            s.distinct = true;
            out.push(s);
        }
        if let Some(x) = vars.first() {
            out.push(Select::simple(&[x.as_str(), "nb"], base.clone()));
            out.push(Select::simple(&["nb"], base.clone()));
        }
        // dataset clauses (also applied to every pair of core elements, see `dataset_clauses`)
        for (from, named) in [
            (vec![G1], vec![]),
            (vec![G1, G2], vec![]),
            (vec![G2, G1, G2], vec![]),
            (vec![], vec![G1]),
            (vec![], vec![G1, G2, G3]),
            (vec![G1], vec![G2]),
            (vec![G2], vec![G1, G2]),
            (vec![GX], vec![]),
            (vec![G3], vec![G1]),
        ] {
            let mut s = full.clone();
            s.from = from.iter().map(|x| x.to_string()).collect();
            s.from_named = named.iter().map(|x| x.to_string()).collect();
            out.push(s.clone());
            s.distinct = true;
            out.push(s);
        }
        // LIMIT without ORDER BY
        for lim in [0usize, 1, 2] {
            let mut s = full.clone();
            s.limit = Some(lim);
            out.push(s.clone());
            s.distinct = true;
            out.push(s);
        }
        // ORDER BY on certainly bound variables of one kind
        let orderable: Vec<&String> = vars.iter().filter(|x| certain.contains(*x) && matches!(kinds.get(*x), Some(VarKind::Iri) | Some(VarKind::Num))).collect();
        for x in &orderable {
            for desc in [false, true] {
                for lim in [None, Some(0usize), Some(1), Some(2)] {
                    let mut s = full.clone();
                    s.order_by = vec![((*x).clone(), desc)];
                    s.limit = lim;
                    out.push(s.clone());
                    if lim != Some(0) {
                        s.distinct = true;
                        out.push(s.clone());
                        // projected onto the key only (ties become identical rows)
                        let mut s2 = Select::simple(&[x.as_str()], base.clone());
                        s2.order_by = vec![((*x).clone(), desc)];
                        s2.limit = lim;
                        out.push(s2.clone());
                        s2.distinct = true;
                        out.push(s2);
                    }
                }
            }
        }
        if orderable.len() >= 2 {
            let mut s = full.clone();
            s.order_by = vec![(orderable[0].clone(), true), (orderable[1].clone(), false)];
            out.push(s.clone());
            s.limit = Some(2);
            out.push(s);
        }
        // aggregates
        let nums: Vec<&String> = vars.iter().filter(|x| certain.contains(*x) && kinds.get(*x) == Some(&VarKind::Num)).collect();
        let iris: Vec<&String> = vars.iter().filter(|x| certain.contains(*x) && kinds.get(*x) == Some(&VarKind::Iri)).collect();
        if let Some(x) = nums.first() {
            let mut s = Select::simple(&[], base.clone());
            s.proj = Proj::Items(vec![
                ProjItem::Agg(Agg::Sum, (*x).clone(), "t".into()),
                ProjItem::Agg(Agg::Min, (*x).clone(), "lo".into()),
                ProjItem::Agg(Agg::Max, (*x).clone(), "hi".into()),
                ProjItem::Agg(Agg::Avg, (*x).clone(), "av".into()),
            ]);
            out.push(s);
            for key in iris.iter().take(2) {
                for f in [Agg::Sum, Agg::Min, Agg::Max, Agg::Avg] {
                    let mut s = Select::simple(&[], base.clone());
                    s.proj = Proj::Items(vec![ProjItem::Var((*key).clone()), ProjItem::Agg(f, (*x).clone(), "t".into())]);
                    s.group_by = vec![(*key).clone()];
                    out.push(s.clone());
                    s.order_by = vec![("t".into(), true)];
                    out.push(s.clone());
                    s.order_by = vec![((*key).clone(), false)];
                    s.limit = Some(1);
                    out.push(s);
                }
            }
            if iris.len() >= 2 {
                let mut s = Select::simple(&[], base.clone());
                s.proj = Proj::Items(vec![ProjItem::Var(iris[0].clone()), ProjItem::Var(iris[1].clone()), ProjItem::Agg(Agg::Sum, (*x).clone(), "t".into())]);
                s.group_by = vec![iris[0].clone(), iris[1].clone()];
                out.push(s);
            }
        }
    }
}

/// FROM / FROM NAMED replacement datasets on the given base groups (merged default graphs meet
/// joins, unions, VALUES and sub-selects here, not only single patterns).
fn dataset_clauses(bases: &[Group], out: &mut Vec<Select>) {
    for base in bases {
        let full = all_vars_select(base.clone());
        for (from, named) in [(vec![G1, G2], vec![]), (vec![G2, G1, G2], vec![G1]), (vec![G1], vec![G2]), (vec![], vec![G1, G2])] {
            let mut s = full.clone();
            s.from = from.iter().map(|x| x.to_string()).collect();
            s.from_named = named.iter().map(|x| x.to_string()).collect();
            out.push(s);
        }
    }
}

#[derive(Clone, Copy, PartialEq, Eq, Debug)]
pub enum Scope {
    /// C01 quick
    Quick,
    /// C01 thorough
    Thorough,
    /// a few hundred queries covering every construct once (C16/C17 seeds, C02 extras)
    Tiny,
}

/// The deterministic query list of a scope.
pub fn queries(scope: Scope) -> Vec<Select> {
    let mut out: Vec<Select> = Vec::new();
    let mut seen = BTreeSet::new();
    let push_all = |list: Vec<Select>, out: &mut Vec<Select>, seen: &mut BTreeSet<String>| {
        for s in list {
            if !well_formed(&s.pattern) {
                continue;
            }
            let key = print_select(&s, Layout::Canonical);
            if seen.insert(key) {
                out.push(s);
            }
        }
    };
    let wide = elements(scope == Scope::Thorough);
    let core = core_elements();
    match scope {
        Scope::Tiny => {
            let singles: Vec<Group> = wide.iter().map(|e| Group(vec![e.clone()])).collect();
            push_all(singles.iter().cloned().map(all_vars_select).collect(), &mut out, &mut seen);
            let small: Vec<Group> = vec![g(vec![t1(0), t1(1)]), g(vec![t1(1)]), g(vec![t1(0), t1(2)])];
            let mut dec = Vec::new();
            decorate(&small, &mut dec);
            modifiers(&small, &mut dec);
            push_all(dec, &mut out, &mut seen);
        }
        Scope::Quick | Scope::Thorough => {
            // all base groups of <= 2 elements over the wide element list
            let base2 = sequences(&wide, 2);
            push_all(base2.iter().cloned().map(all_vars_select).collect(), &mut out, &mut seen);
            // depth 3 over the core list (thorough)
            if scope == Scope::Thorough {
                let base3 = sequences(&core, 3);
                push_all(base3.into_iter().filter(|g| g.0.len() == 3).map(all_vars_select).collect(), &mut out, &mut seen);
            }
            // decorations on groups of <= 2 core elements (quick: <= 2 over a narrower list)
            let deco_bases: Vec<Group> = if scope == Scope::Thorough { sequences(&core, 2) } else { sequences(&core[..12], 2) };
            let mut dec = Vec::new();
            decorate(&deco_bases, &mut dec);
            push_all(dec, &mut out, &mut seen);
            // modifiers
            let mod_bases: Vec<Group> = if scope == Scope::Thorough {
                sequences(&core, 2)
            } else {
                let mut b: Vec<Group> = core.iter().map(|e| Group(vec![e.clone()])).collect();
                b.extend(vec![g(vec![t1(0), t1(1)]), g(vec![t1(0), t1(2)]), g(vec![t1(1), t1(11)]), g(vec![t1(0), Elem::Graph(v("g"), g(vec![t1(0)]))]), g(vec![t1(1), Elem::Union(vec![g(vec![t1(0)]), g(vec![t1(6)])])])]);
                b
            };
            let mut m = Vec::new();
            modifiers(&mod_bases, &mut m);
            // dataset clauses on every pair of core elements and on the VALUES decorations of singles
            let mut dc_bases = sequences(&core, 2);
            for e in core.iter().take(8) {
                for val in values_menu() {
                    dc_bases.push(Group(vec![val.clone(), e.clone()]));
                    dc_bases.push(Group(vec![e.clone(), val.clone()]));
                }
            }
            dataset_clauses(&dc_bases, &mut m);
            push_all(m, &mut out, &mut seen);
        }
    }
    out
}
