//! C09 — a time window reports exactly the stream items of one aligned interval.
//! E-in: every non-decreasing timestamp sequence inside the bound x every (width, slide) is pushed
//! through a real `CSPARQLWindow<usize>` (items are their own arrival index) and every report is
//! compared with the statement-level oracle in `reference::window`.
use crate::infra::{guarded, Ctx, PropDef, ShardOut};
use crate::reference::window::{self as refw, Firing};
use kolibrie::rsp::s2r::{CSPARQLWindow, ContentContainer, Report, ReportStrategy, Tick};
use kolibrie::rsp::window_runner::{WindowRunner, WindowSpec};
use serde_json::{json, Value};
use std::collections::BTreeSet;
use std::sync::{Arc, Mutex};

pub const DEF: PropDef = PropDef {
    id: "C09",
    level: "exploration",
    rule: "case = (width, slide, non-decreasing timestamp sequence); ALL sequences of length 1..=5 over 0..=8 x width 1..=4 x slide 1..=4 (thorough: length 1..=7 over 0..=12, width/slide 1..=6), in a fixed lexicographic order, sharded by case number. Each case is executed on a fresh real CSPARQLWindow<usize> (TimeDriven tick) through four consumer paths (callback, channel, both at once, WindowRunner::push/drain) with strategy [OnWindowClose] and the full oracle (aligned interval with c<=trigger, strictly increasing trigger times, non-decreasing intervals, and - if all gaps <= slide - every NON-EMPTY closing interval reported exactly once), and additionally with the conjunctions [OnWindowClose,NonEmptyContent] and [OnWindowClose,Periodic(2)] against the first three clauses only. non-trivial = at least one report with non-empty content and >= 2 distinct timestamps; distinct = distinct (width, slide, sequence) among those (cases are pairwise distinct by construction, the count is measured with a hash set)",
    assumptions: &[
        "bounds: timestamps 0..=8 (thorough 0..=12), stream length <= 5 (thorough 7), width and slide 1..=4 (thorough 1..=6); nothing beyond is claimed",
        "a report is attributed to the add_to_window call during which the consumer received it; its triggering timestamp is that call's timestamp",
        "the completeness clause is demanded only for intervals that hold at least one item (DESIGN.md C09: an empty interval that never opened need not be reported) and only for strategy [OnWindowClose]",
        "report strategies without OnWindowClose report still-open windows by design and are outside the statement (c <= trigger time cannot hold); Tick::TupleDriven/BatchDriven never report and are not enumerated",
        "[OnWindowClose,OnContentChange] is NOT enumerated: Report::report mutates last_change while filtering a HashMap iteration, so which window reports depends on the per-process hash seed (observed: identical re-executions differ); a check of it cannot be deterministic. It can be replayed by hand (strategies=OnWindowClose+OnContentChange)",
        "reference model: harness/src/reference/window.rs (self-tested on hand-computed cases)",
    ],
    run,
    replay,
    cap_s: (50, 840),
    shards: 0,
};

#[derive(Clone, Copy, PartialEq, Eq, Debug, Hash)]
enum Path {
    Callback,
    Channel,
    Both,
    Runner,
}
const PATHS: [Path; 4] = [Path::Callback, Path::Channel, Path::Both, Path::Runner];

#[derive(Clone, Copy, PartialEq, Eq, Debug, Hash)]
enum Strat {
    Close,
    CloseNonEmpty,
    ClosePeriodic2,
    CloseOnChange,
}
const STRATS: [Strat; 3] = [Strat::Close, Strat::CloseNonEmpty, Strat::ClosePeriodic2];

impl Strat {
    fn list(self) -> Vec<ReportStrategy> {
        match self {
            Strat::Close => vec![ReportStrategy::OnWindowClose],
            Strat::CloseNonEmpty => vec![ReportStrategy::OnWindowClose, ReportStrategy::NonEmptyContent],
            Strat::ClosePeriodic2 => vec![ReportStrategy::OnWindowClose, ReportStrategy::Periodic(2)],
            Strat::CloseOnChange => vec![ReportStrategy::OnWindowClose, ReportStrategy::OnContentChange],
        }
    }
    fn name(self) -> &'static str {
        match self {
            Strat::Close => "OnWindowClose",
            Strat::CloseNonEmpty => "OnWindowClose+NonEmptyContent",
            Strat::ClosePeriodic2 => "OnWindowClose+Periodic(2)",
            Strat::CloseOnChange => "OnWindowClose+OnContentChange",
        }
    }
    fn parse(s: &str) -> Option<Strat> {
        // CloseOnChange is replayable by hand but not enumerated (see DEF.assumptions)
        [Strat::Close, Strat::CloseNonEmpty, Strat::ClosePeriodic2, Strat::CloseOnChange].into_iter().find(|x| x.name() == s)
    }
}
fn path_name(p: Path) -> &'static str {
    match p {
        Path::Callback => "callback",
        Path::Channel => "channel",
        Path::Both => "callback+channel",
        Path::Runner => "window_runner",
    }
}
fn parse_path(s: &str) -> Option<Path> {
    PATHS.iter().copied().find(|p| path_name(*p) == s)
}

fn content_of(c: &ContentContainer<usize>) -> BTreeSet<usize> {
    c.iter().copied().collect()
}

/// Feed the stream to a fresh real window; returns, per registered consumer, the reports in the
/// order that consumer saw them (two lists for `Path::Both`).
fn execute(ts: &[usize], width: usize, slide: usize, strat: Strat, path: Path) -> Vec<(&'static str, Vec<Firing>)> {
    let mut firings: Vec<Firing> = Vec::new();
    if path == Path::Runner {
        let mut r: WindowRunner<usize> = WindowRunner::new(WindowSpec { width, slide, report_strategies: strat.list(), tick: Tick::TimeDriven }, "w".to_string());
        r.start_receiver();
        for (i, &t) in ts.iter().enumerate() {
            r.push(i, t);
            for c in r.drain() {
                firings.push(Firing { at: i, content: content_of(&c) });
            }
        }
        return vec![("channel", firings)];
    }
    let mut report = Report::new();
    for s in strat.list() {
        report.add(s);
    }
    let mut w: CSPARQLWindow<usize> = CSPARQLWindow::new(width, slide, report, Tick::TimeDriven, "w".to_string());
    let sink: Arc<Mutex<Vec<BTreeSet<usize>>>> = Arc::new(Mutex::new(Vec::new()));
    if path == Path::Callback || path == Path::Both {
        let s2 = Arc::clone(&sink);
        w.register_callback(Box::new(move |c: ContentContainer<usize>| s2.lock().unwrap().push(content_of(&c))));
    }
    let rx = if path == Path::Channel || path == Path::Both { Some(w.register()) } else { None };
    let mut chan_firings: Vec<Firing> = Vec::new();
    for (i, &t) in ts.iter().enumerate() {
        w.add_to_window(i, t);
        for c in sink.lock().unwrap().drain(..) {
            firings.push(Firing { at: i, content: c });
        }
        if let Some(rx) = &rx {
            while let Ok(c) = rx.try_recv() {
                chan_firings.push(Firing { at: i, content: content_of(&c) });
            }
        }
    }
    match path {
        Path::Channel => vec![("channel", chan_firings)],
        Path::Both => vec![("callback", firings), ("channel", chan_firings)],
        _ => vec![("callback", firings)],
    }
}

fn case_json(ts: &[usize], width: usize, slide: usize, strat: Strat, path: Path) -> Value {
    json!({"width": width, "slide": slide, "ts": ts, "strategies": strat.name(), "path": path_name(path)})
}

/// structural facts about the case (never about a known defect)
fn tags(ts: &[usize], width: usize, slide: usize, strat: Strat, path: Path) -> Vec<String> {
    let mut t = vec![format!("strategies={}", strat.name()), format!("path={}", path_name(path))];
    t.push(if width < slide { "width_lt_slide" } else if width % slide == 0 { "width_multiple_of_slide" } else { "width_gt_slide_not_multiple" }.to_string());
    if ts.windows(2).any(|w| w[0] == w[1]) {
        t.push("has_duplicate_timestamps".into());
    }
    if refw::all_gaps_at_most(ts, slide) {
        t.push("all_gaps_le_slide".into());
    } else {
        t.push("has_gap_gt_slide".into());
    }
    if ts.windows(2).any(|w| w[1] - w[0] > width) {
        t.push("has_gap_gt_width".into());
    }
    if ts.first() == Some(&0) {
        t.push("first_ts_zero".into());
    }
    t
}

type Observation = Result<Vec<(&'static str, Vec<Firing>)>, String>;

fn observe(ts: &[usize], width: usize, slide: usize, strat: Strat, path: Path) -> Observation {
    guarded(|| execute(ts, width, slide, strat, path))
}

fn fmt_firings(ts: &[usize], f: &[Firing]) -> Vec<Value> {
    f.iter().map(|x| json!({"trigger_ts": ts[x.at.min(ts.len() - 1)], "arrival": x.at, "items": x.content})).collect()
}

/// verdicts for one (case, strategy, path): one per consumer list; Err((symptom, detail, extra tag))
fn judge(ts: &[usize], width: usize, slide: usize, strat: Strat, obs: &Observation) -> Vec<Result<refw::Stats, (String, String, String)>> {
    match obs {
        Err(p) => vec![Err(("panic".into(), p.clone(), "consumer=none".into()))],
        Ok(lists) => lists
            .iter()
            .map(|(consumer, f)| {
                refw::check(ts, width, slide, f, strat == Strat::Close).map_err(|(sym, det)| (sym, format!("[{} consumer] {} | all reports seen by it: {}", consumer, det, Value::Array(fmt_firings(ts, f))), format!("consumer={}", consumer)))
            })
            .collect(),
    }
}

/// run one case through every strategy and path; returns the [OnWindowClose]/callback observation
fn run_case(ts: &[usize], width: usize, slide: usize, out: &mut ShardOut, only: Option<(Strat, Path)>) -> Option<(Vec<Firing>, refw::Stats)> {
    let mut main: Option<(Vec<Firing>, refw::Stats)> = None;
    let combos: Vec<(Strat, Path)> = match only {
        Some(o) => vec![o],
        None => STRATS.iter().flat_map(|s| PATHS.iter().map(move |p| (*s, *p))).collect(),
    };
    let mut first_list: Option<(Strat, Vec<Firing>)> = None;
    {
        for (strat, path) in combos {
            if first_list.as_ref().map_or(false, |f| f.0 != strat) {
                first_list = None;
            }
            let obs = observe(ts, width, slide, strat, path);
            out.count("window_runs", 1);
            let verdicts = judge(ts, width, slide, strat, &obs);
            let mut reexecuted = false;
            for (k, v) in verdicts.into_iter().enumerate() {
                match v {
                    Ok(st) => {
                        let f = &obs.as_ref().unwrap()[k].1;
                        // informational only: every consumer path runs the same code on the same stream, so
                        // the report lists are expected to coincide; the statement does not demand it, hence a counter
                        match &first_list {
                            Some(prev) if prev.1 != *f => out.count("consumer_paths_with_different_report_lists", 1),
                            Some(_) => {}
                            None => first_list = Some((strat, f.clone())),
                        }
                        if strat == Strat::Close {
                            if main.is_none() {
                                main = Some((f.clone(), st));
                            }
                        } else {
                            out.count("extra_strategy_reports_checked", f.len() as u64);
                        }
                    }
                    Err((symptom, detail, ctag)) => {
                        // determinism before verdict
                        if !reexecuted {
                            reexecuted = true;
                            let again = observe(ts, width, slide, strat, path);
                            if again != obs {
                                out.machinery_errors.push(format!("non-deterministic re-execution of {}: {:?} vs {:?}", case_json(ts, width, slide, strat, path), obs, again));
                                break;
                            }
                        }
                        let mut t = tags(ts, width, slide, strat, path);
                        t.push(ctag);
                        out.fail(case_json(ts, width, slide, strat, path), &symptom, detail, t);
                    }
                }
            }
        }
    }
    main
}

/// next non-decreasing sequence over 0..=max in lexicographic order; false when exhausted
fn next_seq(seq: &mut [usize], max: usize) -> bool {
    let mut i = seq.len();
    while i > 0 {
        i -= 1;
        if seq[i] < max {
            let v = seq[i] + 1;
            for x in seq[i..].iter_mut() {
                *x = v;
            }
            return true;
        }
    }
    false
}

fn bounds(thorough: bool) -> (usize, usize, usize) {
    // (max timestamp, max length, max width/slide)
    if thorough {
        (12, 7, 6)
    } else {
        (8, 5, 4)
    }
}

fn run(ctx: &Ctx) -> ShardOut {
    let mut out = ShardOut::default();
    let (max_ts, max_len, max_ws) = bounds(ctx.thorough());
    let mut idx: u64 = 0;
    let mut total: u64 = 0;
    let mut completed_len = 0usize;
    // smallest bound first (stream length), so that a capped run still completed a stated bound
    'outer: for len in 1..=max_len {
        for width in 1..=max_ws {
            for slide in 1..=max_ws {
                let mut seq = vec![0usize; len];
                loop {
                    idx += 1;
                    total += 1;
                    if ctx.mine(idx) {
                        if idx % 512 == 0 && ctx.expired() {
                            out.capped.push(format!("wall-clock cap hit at stream length {} (all lengths <= {} completed for every width/slide)", len, completed_len));
                            break 'outer;
                        }
                        let before = out.failures_total;
                        let main = run_case(&seq, width, slide, &mut out, None);
                        out.evaluations += 1;
                        let distinct_ts = seq.iter().collect::<BTreeSet<_>>().len();
                        if let Some((f, st)) = main {
                            out.count("reports", f.len() as u64);
                            out.count("reports_nonempty", st.nonempty_firings);
                            out.count("reports_empty", f.len() as u64 - st.nonempty_firings);
                            if f.is_empty() {
                                out.count("cases_without_report", 1);
                            }
                            if st.dense {
                                out.count("cases_all_gaps_le_slide", 1);
                                out.count("closing_nonempty_intervals_demanded", st.obligations);
                            } else {
                                out.count("cases_with_gap_gt_slide", 1);
                            }
                            if st.nonempty_firings > 0 && distinct_ts >= 2 {
                                out.nontrivial(&(width, slide, &seq));
                            }
                            out.outcome(&(width, slide, &f.iter().map(|x| (seq[x.at], x.content.clone())).collect::<Vec<_>>()));
                            out.max("max_reports_in_one_case", f.len() as u64);
                            if out.failures_total == before && (idx % 9973 == 1 || (out.samples.is_empty() && st.nonempty_firings >= 2)) {
                                out.sample(json!({"width": width, "slide": slide, "ts": seq, "reports": fmt_firings(&seq, &f), "interval_ends_chosen_by_oracle": st.chosen, "closing_nonempty_intervals_demanded": st.obligations}));
                            }
                        }
                        if width < slide {
                            out.count("cases_width_lt_slide", 1);
                        } else if width % slide != 0 {
                            out.count("cases_width_not_multiple_of_slide", 1);
                        }
                        if seq.windows(2).any(|w| w[0] == w[1]) {
                            out.count("cases_with_duplicate_timestamps", 1);
                        }
                        if seq[0] > 0 {
                            out.count("cases_first_ts_gt_zero", 1);
                        }
                    }
                    if !next_seq(&mut seq, max_ts) {
                        break;
                    }
                }
            }
        }
        completed_len = len;
    }
    if ctx.shard == 0 {
        out.count("cases_in_bound", total);
    }
    out.max("max_stream_length_completed", completed_len as u64);
    out
}

fn replay(_ctx: &Ctx, case: &Value) -> ShardOut {
    let mut out = ShardOut::default();
    let ts: Vec<usize> = case["ts"].as_array().map(|a| a.iter().filter_map(|v| v.as_u64().map(|x| x as usize)).collect()).unwrap_or_default();
    let width = case["width"].as_u64().unwrap_or(0) as usize;
    let slide = case["slide"].as_u64().unwrap_or(0) as usize;
    if ts.is_empty() || width == 0 || slide == 0 || ts.windows(2).any(|w| w[0] > w[1]) {
        out.machinery_errors.push(format!("replay file does not describe a C09 case: {}", case));
        return out;
    }
    let only = match (case["strategies"].as_str().and_then(Strat::parse), case["path"].as_str().and_then(parse_path)) {
        (Some(s), Some(p)) => Some((s, p)),
        _ => None,
    };
    run_case(&ts, width, slide, &mut out, only);
    out.evaluations = 1;
    out
}
