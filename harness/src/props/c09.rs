//! C09 — a time window reports exactly the stream items of one aligned interval.
//! E-in: every non-decreasing timestamp sequence inside the bound x every (width, slide) is pushed
//! through a real `CSPARQLWindow<usize>` and every report is compared with the statement-level oracle in
//! `reference::window`. Four families: `base` (items are their own arrival index), `kinds` (every
//! deterministic / probabilistic assignment of the items: `add_probabilistic_to_window` is a second copy
//! of the membership / max-close / app_time logic), `labels` (item VALUES repeat, so a value is added to
//! a window that already holds it) and `offset` (the same streams moved to large timestamps: `scope`
//! computes in f64).
use crate::infra::{guarded, Ctx, PropDef, ShardOut};
use crate::reference::window::{self as refw, Firing};
use kolibrie::rsp::s2r::{CSPARQLWindow, ContentContainer, ProbabilisticOccurrence, Report, ReportStrategy, Tick};
use kolibrie::rsp::window_runner::{WindowRunner, WindowSpec};
use serde_json::{json, Value};
use shared::hybrid::SeedRegistry;
use shared::triple::Triple;
use std::collections::BTreeSet;
use std::sync::{Arc, Mutex};

pub const DEF: PropDef = PropDef {
    id: "C09",
    level: "exploration",
    rule: "case = (family, width, slide, non-decreasing timestamp sequence, item values, item kinds). Family base: ALL sequences of length 1..=5 over 0..=8 x width 1..=4 x slide 1..=4 (thorough: length 1..=7 over 0..=12, width/slide 1..=6), in a fixed lexicographic order, sharded by case number; items are their own arrival index. Each case is executed on a fresh real CSPARQLWindow<usize> (TimeDriven tick) through four consumer paths (callback, channel, both at once, WindowRunner::push/drain) with strategy [OnWindowClose] and the full oracle (aligned interval with c<=trigger, strictly increasing trigger times, non-decreasing intervals, and - if all gaps <= slide - every NON-EMPTY closing interval reported exactly once), and additionally with the conjunctions [OnWindowClose,NonEmptyContent], [OnWindowClose,Periodic(2)] (four paths), [OnWindowClose,OnContentChange] (callback and WindowRunner) and [OnWindowClose,NonEmptyContent,Periodic(3)] (callback) against the first three clauses only. Family kinds: the same streams of length <= 4 (thorough 5) x EVERY non-empty subset of the arrivals fed through add_probabilistic_to_window (ProbabilisticOccurrence with a fresh seed from a SeedRegistry) instead of add_to_window, paths callback+channel and WindowRunner::add_probabilistic_to_window, full oracle (content.iter() yields both kinds). Family labels: the same streams of length 2..=5 (thorough 6) x every assignment of item VALUES over 2 (thorough 3) labels up to renaming in which some value repeats; the oracle is the same statement over value sets (check_values: two intervals may have equal contents, 'exactly once' is decided by the unique order-preserving matching of non-empty reports to closing non-empty intervals). Family offset: the streams of length <= 4 (thorough 5) moved by B in {10^6+1, 1_700_000_000_003, 2^53-20} (B is not a multiple of most slides, so alignment differs from the base family), all-deterministic on callback and WindowRunner and all-probabilistic on callback+channel. non-trivial = at least one report with non-empty content and >= 2 distinct timestamps; distinct = distinct (family, width, slide, sequence, values, kinds) among those (the count is measured with a hash set)",
    assumptions: &[
        "bounds: timestamps 0..=8 (thorough 0..=12; kinds/labels/offset families 0..=8 in both tiers, offset family plus B), stream length <= 5 (thorough 7; kinds and offset 4/5, labels 5/6), width and slide 1..=4 (thorough 1..=6, new families 1..=4); nothing beyond is claimed - in particular no timestamp >= 2^53 is fed (scope() computes in f64)",
        "a report is attributed to the add_to_window / add_probabilistic_to_window call during which the consumer received it; its triggering timestamp is that call's timestamp",
        "the completeness clause is demanded only for intervals that hold at least one item (DESIGN.md C09: an empty interval that never opened need not be reported) and only for strategy [OnWindowClose]",
        "report strategies without OnWindowClose report still-open windows by design and are outside the statement (c <= trigger time cannot hold); Tick::TupleDriven/BatchDriven never report and are not enumerated; flush() reports a merged content by design and is not called",
        "[OnWindowClose,OnContentChange]: Report::report mutates last_change while filtering a HashMap iteration, so WHICH closed window reports depends on the hash order and identical re-executions differ; only the three safety clauses are judged (they must hold under every order); because run-to-run variation is a trait of this strategy, a failing observation is recorded as a verdict without demanding that it recurs (how many recur in 4 re-executions is counted), and a replay executes the case up to 512 times until a failing observation shows",
        "a window content is a SET of items: an item value that arrives twice inside one interval is one element of the report (labels family); nothing is demanded about ContentContainer's per-item timestamps, is_deterministic() or probabilistic_occurrences()",
        "reference model: harness/src/reference/window.rs (check and its generalisation check_values, both self-tested on hand-computed cases; on the base family both are evaluated and must agree, otherwise exit 2)",
    ],
    run,
    replay,
    cap_s: (50, 840),
    shards: 0,
};

#[derive(Clone, Copy, PartialEq, Eq, Debug, Hash)]
enum Path {
    Callback,
    Channel,
    Both,
    Runner,
}
const PATHS: [Path; 4] = [Path::Callback, Path::Channel, Path::Both, Path::Runner];

#[derive(Clone, Copy, PartialEq, Eq, Debug, Hash)]
enum Strat {
    Close,
    CloseNonEmpty,
    ClosePeriodic2,
    CloseOnChange,
    CloseNonEmptyPeriodic3,
}
const STRATS: [Strat; 3] = [Strat::Close, Strat::CloseNonEmpty, Strat::ClosePeriodic2];
const ALL_STRATS: [Strat; 5] = [Strat::Close, Strat::CloseNonEmpty, Strat::ClosePeriodic2, Strat::CloseOnChange, Strat::CloseNonEmptyPeriodic3];

impl Strat {
    fn list(self) -> Vec<ReportStrategy> {
        match self {
            Strat::Close => vec![ReportStrategy::OnWindowClose],
            Strat::CloseNonEmpty => vec![ReportStrategy::OnWindowClose, ReportStrategy::NonEmptyContent],
            Strat::ClosePeriodic2 => vec![ReportStrategy::OnWindowClose, ReportStrategy::Periodic(2)],
            Strat::CloseOnChange => vec![ReportStrategy::OnWindowClose, ReportStrategy::OnContentChange],
            Strat::CloseNonEmptyPeriodic3 => vec![ReportStrategy::OnWindowClose, ReportStrategy::NonEmptyContent, ReportStrategy::Periodic(3)],
        }
    }
    fn name(self) -> &'static str {
        match self {
            Strat::Close => "OnWindowClose",
            Strat::CloseNonEmpty => "OnWindowClose+NonEmptyContent",
            Strat::ClosePeriodic2 => "OnWindowClose+Periodic(2)",
            Strat::CloseOnChange => "OnWindowClose+OnContentChange",
            Strat::CloseNonEmptyPeriodic3 => "OnWindowClose+NonEmptyContent+Periodic(3)",
        }
    }
    fn parse(s: &str) -> Option<Strat> {
        ALL_STRATS.into_iter().find(|x| x.name() == s)
    }
    /// which report is chosen depends on the per-map hash order (see DEF.assumptions)
    fn order_dependent(self) -> bool {
        self == Strat::CloseOnChange
    }
}
fn path_name(p: Path) -> &'static str {
    match p {
        Path::Callback => "callback",
        Path::Channel => "channel",
        Path::Both => "callback+channel",
        Path::Runner => "window_runner",
    }
}
fn parse_path(s: &str) -> Option<Path> {
    PATHS.iter().copied().find(|p| path_name(*p) == s)
}

/// one enumerated stream
#[derive(Clone, Debug, PartialEq, Eq, Hash)]
struct Case {
    family: &'static str,
    width: usize,
    slide: usize,
    /// absolute timestamps, non-decreasing
    ts: Vec<usize>,
    /// the item fed at arrival i (its own index, except in the labels family)
    values: Vec<usize>,
    /// arrival i is fed through add_probabilistic_to_window
    prob: Vec<bool>,
}

impl Case {
    fn plain(family: &'static str, ts: &[usize], width: usize, slide: usize) -> Case {
        Case { family, width, slide, ts: ts.to_vec(), values: (0..ts.len()).collect(), prob: vec![false; ts.len()] }
    }
    fn identity_values(&self) -> bool {
        self.values.iter().enumerate().all(|(i, v)| i == *v)
    }
}

fn content_of(c: &ContentContainer<usize>) -> BTreeSet<usize> {
    c.iter().copied().collect()
}

/// Feed the stream to a fresh real window; returns, per registered consumer, the reports in the
/// order that consumer saw them (two lists for `Path::Both`).
fn execute(case: &Case, strat: Strat, path: Path) -> Vec<(&'static str, Vec<Firing>)> {
    let (width, slide) = (case.width, case.slide);
    let mut firings: Vec<Firing> = Vec::new();
    // seeds for probabilistic occurrences exactly as RSPEngine::add_probabilistic_to_stream makes them
    let mut registry = SeedRegistry::new();
    let mut occurrence = |i: usize| -> ProbabilisticOccurrence<usize> {
        let event = registry.next_event_key("s", case.ts[i]);
        let seed_id = registry.register_occurrence(event.clone(), Triple { subject: i as u32, predicate: 0, object: 0 }, 0.5).unwrap_or_else(|_| panic!("harness: SeedRegistry refused an occurrence"));
        ProbabilisticOccurrence { item: case.values[i], event, seed_id }
    };
    if path == Path::Runner {
        let mut r: WindowRunner<usize> = WindowRunner::new(WindowSpec { width, slide, report_strategies: strat.list(), tick: Tick::TimeDriven }, "w".to_string());
        r.start_receiver();
        for (i, &t) in case.ts.iter().enumerate() {
            if case.prob[i] {
                r.add_probabilistic_to_window(occurrence(i));
            } else {
                r.push(case.values[i], t);
            }
            for c in r.drain() {
                firings.push(Firing { at: i, content: content_of(&c) });
            }
        }
        return vec![("channel", firings)];
    }
    let mut report = Report::new();
    for s in strat.list() {
        report.add(s);
    }
    let mut w: CSPARQLWindow<usize> = CSPARQLWindow::new(width, slide, report, Tick::TimeDriven, "w".to_string());
    let sink: Arc<Mutex<Vec<BTreeSet<usize>>>> = Arc::new(Mutex::new(Vec::new()));
    if path == Path::Callback || path == Path::Both {
        let s2 = Arc::clone(&sink);
        w.register_callback(Box::new(move |c: ContentContainer<usize>| s2.lock().unwrap().push(content_of(&c))));
    }
    let rx = if path == Path::Channel || path == Path::Both { Some(w.register()) } else { None };
    let mut chan_firings: Vec<Firing> = Vec::new();
    for (i, &t) in case.ts.iter().enumerate() {
        if case.prob[i] {
            w.add_probabilistic_to_window(occurrence(i));
        } else {
            w.add_to_window(case.values[i], t);
        }
        for c in sink.lock().unwrap().drain(..) {
            firings.push(Firing { at: i, content: c });
        }
        if let Some(rx) = &rx {
            while let Ok(c) = rx.try_recv() {
                chan_firings.push(Firing { at: i, content: content_of(&c) });
            }
        }
    }
    match path {
        Path::Channel => vec![("channel", chan_firings)],
        Path::Both => vec![("callback", firings), ("channel", chan_firings)],
        _ => vec![("callback", firings)],
    }
}

fn case_json(case: &Case, strat: Strat, path: Path) -> Value {
    let mut v = json!({"width": case.width, "slide": case.slide, "ts": case.ts, "strategies": strat.name(), "path": path_name(path), "family": case.family});
    if !case.identity_values() {
        v["values"] = json!(case.values);
    }
    if case.prob.iter().any(|p| *p) {
        v["probabilistic"] = json!(case.prob);
    }
    v
}

/// structural facts about the case (never about a known defect)
fn tags(case: &Case, strat: Strat, path: Path) -> Vec<String> {
    let (ts, width, slide) = (&case.ts[..], case.width, case.slide);
    let mut t = vec![format!("strategies={}", strat.name()), format!("path={}", path_name(path)), format!("family={}", case.family)];
    t.push(if width < slide { "width_lt_slide" } else if width % slide == 0 { "width_multiple_of_slide" } else { "width_gt_slide_not_multiple" }.to_string());
    if ts.windows(2).any(|w| w[0] == w[1]) {
        t.push("has_duplicate_timestamps".into());
    }
    if refw::all_gaps_at_most(ts, slide) {
        t.push("all_gaps_le_slide".into());
    } else {
        t.push("has_gap_gt_slide".into());
    }
    if ts.windows(2).any(|w| w[1] - w[0] > width) {
        t.push("has_gap_gt_width".into());
    }
    if ts.first() == Some(&0) {
        t.push("first_ts_zero".into());
    }
    if ts.first().map_or(false, |t0| *t0 >= 1_000_000) {
        t.push("large_timestamps".into());
    }
    if case.prob.iter().all(|p| *p) {
        t.push("all_items_probabilistic".into());
    } else if case.prob.iter().any(|p| *p) {
        t.push("mixed_deterministic_and_probabilistic_items".into());
    } else {
        t.push("all_items_deterministic".into());
    }
    if !case.identity_values() {
        t.push("repeated_item_values".into());
    }
    t
}

type Observation = Result<Vec<(&'static str, Vec<Firing>)>, String>;

fn observe(case: &Case, strat: Strat, path: Path) -> Observation {
    guarded(|| execute(case, strat, path))
}

fn fmt_firings(ts: &[usize], f: &[Firing]) -> Vec<Value> {
    f.iter().map(|x| json!({"trigger_ts": ts[x.at.min(ts.len() - 1)], "arrival": x.at, "items": x.content})).collect()
}

/// structural facts about the failing observation (which consumer, what kind of call produced a report)
fn observation_tags(case: &Case, consumer: &str, f: &[Firing]) -> Vec<String> {
    let mut t = vec![format!("consumer={}", consumer)];
    // a report handed out by a call whose timestamp equals the previous call's timestamp: with
    // [OnWindowClose] alone the app_time guard makes this impossible
    if f.iter().any(|x| x.at > 0 && x.at < case.ts.len() && case.ts[x.at] == case.ts[x.at - 1]) {
        t.push("has_report_triggered_by_repeated_timestamp".into());
    }
    t
}

/// verdicts for one (case, strategy, path): one per consumer list; Err((symptom, detail, extra tag))
fn judge(case: &Case, strat: Strat, obs: &Observation) -> Vec<Result<refw::Stats, (String, String, Vec<String>)>> {
    match obs {
        Err(p) => vec![Err(("panic".into(), p.clone(), vec!["consumer=none".to_string()]))],
        Ok(lists) => lists
            .iter()
            .map(|(consumer, f)| {
                refw::check_values(&case.ts, &case.values, case.width, case.slide, f, strat == Strat::Close).map_err(|(sym, det)| (sym, format!("[{} consumer] {} | all reports seen by it: {}", consumer, det, Value::Array(fmt_firings(&case.ts, f))), observation_tags(case, consumer, f)))
            })
            .collect(),
    }
}

fn fails(case: &Case, strat: Strat, obs: &Observation) -> bool {
    judge(case, strat, obs).iter().any(|v| v.is_err())
}

/// run one case through the given (strategy, path) combinations; returns the first [OnWindowClose] observation
/// `order_tries`: how many executions an order-dependent strategy gets to show a failing observation (1 in the
/// enumeration, many in replay: whether a recorded failure shows again depends on the hash order)
fn run_case(case: &Case, out: &mut ShardOut, combos: &[(Strat, Path)], order_tries: usize) -> Option<(Vec<Firing>, refw::Stats)> {
    let mut main: Option<(Vec<Firing>, refw::Stats)> = None;
    let mut first_list: Option<(Strat, Vec<Firing>)> = None;
    for &(strat, path) in combos {
        if first_list.as_ref().map_or(false, |f| f.0 != strat) {
            first_list = None;
        }
        let mut obs = observe(case, strat, path);
        out.count("window_runs", 1);
        if strat.order_dependent() {
            let mut n = 1;
            while n < order_tries && !fails(case, strat, &obs) {
                obs = observe(case, strat, path);
                n += 1;
            }
        }
        let verdicts = judge(case, strat, &obs);
        // the two reference formulations must agree wherever both apply (unique items, small timestamps)
        if case.family == "base" {
            if let Ok(lists) = &obs {
                for ((_, f), v) in lists.iter().zip(verdicts.iter()) {
                    let old = refw::check(&case.ts, case.width, case.slide, f, strat == Strat::Close);
                    if old.is_ok() != v.is_ok() || old.as_ref().ok().map(|s| s.obligations) != v.as_ref().ok().map(|s| s.obligations) {
                        out.machinery_errors.push(format!("reference models check / check_values disagree on {}: {:?} vs {:?}", case_json(case, strat, path), old.map(|s| s.obligations).map_err(|e| e.0), v.as_ref().map(|s| s.obligations).map_err(|e| e.0.clone())));
                    }
                }
            }
        }
        let mut reexecuted = false;
        for (k, v) in verdicts.into_iter().enumerate() {
            match v {
                Ok(st) => {
                    let f = &obs.as_ref().unwrap()[k].1;
                    // informational only: every consumer path runs the same code on the same stream, so
                    // the report lists are expected to coincide; the statement does not demand it, hence a counter
                    if !strat.order_dependent() {
                        match &first_list {
                            Some(prev) if prev.1 != *f => out.count("consumer_paths_with_different_report_lists", 1),
                            Some(_) => {}
                            None => first_list = Some((strat, f.clone())),
                        }
                    }
                    if strat == Strat::Close {
                        if main.is_none() {
                            main = Some((f.clone(), st));
                        }
                    } else {
                        out.count("extra_strategy_reports_checked", f.len() as u64);
                        if strat.order_dependent() {
                            out.count("onchange_reports_checked", f.len() as u64);
                        }
                    }
                }
                Err((symptom, detail, ctag)) => {
                    // determinism before verdict
                    if !reexecuted {
                        reexecuted = true;
                        if strat.order_dependent() {
                            // run-to-run variation is a documented trait of this strategy (the hash order decides
                            // which closed window reports), so a failing observation - an execution of the real code
                            // that broke a clause which must hold under EVERY order - is a verdict even if it does
                            // not recur; how often it recurs is recorded
                            let again = (0..4).filter(|_| fails(case, strat, &observe(case, strat, path))).count() as u64;
                            out.count("onchange_failures", 1);
                            out.count(if again > 0 { "onchange_failures_recurring_in_4_reexecutions" } else { "onchange_failures_not_recurring_in_4_reexecutions" }, 1);
                        } else {
                            let again = observe(case, strat, path);
                            if again != obs {
                                out.machinery_errors.push(format!("non-deterministic re-execution of {}: {:?} vs {:?}", case_json(case, strat, path), obs, again));
                                break;
                            }
                        }
                    }
                    let mut t = tags(case, strat, path);
                    t.extend(ctag);
                    out.fail(case_json(case, strat, path), &symptom, detail, t);
                }
            }
        }
    }
    main
}

fn base_combos() -> Vec<(Strat, Path)> {
    let mut v: Vec<(Strat, Path)> = STRATS.iter().flat_map(|s| PATHS.iter().map(move |p| (*s, *p))).collect();
    v.push((Strat::CloseOnChange, Path::Callback));
    v.push((Strat::CloseOnChange, Path::Runner));
    v.push((Strat::CloseNonEmptyPeriodic3, Path::Callback));
    v
}

/// next non-decreasing sequence over 0..=max in lexicographic order; false when exhausted
fn next_seq(seq: &mut [usize], max: usize) -> bool {
    let mut i = seq.len();
    while i > 0 {
        i -= 1;
        if seq[i] < max {
            let v = seq[i] + 1;
            for x in seq[i..].iter_mut() {
                *x = v;
            }
            return true;
        }
    }
    false
}

/// next restricted-growth string (values[0] = 0, values[i] <= 1 + max of the earlier ones, < labels):
/// every assignment of at most `labels` values up to renaming, in lexicographic order
fn next_rgs(v: &mut [usize], labels: usize) -> bool {
    let mut i = v.len();
    while i > 1 {
        i -= 1;
        let m = v[..i].iter().copied().max().unwrap_or(0);
        if v[i] <= m && v[i] + 1 < labels {
            v[i] += 1;
            for x in v[i + 1..].iter_mut() {
                *x = 0;
            }
            return true;
        }
    }
    false
}

fn bounds(thorough: bool) -> (usize, usize, usize) {
    // (max timestamp, max length, max width/slide)
    if thorough {
        (12, 7, 6)
    } else {
        (8, 5, 4)
    }
}

pub const OFFSETS: [usize; 3] = [1_000_001, 1_700_000_000_003, (1usize << 53) - 20];
/// bounds shared by the kinds / labels / offset families in both tiers
const FAM_MAX_TS: usize = 8;
const FAM_MAX_WS: usize = 4;

/// counters and vacuity bookkeeping shared by all families
fn account(case: &Case, main: Option<(Vec<Firing>, refw::Stats)>, out: &mut ShardOut, failures_before: u64, want_sample: bool) {
    let fam = case.family;
    let failed = out.failures_total != failures_before;
    out.count(&format!("{}_cases", fam), 1);
    let distinct_ts = case.ts.iter().collect::<BTreeSet<_>>().len();
    let Some((f, st)) = main else { return };
    if fam == "base" {
        out.count("reports", f.len() as u64);
        out.count("reports_nonempty", st.nonempty_firings);
        out.count("reports_empty", f.len() as u64 - st.nonempty_firings);
        if f.is_empty() {
            out.count("cases_without_report", 1);
        }
        if st.dense {
            out.count("cases_all_gaps_le_slide", 1);
            out.count("closing_nonempty_intervals_demanded", st.obligations);
        } else {
            out.count("cases_with_gap_gt_slide", 1);
        }
        out.max("max_reports_in_one_case", f.len() as u64);
    } else {
        out.count(&format!("{}_reports", fam), f.len() as u64);
        out.count(&format!("{}_reports_nonempty", fam), st.nonempty_firings);
        if st.dense {
            out.count(&format!("{}_closing_nonempty_intervals_demanded", fam), st.obligations);
        }
    }
    if case.prob.iter().any(|p| *p) {
        // does the family really push probabilistic occurrences through the reporting logic?
        out.count(&format!("{}_probabilistic_items_fed", fam), case.prob.iter().filter(|p| **p).count() as u64);
        out.count(&format!("{}_reports_triggered_by_a_probabilistic_item", fam), f.iter().filter(|x| case.prob[x.at]).count() as u64);
        // a reported interval that holds an item fed as probabilistic (by arrival, via the chosen interval end)
        let mut with_prob = 0u64;
        let mut with_both = 0u64;
        for c in &st.chosen {
            let members: Vec<usize> = (0..case.ts.len()).filter(|i| case.ts[*i] < *c && case.ts[*i] + case.width >= *c).collect();
            if members.iter().any(|i| case.prob[*i]) {
                with_prob += 1;
                if members.iter().any(|i| !case.prob[*i]) {
                    with_both += 1;
                }
            }
        }
        out.count(&format!("{}_reports_holding_a_probabilistic_item", fam), with_prob);
        out.count(&format!("{}_reports_holding_both_kinds", fam), with_both);
    }
    if !case.identity_values() {
        // does a value really arrive in a window that already holds it (ContentContainer and_modify)?
        let mut repeated = 0u64;
        for c in &st.chosen {
            let members: Vec<usize> = (0..case.ts.len()).filter(|i| case.ts[*i] < *c && case.ts[*i] + case.width >= *c).map(|i| case.values[i]).collect();
            let distinct = members.iter().collect::<BTreeSet<_>>().len();
            if distinct < members.len() {
                repeated += 1;
            }
        }
        out.count("labels_reports_of_an_interval_holding_a_value_twice", repeated);
        if repeated > 0 {
            out.count("labels_cases_with_a_value_twice_in_a_reported_interval", 1);
        }
        let eq = refw::equal_content_obligations(&case.ts, &case.values, case.width, case.slide);
        if eq > 0 {
            out.count("labels_cases_with_two_demanded_intervals_of_equal_content", 1);
        }
    }
    if st.nonempty_firings > 0 && distinct_ts >= 2 {
        out.nontrivial(&(fam, case.width, case.slide, &case.ts, &case.values, &case.prob));
    }
    out.outcome(&(case.width, case.slide, &f.iter().map(|x| (case.ts[x.at], x.content.clone())).collect::<Vec<_>>()));
    if !failed && want_sample {
        out.sample(json!({"family": fam, "width": case.width, "slide": case.slide, "ts": case.ts, "values": case.values, "probabilistic": case.prob, "reports": fmt_firings(&case.ts, &f), "interval_ends_chosen_by_oracle": st.chosen, "closing_nonempty_intervals_demanded": st.obligations}));
    }
}

fn run(ctx: &Ctx) -> ShardOut {
    let mut out = ShardOut::default();
    let (max_ts, max_len, max_ws) = bounds(ctx.thorough());
    let mut idx: u64 = 0;
    let mut total: u64 = 0;
    let mut completed_len = 0usize;
    let combos = base_combos();
    let mut capped = false;
    // smallest bound first (stream length), so that a capped run still completed a stated bound
    'outer: for len in 1..=max_len {
        for width in 1..=max_ws {
            for slide in 1..=max_ws {
                let mut seq = vec![0usize; len];
                loop {
                    idx += 1;
                    total += 1;
                    if ctx.mine(idx) {
                        if idx % 512 == 0 && ctx.expired() {
                            out.capped.push(format!("wall-clock cap hit at stream length {} (all lengths <= {} completed for every width/slide)", len, completed_len));
                            capped = true;
                            break 'outer;
                        }
                        let before = out.failures_total;
                        let case = Case::plain("base", &seq, width, slide);
                        let main = run_case(&case, &mut out, &combos, 1);
                        out.evaluations += 1;
                        out.count("onchange_runs", 2);
                        let want = idx % 9973 == 1 || (out.samples.is_empty() && main.as_ref().map_or(false, |m| m.1.nonempty_firings >= 2));
                        account(&case, main, &mut out, before, want);
                        if width < slide {
                            out.count("cases_width_lt_slide", 1);
                        } else if width % slide != 0 {
                            out.count("cases_width_not_multiple_of_slide", 1);
                        }
                        if seq.windows(2).any(|w| w[0] == w[1]) {
                            out.count("cases_with_duplicate_timestamps", 1);
                        }
                        if seq[0] > 0 {
                            out.count("cases_first_ts_gt_zero", 1);
                        }
                    }
                    if !next_seq(&mut seq, max_ts) {
                        break;
                    }
                }
            }
        }
        completed_len = len;
    }
    if ctx.shard == 0 {
        out.count("cases_in_bound", total);
    }
    out.max("max_stream_length_completed", completed_len as u64);
    if capped {
        out.capped.push("families kinds, labels and offset were not started".into());
        return out;
    }

    // --- family kinds: every non-empty subset of the arrivals is fed as a probabilistic occurrence ---
    let kinds_len = if ctx.thorough() { 5 } else { 4 };
    let kinds_combos = [(Strat::Close, Path::Both), (Strat::Close, Path::Runner)];
    let mut fam_total = 0u64;
    'kinds: for len in 1..=kinds_len {
        for width in 1..=FAM_MAX_WS {
            for slide in 1..=FAM_MAX_WS {
                let mut seq = vec![0usize; len];
                loop {
                    for mask in 1u32..(1u32 << len) {
                        idx += 1;
                        fam_total += 1;
                        if !ctx.mine(idx) {
                            continue;
                        }
                        if idx % 512 == 0 && ctx.expired() {
                            out.capped.push(format!("wall-clock cap hit in family kinds at stream length {}", len));
                            capped = true;
                            break 'kinds;
                        }
                        let mut case = Case::plain("kinds", &seq, width, slide);
                        case.prob = (0..len).map(|i| mask & (1 << i) != 0).collect();
                        let before = out.failures_total;
                        let main = run_case(&case, &mut out, &kinds_combos, 1);
                        out.evaluations += 1;
                        if case.prob.iter().any(|p| !*p) {
                            out.count("kinds_cases_mixing_both_kinds", 1);
                        }
                        let want = idx % 19997 == 3;
                        account(&case, main, &mut out, before, want);
                    }
                    if !next_seq(&mut seq, FAM_MAX_TS) {
                        break;
                    }
                }
            }
        }
    }
    if ctx.shard == 0 {
        out.count("kinds_cases_in_bound", fam_total);
    }

    // --- family labels: item values repeat ---
    let (labels_len, labels_n) = if ctx.thorough() { (6, 3) } else { (5, 2) };
    let labels_combos = [(Strat::Close, Path::Callback)];
    fam_total = 0;
    if !capped {
        'labels: for len in 2..=labels_len {
            for width in 1..=FAM_MAX_WS {
                for slide in 1..=FAM_MAX_WS {
                    let mut seq = vec![0usize; len];
                    loop {
                        let mut values = vec![0usize; len];
                        loop {
                            let distinct = values.iter().collect::<BTreeSet<_>>().len();
                            if distinct < len {
                                idx += 1;
                                fam_total += 1;
                                if ctx.mine(idx) {
                                    if idx % 512 == 0 && ctx.expired() {
                                        out.capped.push(format!("wall-clock cap hit in family labels at stream length {}", len));
                                        capped = true;
                                        break 'labels;
                                    }
                                    let mut case = Case::plain("labels", &seq, width, slide);
                                    case.values = values.clone();
                                    let before = out.failures_total;
                                    let main = run_case(&case, &mut out, &labels_combos, 1);
                                    out.evaluations += 1;
                                    let want = idx % 19997 == 5;
                                    account(&case, main, &mut out, before, want);
                                }
                            }
                            if !next_rgs(&mut values, labels_n) {
                                break;
                            }
                        }
                        if !next_seq(&mut seq, FAM_MAX_TS) {
                            break;
                        }
                    }
                }
            }
        }
        if ctx.shard == 0 {
            out.count("labels_cases_in_bound", fam_total);
        }
    }

    // --- family offset: the same streams at large timestamps ---
    let offset_len = if ctx.thorough() { 5 } else { 4 };
    let det_combos = [(Strat::Close, Path::Callback), (Strat::Close, Path::Runner), (Strat::ClosePeriodic2, Path::Callback)];
    let prob_combos = [(Strat::Close, Path::Both)];
    fam_total = 0;
    if !capped {
        'offset: for len in 1..=offset_len {
            for (bi, base) in OFFSETS.iter().enumerate() {
                for width in 1..=FAM_MAX_WS {
                    for slide in 1..=FAM_MAX_WS {
                        let mut seq = vec![0usize; len];
                        loop {
                            for all_prob in [false, true] {
                                idx += 1;
                                fam_total += 1;
                                if !ctx.mine(idx) {
                                    continue;
                                }
                                if idx % 512 == 0 && ctx.expired() {
                                    out.capped.push(format!("wall-clock cap hit in family offset at stream length {}", len));
                                    break 'offset;
                                }
                                let ts: Vec<usize> = seq.iter().map(|t| base + t).collect();
                                let mut case = Case::plain("offset", &ts, width, slide);
                                case.prob = vec![all_prob; len];
                                let before = out.failures_total;
                                let main = run_case(&case, &mut out, if all_prob { &prob_combos } else { &det_combos }, 1);
                                out.evaluations += 1;
                                out.count(&format!("offset_cases_base_{}", bi), 1);
                                if base % slide != 0 {
                                    out.count("offset_cases_base_not_multiple_of_slide", 1);
                                }
                                let want = idx % 19997 == 7;
                                account(&case, main, &mut out, before, want);
                            }
                            if !next_seq(&mut seq, FAM_MAX_TS) {
                                break;
                            }
                        }
                    }
                }
            }
        }
        if ctx.shard == 0 {
            out.count("offset_cases_in_bound", fam_total);
        }
    }
    out
}

fn replay(_ctx: &Ctx, case: &Value) -> ShardOut {
    let mut out = ShardOut::default();
    let ts: Vec<usize> = case["ts"].as_array().map(|a| a.iter().filter_map(|v| v.as_u64().map(|x| x as usize)).collect()).unwrap_or_default();
    let width = case["width"].as_u64().unwrap_or(0) as usize;
    let slide = case["slide"].as_u64().unwrap_or(0) as usize;
    if ts.is_empty() || width == 0 || slide == 0 || ts.windows(2).any(|w| w[0] > w[1]) {
        out.machinery_errors.push(format!("replay file does not describe a C09 case: {}", case));
        return out;
    }
    let family = ["base", "kinds", "labels", "offset"].into_iter().find(|f| Some(*f) == case["family"].as_str()).unwrap_or("base");
    let mut c = Case::plain(family, &ts, width, slide);
    if let Some(a) = case["values"].as_array() {
        let v: Vec<usize> = a.iter().filter_map(|x| x.as_u64().map(|y| y as usize)).collect();
        if v.len() != ts.len() {
            out.machinery_errors.push(format!("replay file: values and ts differ in length: {}", case));
            return out;
        }
        c.values = v;
    }
    if let Some(a) = case["probabilistic"].as_array() {
        let v: Vec<bool> = a.iter().filter_map(|x| x.as_bool()).collect();
        if v.len() != ts.len() {
            out.machinery_errors.push(format!("replay file: probabilistic and ts differ in length: {}", case));
            return out;
        }
        c.prob = v;
    }
    // the cross-check against the older reference formulation only applies to unique items at small timestamps
    if c.family == "base" && (!c.identity_values() || c.prob.iter().any(|p| *p) || ts.last().map_or(false, |t| *t > 1000)) {
        c.family = "labels";
    }
    let combos: Vec<(Strat, Path)> = match (case["strategies"].as_str().and_then(Strat::parse), case["path"].as_str().and_then(parse_path)) {
        (Some(s), Some(p)) => vec![(s, p)],
        _ => base_combos(),
    };
    run_case(&c, &mut out, &combos, 512);
    out.evaluations = 1;
    out
}
