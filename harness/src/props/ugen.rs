//! The update-request alphabet shared by C03, C16 and C17: the six supported forms over default
//! and named graphs (as ASTs, simplest first) plus malformed / rejected requests (as raw text).
use super::common::*;
use crate::reference::sparql_ast::*;

fn v(n: &str) -> T {
    T::var(n)
}
fn i(n: &str) -> T {
    T::iri(n)
}
fn dq(s: T, p: T, o: T) -> QuadT {
    QuadT { g: None, t: tp(s, p, o) }
}
fn gq(g: T, s: T, p: T, o: T) -> QuadT {
    QuadT { g: Some(g), t: tp(s, p, o) }
}
fn bgp(ts: Vec<TP>) -> Group {
    Group(vec![Elem::Triples(ts)])
}

#[derive(Clone, Debug)]
pub enum Req {
    /// well-formed request (the reference decides whether it is accepted, e.g. variable in INSERT DATA)
    Ast(Update),
    /// raw text that the standard update entry point must refuse
    Rejected(&'static str, String),
}

impl Req {
    pub fn text(&self) -> String {
        match self {
            Req::Ast(u) => print_update(u, Layout::Canonical),
            Req::Rejected(_, t) => t.clone(),
        }
    }
    pub fn label(&self) -> String {
        match self {
            Req::Ast(u) => match u {
                Update::InsertData(_) => "insert_data".into(),
                Update::DeleteData(_) => "delete_data".into(),
                Update::Modify { delete: Some(_), insert: Some(_), .. } => "delete_insert_where".into(),
                Update::Modify { delete: Some(_), insert: None, .. } => "delete_where_template".into(),
                Update::Modify { delete: None, .. } => "insert_where".into(),
                Update::DeleteWhere(_) => "delete_where_shorthand".into(),
            },
            Req::Rejected(l, _) => format!("rejected:{}", l),
        }
    }
}

pub fn valid_updates() -> Vec<Update> {
    let spo = || tp(v("s"), i(P), v("o"));
    vec![
        // DATA forms
        Update::InsertData(vec![dq(i(A), i(P), i(B))]),
        Update::InsertData(vec![gq(i(G1), i(A), i(P), i(B))]),
        Update::InsertData(vec![dq(i(B), i(P), i(C)), gq(i(G1), i(B), i(P), i(C)), dq(i(A), i(P), T::lit("1"))]),
        Update::DeleteData(vec![dq(i(A), i(P), i(B))]),
        Update::DeleteData(vec![gq(i(G1), i(A), i(P), i(B))]),
        // self-referential insert
        Update::Modify { delete: None, insert: Some(vec![dq(v("o"), i(P), v("s"))]), pattern: bgp(vec![spo()]) },
        // delete everything matching
        Update::Modify { delete: Some(vec![dq(v("s"), i(P), v("o"))]), insert: None, pattern: bgp(vec![spo()]) },
        // swap: needs single pre-state WHERE evaluation and delete-before-insert
        Update::Modify { delete: Some(vec![dq(v("s"), i(P), v("o"))]), insert: Some(vec![dq(v("o"), i(P), v("s"))]), pattern: bgp(vec![spo()]) },
        // graph variable in template and pattern
        Update::Modify {
            delete: None,
            insert: Some(vec![gq(v("g"), v("s"), i(P), v("s"))]),
            pattern: Group(vec![Elem::Graph(v("g"), bgp(vec![spo()]))]),
        },
        // copy default graph into g2
        Update::Modify { delete: None, insert: Some(vec![gq(i(G2), v("s"), i(P), v("o"))]), pattern: bgp(vec![spo()]) },
        // empty g1
        Update::Modify { delete: Some(vec![gq(i(G1), v("s"), i(P), v("o"))]), insert: None, pattern: Group(vec![Elem::Graph(i(G1), bgp(vec![spo()]))]) },
        // DELETE WHERE shorthand, default and named graph
        Update::DeleteWhere(vec![dq(v("s"), i(P), i(B))]),
        Update::DeleteWhere(vec![gq(i(G1), v("s"), i(P), v("o"))]),
        // blank node used twice inside one solution, fresh per solution
        Update::Modify {
            delete: None,
            insert: Some(vec![dq(v("s"), i(P), T::Bnode("n".into())), dq(T::Bnode("n".into()), i(P), v("o"))]),
            pattern: bgp(vec![tp(v("s"), i(P), i(C))]),
        },
        // identical solutions in the WHERE multiset: every solution still gets its own blank node
        Update::Modify {
            delete: None,
            insert: Some(vec![dq(T::Bnode("m".into()), i(P), v("s"))]),
            pattern: Group(vec![Elem::Union(vec![bgp(vec![tp(v("s"), i(P), i(B))]), bgp(vec![tp(v("s"), i(P), i(B))])])]),
        },
        Update::Modify {
            delete: None,
            insert: Some(vec![gq(i(G1), v("s"), i(P), T::Bnode("k".into()))]),
            pattern: Group(vec![Elem::Values(vec!["s".into()], vec![vec![Some(i(A))], vec![Some(i(A))]])]),
        },
        // unbound template variable: skipped per solution
        Update::Modify { delete: None, insert: Some(vec![dq(v("s"), i(P), v("nb")), dq(v("s"), i(P), i(A))]), pattern: bgp(vec![tp(v("s"), i(P), i(B))]) },
        // variable bound to a literal in subject position: skipped per solution
        Update::Modify { delete: None, insert: Some(vec![dq(v("o"), i(P), i(C))]), pattern: bgp(vec![spo()]) },
        // WHERE with FILTER
        Update::Modify {
            delete: Some(vec![dq(v("s"), i(P), v("o"))]),
            insert: Some(vec![dq(v("s"), i(P), i(C))]),
            pattern: Group(vec![Elem::Triples(vec![spo()]), Elem::Filter(Expr::Cmp(v("o"), Cmp::Ne, i(C)))]),
        },
        // WHERE with UNION
        Update::Modify {
            delete: None,
            insert: Some(vec![dq(v("s"), i(P), i(A))]),
            pattern: Group(vec![Elem::Union(vec![bgp(vec![tp(v("s"), i(P), i(B))]), bgp(vec![tp(v("s"), i(P), i(C))])])]),
        },
        // WHERE with VALUES
        Update::Modify { delete: None, insert: Some(vec![dq(v("s"), i(P), i(B))]), pattern: Group(vec![Elem::Values(vec!["s".into()], vec![vec![Some(i(A))], vec![Some(i(C))]])]) },
        // two-pattern delete
        Update::Modify { delete: Some(vec![dq(v("s"), i(P), v("o"))]), insert: None, pattern: bgp(vec![spo(), tp(v("o"), i(P), v("z"))]) },
        // empty WHERE: exactly one solution
        Update::Modify { delete: None, insert: Some(vec![dq(i(A), i(P), i(C))]), pattern: Group(vec![]) },
        // move default graph content into g1
        Update::Modify { delete: Some(vec![dq(v("s"), i(P), v("o"))]), insert: Some(vec![gq(i(G1), v("s"), i(P), v("o"))]), pattern: bgp(vec![spo()]) },
        // delete from every named graph what the default graph holds
        Update::Modify {
            delete: Some(vec![gq(v("g"), v("s"), i(P), v("o"))]),
            insert: None,
            pattern: Group(vec![Elem::Triples(vec![spo()]), Elem::Graph(v("g"), bgp(vec![spo()]))]),
        },
        // requests the reference rejects (syntactic validation of DATA blocks / DELETE templates)
        Update::InsertData(vec![dq(v("s"), i(P), i(B))]),
        Update::DeleteData(vec![dq(T::Bnode("b".into()), i(P), i(B))]),
        Update::Modify { delete: Some(vec![dq(T::Bnode("b".into()), i(P), v("o"))]), insert: None, pattern: bgp(vec![spo()]) },
    ]
}

pub fn rejected_texts() -> Vec<(&'static str, String)> {
    vec![
        ("truncated", format!("INSERT DATA {{ <{}> <{}> ", A, P)),
        ("select_at_update_endpoint", format!("SELECT ?s WHERE {{ ?s <{}> ?o }}", P)),
        ("legacy_insert_alias", format!("INSERT {{ <{}> <{}> <{}> }}", A, P, B)),
        ("legacy_delete_alias", format!("DELETE {{ <{}> <{}> <{}> }}", A, P, B)),
        ("literal_subject_in_template", format!("INSERT {{ \"1\" <{}> <{}> }} WHERE {{ }}", P, B)),
        ("garbage", "FOO BAR".to_string()),
        ("trailing_input", format!("INSERT DATA {{ <{}> <{}> <{}> }} extra", A, P, B)),
        ("empty", String::new()),
    ]
}

/// Full alphabet, simplest first.
pub fn alphabet() -> Vec<Req> {
    let mut v: Vec<Req> = valid_updates().into_iter().map(Req::Ast).collect();
    v.extend(rejected_texts().into_iter().map(|(l, t)| Req::Rejected(l, t)));
    v
}
