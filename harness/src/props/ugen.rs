//! The update-request alphabet shared by C03, C16 and C17: the six supported forms over default
//! and named graphs (as ASTs, simplest first) plus malformed / rejected requests (as raw text).
use super::common::*;
use crate::reference::sparql_ast::*;
use crate::reference::update::RELATIVE_IRIS;

/// the relative IRI of the universe: the IRIREF `<k>`, stored under the scheme-less lexical form `k`
pub const K: &str = RELATIVE_IRIS[0];

fn v(n: &str) -> T {
    T::var(n)
}
fn i(n: &str) -> T {
    T::iri(n)
}
fn dq(s: T, p: T, o: T) -> QuadT {
    QuadT { g: None, t: tp(s, p, o) }
}
fn gq(g: T, s: T, p: T, o: T) -> QuadT {
    QuadT { g: Some(g), t: tp(s, p, o) }
}
fn bgp(ts: Vec<TP>) -> Group {
    Group(vec![Elem::Triples(ts)])
}

#[derive(Clone, Debug)]
pub enum Req {
    /// well-formed request (the reference decides whether it is accepted, e.g. variable in INSERT DATA)
    Ast(Update),
    /// raw text that the standard update entry point must refuse
    Rejected(&'static str, String),
    /// hand-written request text (prologue, prefixed names, abbreviations) whose meaning is the
    /// given AST
    Raw(&'static str, String, Update),
}

fn form_label(u: &Update) -> &'static str {
    match u {
        Update::InsertData(_) => "insert_data",
        Update::DeleteData(_) => "delete_data",
        Update::Modify { delete: Some(_), insert: Some(_), .. } => "delete_insert_where",
        Update::Modify { delete: Some(_), insert: None, .. } => "delete_where_template",
        Update::Modify { delete: None, .. } => "insert_where",
        Update::DeleteWhere(_) => "delete_where_shorthand",
    }
}

impl Req {
    pub fn text(&self) -> String {
        match self {
            Req::Ast(u) => print_update(u, Layout::Canonical),
            Req::Rejected(_, t) | Req::Raw(_, t, _) => t.clone(),
        }
    }
    pub fn label(&self) -> String {
        match self {
            Req::Ast(u) => form_label(u).into(),
            Req::Rejected(l, _) => format!("rejected:{}", l),
            Req::Raw(l, _, u) => format!("{}:{}", form_label(u), l),
        }
    }
    /// the AST the reference executes; None = the request must be refused as malformed
    pub fn model(&self) -> Option<&Update> {
        match self {
            Req::Ast(u) | Req::Raw(_, _, u) => Some(u),
            Req::Rejected(..) => None,
        }
    }
}

/// Every request given as an AST: core alphabet, extension symbols, then the three requests the
/// reference itself rejects. (C16 checks the parse tree of every syntactically valid one in
/// every layout; C17 uses all of them as seeds.)
pub fn valid_updates() -> Vec<Update> {
    let mut v = core_updates();
    v.extend(extension_updates());
    v.extend(reference_rejected_updates());
    v.extend(relative_iri_updates());
    v
}

pub fn core_updates() -> Vec<Update> {
    let spo = || tp(v("s"), i(P), v("o"));
    vec![
        // DATA forms
        Update::InsertData(vec![dq(i(A), i(P), i(B))]),
        Update::InsertData(vec![gq(i(G1), i(A), i(P), i(B))]),
        Update::InsertData(vec![dq(i(B), i(P), i(C)), gq(i(G1), i(B), i(P), i(C)), dq(i(A), i(P), T::lit("1"))]),
        Update::DeleteData(vec![dq(i(A), i(P), i(B))]),
        Update::DeleteData(vec![gq(i(G1), i(A), i(P), i(B))]),
        // self-referential insert
        Update::Modify { delete: None, insert: Some(vec![dq(v("o"), i(P), v("s"))]), pattern: bgp(vec![spo()]) },
        // delete everything matching
        Update::Modify { delete: Some(vec![dq(v("s"), i(P), v("o"))]), insert: None, pattern: bgp(vec![spo()]) },
        // swap: needs single pre-state WHERE evaluation and delete-before-insert
        Update::Modify { delete: Some(vec![dq(v("s"), i(P), v("o"))]), insert: Some(vec![dq(v("o"), i(P), v("s"))]), pattern: bgp(vec![spo()]) },
        // graph variable in template and pattern
        Update::Modify {
            delete: None,
            insert: Some(vec![gq(v("g"), v("s"), i(P), v("s"))]),
            pattern: Group(vec![Elem::Graph(v("g"), bgp(vec![spo()]))]),
        },
        // copy default graph into g2
        Update::Modify { delete: None, insert: Some(vec![gq(i(G2), v("s"), i(P), v("o"))]), pattern: bgp(vec![spo()]) },
        // empty g1
        Update::Modify { delete: Some(vec![gq(i(G1), v("s"), i(P), v("o"))]), insert: None, pattern: Group(vec![Elem::Graph(i(G1), bgp(vec![spo()]))]) },
        // DELETE WHERE shorthand, default and named graph
        Update::DeleteWhere(vec![dq(v("s"), i(P), i(B))]),
        Update::DeleteWhere(vec![gq(i(G1), v("s"), i(P), v("o"))]),
        // blank node used twice inside one solution, fresh per solution
        Update::Modify {
            delete: None,
            insert: Some(vec![dq(v("s"), i(P), T::Bnode("n".into())), dq(T::Bnode("n".into()), i(P), v("o"))]),
            pattern: bgp(vec![tp(v("s"), i(P), i(C))]),
        },
        // identical solutions in the WHERE multiset: every solution still gets its own blank node
        Update::Modify {
            delete: None,
            insert: Some(vec![dq(T::Bnode("m".into()), i(P), v("s"))]),
            pattern: Group(vec![Elem::Union(vec![bgp(vec![tp(v("s"), i(P), i(B))]), bgp(vec![tp(v("s"), i(P), i(B))])])]),
        },
        Update::Modify {
            delete: None,
            insert: Some(vec![gq(i(G1), v("s"), i(P), T::Bnode("k".into()))]),
            pattern: Group(vec![Elem::Values(vec!["s".into()], vec![vec![Some(i(A))], vec![Some(i(A))]])]),
        },
        // unbound template variable: skipped per solution
        Update::Modify { delete: None, insert: Some(vec![dq(v("s"), i(P), v("nb")), dq(v("s"), i(P), i(A))]), pattern: bgp(vec![tp(v("s"), i(P), i(B))]) },
        // variable bound to a literal in subject position: skipped per solution
        Update::Modify { delete: None, insert: Some(vec![dq(v("o"), i(P), i(C))]), pattern: bgp(vec![spo()]) },
        // WHERE with FILTER
        Update::Modify {
            delete: Some(vec![dq(v("s"), i(P), v("o"))]),
            insert: Some(vec![dq(v("s"), i(P), i(C))]),
            pattern: Group(vec![Elem::Triples(vec![spo()]), Elem::Filter(Expr::Cmp(v("o"), Cmp::Ne, i(C)))]),
        },
        // WHERE with UNION
        Update::Modify {
            delete: None,
            insert: Some(vec![dq(v("s"), i(P), i(A))]),
            pattern: Group(vec![Elem::Union(vec![bgp(vec![tp(v("s"), i(P), i(B))]), bgp(vec![tp(v("s"), i(P), i(C))])])]),
        },
        // WHERE with VALUES
        Update::Modify { delete: None, insert: Some(vec![dq(v("s"), i(P), i(B))]), pattern: Group(vec![Elem::Values(vec!["s".into()], vec![vec![Some(i(A))], vec![Some(i(C))]])]) },
        // two-pattern delete
        Update::Modify { delete: Some(vec![dq(v("s"), i(P), v("o"))]), insert: None, pattern: bgp(vec![spo(), tp(v("o"), i(P), v("z"))]) },
        // empty WHERE: exactly one solution
        Update::Modify { delete: None, insert: Some(vec![dq(i(A), i(P), i(C))]), pattern: Group(vec![]) },
        // move default graph content into g1
        Update::Modify { delete: Some(vec![dq(v("s"), i(P), v("o"))]), insert: Some(vec![gq(i(G1), v("s"), i(P), v("o"))]), pattern: bgp(vec![spo()]) },
        // delete from every named graph what the default graph holds
        Update::Modify {
            delete: Some(vec![gq(v("g"), v("s"), i(P), v("o"))]),
            insert: None,
            pattern: Group(vec![Elem::Triples(vec![spo()]), Elem::Graph(v("g"), bgp(vec![spo()]))]),
        },
    ]
}

/// requests the reference rejects (syntactic validation of DATA blocks / DELETE templates)
pub fn reference_rejected_updates() -> Vec<Update> {
    let spo = || tp(v("s"), i(P), v("o"));
    vec![
        Update::InsertData(vec![dq(v("s"), i(P), i(B))]),
        Update::DeleteData(vec![dq(T::Bnode("b".into()), i(P), i(B))]),
        Update::Modify { delete: Some(vec![dq(T::Bnode("b".into()), i(P), v("o"))]), insert: None, pattern: bgp(vec![spo()]) },
    ]
}

/// Extension symbols: template positions and request shapes the core alphabet never instantiates.
/// They are kept apart because several of them create quads no core request can touch again
/// (new predicates, new graphs), which multiplies the reachable state set; C03 bounds the depth
/// of paths that contain one of them separately.
pub fn extension_updates() -> Vec<Update> {
    let spo = || tp(v("s"), i(P), v("o"));
    vec![
        // variable in PREDICATE position of a template: an IRI is a legal predicate, a literal
        // ("1") or a blank node (left behind by the blank-node templates) is an illegal triple
        // and is skipped for that solution
        Update::Modify { delete: None, insert: Some(vec![dq(v("s"), v("o"), v("s"))]), pattern: bgp(vec![spo()]) },
        // template graph variable bound by a NON-graph position: an IRI names a (possibly new)
        // graph, a literal or blank node is illegal and skipped
        Update::Modify { delete: None, insert: Some(vec![gq(v("o"), v("s"), i(P), v("s"))]), pattern: bgp(vec![spo()]) },
        // unbound variable in every template position (subject / object / graph, DELETE and
        // INSERT): each such quad is skipped - in particular an unbound variable in a DELETE
        // template is not a wildcard. With at least one solution the only effect is (s p c).
        Update::Modify {
            delete: Some(vec![dq(v("s"), i(P), v("nb")), dq(v("nb"), i(P), v("s")), gq(v("nb"), v("s"), i(P), v("o"))]),
            insert: Some(vec![dq(v("nb"), i(P), v("s")), gq(v("nb"), v("s"), i(P), v("s")), dq(v("s"), v("nb"), v("o")), dq(v("s"), i(P), i(C))]),
            pattern: bgp(vec![spo()]),
        },
        // blank nodes in INSERT DATA: fresh per request, one label shared inside the request
        Update::InsertData(vec![dq(T::Bnode("b".into()), i(P), i(C)), dq(T::Bnode("b".into()), i(P), i(A)), gq(i(G1), i(A), i(P), T::Bnode("b".into()))]),
        // multi-quad DELETE WHERE: the quad block is template AND pattern (join of two patterns)
        Update::DeleteWhere(vec![dq(v("s"), i(P), v("o")), dq(v("o"), i(P), v("z"))]),
        // DELETE WHERE mixing the default graph and a named graph
        Update::DeleteWhere(vec![dq(v("s"), i(P), v("o")), gq(i(G1), v("s"), i(P), v("o"))]),
        // DELETE WHERE with a graph variable
        Update::DeleteWhere(vec![gq(v("g"), v("s"), i(P), i(B))]),
        // blank node in a DELETE WHERE quad block: the reference rejects it
        Update::DeleteWhere(vec![dq(T::Bnode("b".into()), i(P), v("o"))]),
    ]
}

pub fn rejected_texts() -> Vec<(&'static str, String)> {
    vec![
        ("truncated", format!("INSERT DATA {{ <{}> <{}> ", A, P)),
        ("select_at_update_endpoint", format!("SELECT ?s WHERE {{ ?s <{}> ?o }}", P)),
        ("legacy_insert_alias", format!("INSERT {{ <{}> <{}> <{}> }}", A, P, B)),
        ("legacy_delete_alias", format!("DELETE {{ <{}> <{}> <{}> }}", A, P, B)),
        ("literal_subject_in_template", format!("INSERT {{ \"1\" <{}> <{}> }} WHERE {{ }}", P, B)),
        ("garbage", "FOO BAR".to_string()),
        ("trailing_input", format!("INSERT DATA {{ <{}> <{}> <{}> }} extra", A, P, B)),
        ("empty", String::new()),
    ]
}

/// Extension requests that are not plain ASTs: hand-written texts with a prologue, prefixed names
/// and `;` abbreviations (meaning given as an AST), and two more malformed DATA blocks (a variable
/// in GRAPH position; kept as raw text because C16 parses every AST of `valid_updates`).
pub fn extension_raw() -> Vec<Req> {
    let spo = || tp(v("s"), i(P), v("o"));
    vec![
        Req::Raw(
            "prefixed",
            "PREFIX e: <http://e/>\nDELETE { ?s e:p ?o } INSERT { GRAPH e:g2 { ?o e:p ?s } } WHERE { ?s e:p ?o }".to_string(),
            Update::Modify { delete: Some(vec![dq(v("s"), i(P), v("o"))]), insert: Some(vec![gq(i(G2), v("o"), i(P), v("s"))]), pattern: bgp(vec![spo()]) },
        ),
        Req::Raw(
            "prefixed_abbreviated",
            "PREFIX : <http://e/> INSERT DATA { :a :p :c ; :p \"2\" . GRAPH :g2 { :b :p :a } }".to_string(),
            Update::InsertData(vec![dq(i(A), i(P), i(C)), dq(i(A), i(P), T::lit("2")), gq(i(G2), i(B), i(P), i(A))]),
        ),
        Req::Rejected("variable_graph_in_insert_data", format!("INSERT DATA {{ GRAPH ?g {{ <{}> <{}> <{}> }} }}", A, P, B)),
        Req::Rejected("variable_graph_in_delete_data", format!("DELETE DATA {{ GRAPH ?g {{ <{}> <{}> <{}> }} }}", A, P, B)),
    ]
}

/// Extension symbols over the RELATIVE IRI `<k>` (lexical form `k`, no scheme). Kolibrie's
/// dictionary records no term kinds, so whether a template VARIABLE bound to `k` may stand in
/// subject / predicate / graph position is decided there by reading the store (does the value look
/// like an absolute IRI, name a graph, occur in that position of a stored quad?). These symbols
/// make the answer depend on WHAT the store holds and WHEN it is read:
/// * three INSERT DATA bring `k` in as object only / as subject and predicate / as graph name
///   (constant template terms: no legality question), one DELETE DATA takes all of them out again
///   (graph `k` stays behind as an empty named graph);
/// * three rewrites DELETE every quad that holds the bound value in subject / predicate / graph
///   position and INSERT a quad with the same variable in that position: legality must not be
///   read from the store after the deletions;
/// * one request binds `k` by VALUES - it need not occur in the store at all - and puts it into
///   all three positions.
/// Moving `k` from OBJECT position into subject / predicate / graph position is done by the
/// existing symbols (core `INSERT {?o p ?s} WHERE {?s p ?o}`, swap, extension symbols 0 and 1).
pub fn relative_iri_updates() -> Vec<Update> {
    vec![
        Update::InsertData(vec![dq(i(A), i(P), i(K))]),
        Update::InsertData(vec![dq(i(K), i(P), i(A)), dq(i(A), i(K), i(B))]),
        Update::InsertData(vec![gq(i(K), i(A), i(P), i(B))]),
        Update::DeleteData(vec![dq(i(A), i(P), i(K)), dq(i(K), i(P), i(A)), dq(i(A), i(K), i(B)), gq(i(K), i(A), i(P), i(B))]),
        // rewrite, subject: p-quads of the default graph become q-quads
        Update::Modify { delete: Some(vec![dq(v("s"), i(P), v("o"))]), insert: Some(vec![dq(v("s"), i(Q), v("o"))]), pattern: bgp(vec![tp(v("s"), i(P), v("o"))]) },
        // rewrite, predicate: whatever points at b points at c afterwards
        Update::Modify { delete: Some(vec![dq(v("s"), v("r"), i(B))]), insert: Some(vec![dq(v("s"), v("r"), i(C))]), pattern: bgp(vec![tp(v("s"), v("r"), i(B))]) },
        // rewrite, graph: p-quads of every named graph become q-quads of the same graph
        Update::Modify {
            delete: Some(vec![gq(v("g"), v("s"), i(P), v("o"))]),
            insert: Some(vec![gq(v("g"), v("s"), i(Q), v("o"))]),
            pattern: Group(vec![Elem::Graph(v("g"), bgp(vec![tp(v("s"), i(P), v("o"))]))]),
        },
        // k bound by VALUES (no occurrence in the store needed), instantiated as subject, predicate, graph
        Update::Modify {
            delete: None,
            insert: Some(vec![dq(v("x"), i(P), i(A)), dq(i(A), v("x"), i(B)), gq(v("x"), i(A), i(P), i(B))]),
            pattern: Group(vec![Elem::Values(vec!["x".into()], vec![vec![Some(i(K))]])]),
        },
    ]
}

/// IRIs and literals of the whole alphabet have disjoint lexical forms, and the reference's kind
/// test tells them apart (the bare lexical value model has nothing else to go by): every written
/// IRI is an IRI for `update::is_iri`, no written literal is.
pub fn lexical_spaces_disjoint() -> Result<(), String> {
    use crate::reference::update::is_iri;
    fn terms_of_group(g: &Group, out: &mut Vec<T>) {
        for e in &g.0 {
            match e {
                Elem::Triples(ts) => {
                    for t in ts {
                        out.extend([t.s.clone(), t.p.clone(), t.o.clone()]);
                    }
                }
                Elem::Graph(gt, inner) => {
                    out.push(gt.clone());
                    terms_of_group(inner, out);
                }
                Elem::Union(bs) => {
                    for b in bs {
                        terms_of_group(b, out);
                    }
                }
                Elem::Nested(inner) => terms_of_group(inner, out),
                Elem::Filter(Expr::Cmp(a, _, b)) => out.extend([a.clone(), b.clone()]),
                Elem::Values(_, rows) => {
                    for r in rows {
                        out.extend(r.iter().flatten().cloned());
                    }
                }
                _ => {}
            }
        }
    }
    let mut terms: Vec<T> = Vec::new();
    for r in alphabet() {
        let Some(u) = r.model() else { continue };
        let (quads, pattern): (Vec<&QuadT>, Option<&Group>) = match u {
            Update::InsertData(q) | Update::DeleteData(q) | Update::DeleteWhere(q) => (q.iter().collect(), None),
            Update::Modify { delete, insert, pattern } => (delete.iter().flatten().chain(insert.iter().flatten()).collect(), Some(pattern)),
        };
        for q in quads {
            terms.extend([q.t.s.clone(), q.t.p.clone(), q.t.o.clone()]);
            terms.extend(q.g.clone());
        }
        if let Some(g) = pattern {
            terms_of_group(g, &mut terms);
        }
    }
    for t in terms {
        match &t {
            T::Iri(s) if !is_iri(s) => return Err(format!("IRI <{}> of the alphabet is not an IRI for the reference", s)),
            T::Lit(s) | T::Num(s) if is_iri(s) || s.starts_with("_:") => return Err(format!("literal {:?} of the alphabet is spelled like an IRI / blank node", s)),
            _ => {}
        }
    }
    Ok(())
}

/// Size of the core alphabet = the first `CORE_LEN` entries of `alphabet()` (25 core requests, the
/// 3 requests the reference rejects, 8 malformed texts). Entries from `CORE_LEN` on are extension
/// symbols.
pub const CORE_LEN: usize = 36;

/// Full alphabet: core (simplest first), then the extension symbols.
pub fn alphabet() -> Vec<Req> {
    let mut v: Vec<Req> = core_updates().into_iter().map(Req::Ast).collect();
    v.extend(reference_rejected_updates().into_iter().map(Req::Ast));
    v.extend(rejected_texts().into_iter().map(|(l, t)| Req::Rejected(l, t)));
    assert_eq!(v.len(), CORE_LEN);
    v.extend(extension_updates().into_iter().map(Req::Ast));
    v.extend(extension_raw());
    // appended last: the indexes of the older symbols (recorded in replay files) do not move
    v.extend(relative_iri_updates().into_iter().map(Req::Ast));
    v
}
