//! Shared between the SPARQL-facing checks (C01, C02, C03, C16, C17): the term universe U, the
//! bridge between abstract datasets and a real `SparqlDatabase`.
use crate::reference::sparql_eval::Dataset;
use kolibrie::sparql_database::SparqlDatabase;
use shared::dataset_index::GraphId;
use std::collections::BTreeSet;

pub const A: &str = "http://e/a";
pub const B: &str = "http://e/b";
pub const C: &str = "http://e/c";
pub const P: &str = "http://e/p";
pub const Q: &str = "http://e/q";
pub const G1: &str = "http://e/g1";
pub const G2: &str = "http://e/g2";
/// only ever an empty named graph
pub const G3: &str = "http://e/g3";
/// never exists
pub const GX: &str = "http://e/gx";

/// The fixed 10-quad universe of C01/C02 (graph "" = default graph). By convention objects of
/// `q` are numeric literals and everything else is an IRI.
pub fn universe() -> Vec<(&'static str, &'static str, &'static str, &'static str)> {
    vec![
        (A, P, B, ""),
        (B, P, C, ""),
        (C, P, C, ""),
        (A, Q, "1", ""),
        (B, Q, "2", ""),
        (B, Q, "1", ""),
        (A, P, B, G1),
        (B, Q, "2", G1),
        (A, P, B, G2),
        // only in a named graph; together with (a p b) a fan-in on b once g1 and g2 are merged by FROM
        (C, P, B, G2),
    ]
}

pub fn dataset_from_mask(mask: u32, with_empty_graph: bool) -> Dataset {
    let mut ds = Dataset::default();
    for (i, (s, p, o, g)) in universe().into_iter().enumerate() {
        if mask & (1 << i) != 0 {
            let t = (s.to_string(), p.to_string(), o.to_string());
            if g.is_empty() {
                ds.default.insert(t);
            } else {
                ds.named.entry(g.to_string()).or_default().insert(t);
            }
        }
    }
    if with_empty_graph {
        ds.named.entry(G3.to_string()).or_default();
    }
    ds
}

/// Load an abstract dataset into a fresh real database through the store API.
pub fn build_db(ds: &Dataset) -> SparqlDatabase {
    let mut db = SparqlDatabase::new();
    for (s, p, o) in &ds.default {
        db.add_triple_parts(s, p, o);
    }
    for (g, ts) in &ds.named {
        let gid = {
            let mut d = db.dictionary.write().unwrap();
            d.encode(g)
        };
        db.dataset_index.create_graph(GraphId::Named(gid));
        for (s, p, o) in ts {
            db.add_quad_parts(s, p, o, g);
        }
    }
    db
}

/// Read the abstract dataset (lexical quads + graph catalog) back out of a real database.
pub fn extract(db: &SparqlDatabase) -> Dataset {
    let mut ds = Dataset::default();
    for g in db.dataset_index.named_graphs() {
        if let GraphId::Named(id) = g {
            let name = db.decode_any(id).unwrap_or_else(|| format!("<undecodable graph {}>", id));
            ds.named.entry(name).or_default();
        }
    }
    for q in db.dataset_index.all_quads() {
        let dec = |id: u32| db.decode_any(id).unwrap_or_else(|| format!("<undecodable {}>", id));
        let t = (dec(q.subject), dec(q.predicate), dec(q.object));
        match q.graph {
            GraphId::Default => {
                ds.default.insert(t);
            }
            GraphId::Named(id) => {
                ds.named.entry(dec(id)).or_default().insert(t);
            }
        }
    }
    ds
}

/// Datasets equal up to a renaming of blank nodes (lexical forms starting with "_:").
/// Backtracking search for a bijection, pruned by a per-node signature (the multiset of
/// quads the node occurs in, with blank nodes masked) and by incremental consistency.
pub fn equal_up_to_bnodes(a: &Dataset, b: &Dataset) -> bool {
    if a == b {
        return true;
    }
    if a.quad_count() != b.quad_count() || a.named.keys().collect::<Vec<_>>() != b.named.keys().collect::<Vec<_>>() {
        return false;
    }
    type Q = (String, String, String, String);
    let qa: Vec<Q> = a.quads().into_iter().collect();
    let qb: BTreeSet<Q> = b.quads();
    let is_b = |t: &str| t.starts_with("_:");
    let names = |qs: &dyn Fn() -> Vec<Q>| -> Vec<String> {
        let mut s = BTreeSet::new();
        for (x, y, z, _) in qs() {
            for t in [x, y, z] {
                if t.starts_with("_:") {
                    s.insert(t);
                }
            }
        }
        s.into_iter().collect()
    };
    let na = names(&|| qa.clone());
    let nb = names(&|| qb.iter().cloned().collect());
    if na.len() != nb.len() {
        return false;
    }
    // ground quads must coincide
    let ground = |qs: Vec<Q>| -> BTreeSet<Q> { qs.into_iter().filter(|q| !is_b(&q.0) && !is_b(&q.1) && !is_b(&q.2)).collect() };
    if ground(qa.clone()) != ground(qb.iter().cloned().collect()) {
        return false;
    }
    let sig = |n: &String, qs: &[Q]| -> Vec<(String, String, String, String, u8)> {
        let mask = |t: &String| if is_b(t) { "_".to_string() } else { t.clone() };
        let mut v: Vec<_> = qs
            .iter()
            .filter(|q| &q.0 == n || &q.1 == n || &q.2 == n)
            .map(|q| (mask(&q.0), mask(&q.1), mask(&q.2), q.3.clone(), (&q.0 == n) as u8 * 4 + (&q.1 == n) as u8 * 2 + (&q.2 == n) as u8))
            .collect();
        v.sort();
        v
    };
    let qbv: Vec<Q> = qb.iter().cloned().collect();
    let siga: Vec<_> = na.iter().map(|n| sig(n, &qa)).collect();
    let sigb: Vec<_> = nb.iter().map(|n| sig(n, &qbv)).collect();
    {
        let mut x = siga.clone();
        let mut y = sigb.clone();
        x.sort();
        y.sort();
        if x != y {
            return false;
        }
    }
    fn rec(i: usize, na: &[String], nb: &[String], siga: &[Vec<(String, String, String, String, u8)>], sigb: &[Vec<(String, String, String, String, u8)>], used: &mut Vec<bool>, map: &mut Vec<usize>, qa: &[Q], qb: &BTreeSet<Q>) -> bool {
        let ren = |t: &String, upto: usize, map: &Vec<usize>| -> Option<String> {
            if !t.starts_with("_:") {
                return Some(t.clone());
            }
            match na.iter().position(|x| x == t) {
                Some(k) if k < upto => Some(nb[map[k]].clone()),
                _ => None,
            }
        };
        // consistency of everything fully assigned so far
        for q in qa {
            if let (Some(s), Some(p), Some(o)) = (ren(&q.0, i, map), ren(&q.1, i, map), ren(&q.2, i, map)) {
                if !qb.contains(&(s, p, o, q.3.clone())) {
                    return false;
                }
            }
        }
        if i == na.len() {
            return true;
        }
        for j in 0..nb.len() {
            if !used[j] && siga[i] == sigb[j] {
                used[j] = true;
                map[i] = j;
                if rec(i + 1, na, nb, siga, sigb, used, map, qa, qb) {
                    return true;
                }
                used[j] = false;
            }
        }
        false
    }
    rec(0, &na, &nb, &siga, &sigb, &mut vec![false; nb.len()], &mut vec![0; na.len()], &qa, &qb)
}
