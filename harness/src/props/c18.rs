//! C18 — backward chaining returns only entailed answers, and all shallow ones, whatever the
//! goal's variables are called.
//!
//! E-in: (positive program) x (fact set) x (goal shape) x (naming of the goal's variables), every
//! combination inside the bound, each goal run through the real `Reasoner::backward_chaining` and
//! read back with `resolve_term` on the goal's own terms; oracle = naive least model with stages
//! (`reference::datalog_pos`).
//!
//! What "depth" means in the subject (backward_chaining.rs): `backward_chaining_helper` is entered
//! with depth 0 for the user's goal, every premise of a rule chosen for a goal at depth d is solved
//! at depth d+1, and a call with depth > MAX_DEPTH (= 10) returns nothing. A fact whose shallowest
//! derivation tree has height s (= its stage in the naive fixpoint) needs goals at depths 0..=s, so
//! everything with stage <= 10 is inside the engine's bound. The oracle demands completeness only for
//! stage <= 5, i.e. with a margin of five levels, so that an off-by-one reading of "depth" can
//! never turn into an alarm.
//!
//! Left-recursive / doubly recursive programs make the subject's search doubly exponential in the
//! depth bound (results are not de-duplicated). Such goals are *skipped*, never judged: a cost model
//! (`SldCost`, a names-apart re-implementation of the same search that only counts steps) predicts the
//! number of unification steps of the goal shape; above `STEP_CAP` every naming of that shape is
//! counted under `skipped_*` and not run. As a safety net the subject runs in a helper thread and a
//! single goal exceeding `HARD_TIMEOUT_S` aborts the shard with a `capped` note (never a verdict).
use crate::infra::{guarded, Ctx, PropDef, ShardOut};
use crate::reference::datalog_pos::{self as dl, Atom, Fact, Rule, T};
use datalog::reasoning::backward_chaining::resolve_term;
use datalog::reasoning::Reasoner;
use serde_json::{json, Value};
use shared::terms::Term;
use std::collections::{BTreeMap, BTreeSet, HashMap};
use std::sync::mpsc::{channel, Receiver, RecvTimeoutError, Sender};
use std::time::Duration;

pub const DEF: PropDef = PropDef {
    id: "C18",
    level: "exploration",
    rule: "cases = (positive program of <=2 rules from a 24-rule core: 1-2 premises, constants, repeated variables, variable predicates, two conclusions, non-recursive / linear / doubly / mutually recursive) x (fact set of <=4 triples of a 10-triple universe, plus p-chains of 5/6/8 edges for deep derivations) x (every goal shape over {constants a,c,p,q; variable slots} incl. repeated variable, variable predicate and ground goals: 37 shapes) x (namings of the slots from {x,X,Y,v0,v1,v2}). quick: 24 single rules + 42 ordered pairs of a 7-rule sub-core, each with every fact set of <=2 triples + 14 curated sets of 3-4, namings with the plain names in fixed order (4/13/34 per 1/2/3 slots, 235 goals per batch). thorough: single rules x every fact set of <=4 and the 30 ordered pairs of a 6-rule sub-core x every fact set of <=3 (+curated 4-sets), both with every injective naming (6/30/120, 512 goals per batch); the other 522 ordered pairs x fact sets of <=2 (+curated) with the fixed-plain-order namings. Each goal is run through Reasoner::backward_chaining and read back with resolve_term on the goal's terms; oracle = naive least model with stages: every answer is a ground model fact, every matching model fact of stage<=5 is answered, the answer set is the same for every naming of one shape. Goal shapes whose predicted SLD cost exceeds the step cap are skipped (counted under skipped_*, never judged). evaluations = goals executed; non-trivial = (program, fact set) pair for which some executed goal must return a derived fact; distinct = distinct such pairs; outcomes = distinct answer sets. FURTHER FAMILIES (all tiers): 'deep' = p-chains of 9/10/11 edges under right-linear recursion (programs [copy, right-linear] in both orders), 24 goal shapes over the chain ends {c0,c2} x {q} x {c9,c10,c11}, own step cap 60000 (cost is O(length^2), nothing is skipped), completeness demanded up to stage 9 (one level below the engine's own bound), stage 10/11 answers only checked for soundness, base + extended namings; 'names' = each of the 24 single rules x fact sets of <=1 (thorough <=2) + the 14 curated sets, every shape under the plain naming and the extended naming alphabet {y,z,r (names used inside the rules), v3, v10, v01} (fixed-order rule: y,z,r in that order, the engine-like ones in every arrangement) plus mixed pairs/triples with prefix-related or numerically equal names (v1/v10, v0/v01, v01/v1); 'shapes' = 17 programs outside the core (three premises incl. a variable predicate in the middle, ground conclusion, fully ground rule, ground + non-ground conclusions, a rule written with ?v10/?v3, three-rule programs incl. mutual recursion, and 7 programs with filters between two variables =/!= incl. inside a recursion) x fact sets of <=1 + curated (thorough: <=3 + curated 4-sets); 'quoted' = 5 rule sets with quoted-triple terms in the conclusion (incl. one that nests its own conclusions and two written with v<n> names) x 4 fact sets x 8 linear goal shapes with quoted triples (nested twice, in subject and object, variable predicate inside the quotation) x every injective naming of the <=4 slots over {x,X,Y,Z,v0,v1,v10}: judged only by panic-freedom and by identity of the answers (values of the goal's variables, resolved deeply) with those of the plain naming - no reference model is involved. Rules with filters are judged against the least model in which a rule instance whose filter fails derives nothing (what evaluate_filters does in every forward strategy); an unsound answer additionally gets the differential tag explained_by=filters_ignored iff it lies in the least model of the program with all filters deleted",
    assumptions: &[
        "universe: individuals a,b,c,d (chains: c0..c8), predicates p,q; goal constants {a,c} and {p,q} (chains: c0,c2 / c3,c5); goal variable names {x,X,Y,v0,v1,v2} (x is also a variable name used inside the rules)",
        "only safe positive rules are generated (the property quantifies over safe rule sets); filters only between two variables of the rule body with = / != (the one filter form whose meaning does not depend on the values: evaluate_filters compares two bound variables by dictionary id); negation is not generated (a least model presupposes a positive program)",
        "completeness is demanded for stage<=5 only (engine bound: depth<=MAX_DEPTH=10 with depth = rule nesting of the goal); in the deep family for stage<=9: a fact of stage s needs goals at depths 0..=s and only depth>10 is cut, so stage 9 keeps one level of margin under every reading of 'depth' (counting rule applications, or counting goal levels including the fact lookup)",
        "quoted family: only linear goals (no variable twice) - unify_terms has no occurs check and a goal repeating a variable across a quotation boundary overflows the stack of the process (observation, outside the statement); facts cannot contain quoted triples here (Triple is three dictionary ids), so answers arise only through rules whose conclusion carries the quotation; unbound engine-internal variables inside an answer are rendered as ?_ (their names are the engine's business), unbound goal variables by slot number",
        "reference model: reference/datalog_pos.rs (self-tested); cost model SldCost (names-apart copy of the search, step cap 600 quick / 800 thorough) only decides skipping, never a verdict; the subject is about 2 us per predicted step and its cost is doubly exponential in the depth bound for left/doubly recursive programs",
        "answers are compared as sets of ground triples (the engine returns duplicates and internal variables by design)",
    ],
    run,
    replay,
    cap_s: (50, 840),
    shards: 0,
};

/// completeness is demanded up to this stage (engine bound is 10)
const STAGE_BOUND: usize = 5;
/// ... and up to this stage in the "deep" family (one level of margin against the engine's own bound:
/// a fact of stage s needs goals at depths 0..=s, and only depth > MAX_DEPTH = 10 is cut)
const STAGE_BOUND_DEEP: usize = 9;
/// step cap of the "deep" family: right-linear recursion over a chain costs O(length^2) steps per goal,
/// there is no blow-up to protect against
const STEP_CAP_DEEP: u64 = 60_000;
/// depth bound used by the cost model (mirrors the subject's private MAX_DEPTH; only influences skipping)
const MODEL_MAX_DEPTH: usize = 10;
const STEP_CAP_QUICK: u64 = 600;
const STEP_CAP_THOROUGH: u64 = 800;
const HARD_TIMEOUT_S: u64 = 20;

/// the three plain names first (the plain naming of a shape is x, X, Y in slot order; "x" is also a
/// variable name used inside the rules), then names the engine generates itself
const NAMES: [&str; 6] = ["x", "X", "Y", "v0", "v1", "v2"];
const N_PLAIN: usize = 3;
/// extended naming alphabet: the other names used inside the rules (y, z and the predicate variable r),
/// engine-like names off the beaten track (v3: leaves v0..v2 free; v10: multi-digit; v01: parses to 1 but
/// is not the generated name v1)
const NAMES_EXT: [&str; 6] = ["y", "z", "r", "v3", "v10", "v01"];
/// mixed pairs / triples with prefix-related and numerically equal engine-like names
const NAMES_EXT_MIXED2: [[&str; 2]; 6] = [["v1", "v10"], ["v10", "v1"], ["v0", "v01"], ["v01", "v1"], ["x", "v10"], ["v3", "Y"]];
const NAMES_EXT_MIXED3: [[&str; 3]; 3] = [["v1", "v10", "v01"], ["v10", "v0", "v3"], ["y", "v2", "v10"]];

/// The rule core. Variables ?x ?y ?z, predicate variable ?r.
const CORE: [&str; 24] = [
    // one premise
    "?x q ?y :- ?x p ?y",                     // 0 copy
    "?y q ?x :- ?x p ?y",                     // 1 swap
    "?x q ?x :- ?x p ?y",                     // 2 repeated variable in the conclusion
    "?x q a :- ?x p ?x",                      // 3 repeated variable in the premise, constant conclusion
    "?x q b :- a p ?x",                       // 4 constant in the premise
    "?y p ?x :- ?x p ?y",                     // 5 symmetric closure (recursive)
    "?x p ?y :- ?x q ?y",                     // 6 q => p (mutually recursive with 0)
    "?x q ?y :- ?x ?r ?y",                    // 7 variable predicate in the premise
    "?y ?r ?x :- ?x ?r ?y",                   // 8 variable predicate on both sides (recursive)
    "?x q ?y, ?y q ?x :- ?x p ?y",            // 9 two conclusions
    "?v1 q ?v0 :- ?v0 p ?v1",                 // 10 rule written with engine-like variable names
    // two premises
    "?x q ?z :- ?x p ?y, ?y p ?z",            // 11 join
    "?x q ?z :- ?x p ?y, ?y q ?z",            // 12 right-linear recursion
    "?x q ?z :- ?x q ?y, ?y p ?z",            // 13 left-linear recursion
    "?x p ?z :- ?x p ?y, ?y p ?z",            // 14 doubly recursive transitive closure
    "?x q ?y :- ?x p ?z, ?y p ?z",            // 15 join on the object
    "?x q ?y :- ?x p ?y, ?y p ?x",            // 16 two premises over the same pair
    "?x q c :- ?x p ?y, ?y p b",              // 17 constants in premise and conclusion
    "?x q ?y :- ?x p ?y, a p b",              // 18 ground premise
    "?x ?r ?z :- ?x ?r ?y, ?y ?r ?z",         // 19 transitive closure of every predicate
    "?x q ?y :- ?y p ?x, ?x ?r ?x",           // 20 variable predicate + repeated variable
    "?x q ?z :- ?x q ?y, ?y q ?z",            // 21 doubly recursive on q
    "?z q ?x, ?x p ?z :- ?x p ?y, ?y q ?z",   // 22 two conclusions, mutual recursion
    "?x q ?y :- ?x q ?z, ?z q ?y",            // 23 same as 21 with other join variable order
];
/// sub-core used for the ordered pairs of the quick tier
const QUICK_PAIR_CORE: [usize; 7] = [0, 5, 6, 7, 11, 12, 14];
/// thorough tier: ordered pairs inside this sub-core get the fact sets of size <= 3, all other ordered pairs those of size <= 2 (+ curated)
const THOROUGH_DENSE_PAIR_CORE: [usize; 6] = [0, 5, 6, 7, 12, 14];

const FACT_UNIVERSE: [&str; 10] = ["a p b", "b p c", "c p d", "c p a", "b p a", "a p a", "a q b", "b q c", "d q a", "c q c"];
/// curated larger fact sets (indices into FACT_UNIVERSE): chains, cycle, loop, mixed p/q
const CURATED: [&[usize]; 14] = [
    &[0, 1, 2],
    &[0, 1, 3],
    &[0, 4, 5],
    &[0, 1, 6],
    &[0, 1, 7],
    &[1, 2, 6],
    &[0, 6, 7],
    &[6, 7, 9],
    &[0, 1, 2, 3],
    &[0, 1, 2, 8],
    &[0, 1, 6, 7],
    &[0, 4, 6, 9],
    &[1, 3, 7, 8],
    &[2, 5, 8, 9],
];

/// Programs outside the 24-rule core (family "shapes"): (rules, also run the extended namings?)
const EXTRA_PROGRAMS: [(&[&str], bool); 17] = [
    // three premises (the rule loop of the engine is generic in the number of premises)
    (&["?x q ?w :- ?x p ?y, ?y p ?z, ?z p ?w"], false),
    (&["?x q ?w :- ?x p ?y, ?y ?r ?z, ?z p ?w"], false),
    (&["?x q ?y :- ?x p ?y, ?y p ?z, ?z p ?x"], false),
    // ground conclusion / fully ground rule / ground and non-ground conclusion
    (&["a q b :- ?x p ?y"], false),
    (&["a q b :- a p b"], false),
    (&["a q b, ?x q ?x :- ?x p ?y"], false),
    // rule written with multi-digit engine-like names, goals named alike
    (&["?v10 q ?v3 :- ?v3 p ?v10"], true),
    // three rules
    (&["?x q ?y :- ?x p ?y", "?x q ?z :- ?x p ?y, ?y p ?z", "?x q ?w :- ?x p ?y, ?y p ?z, ?z p ?w"], false),
    (&["?x q ?y :- ?x p ?y", "?y p ?x :- ?x q ?y", "?x q ?z :- ?x p ?y, ?y q ?z"], false),
    (&["?x q ?y :- ?x p ?y", "?x p ?y :- ?x q ?y", "?y q ?x :- ?x q ?y"], false),
    // filters between two variables (= / !=): a rule instance whose filter fails derives nothing
    (&["?x q ?y :- ?x p ?y | ?x != ?y"], false),
    (&["?x q ?y :- ?x p ?y | ?x = ?y"], false),
    (&["?x q ?z :- ?x p ?y, ?y p ?z | ?x != ?z"], false),
    (&["?x q ?z :- ?x p ?y, ?y p ?z | ?x != ?z, ?y != ?z"], false),
    (&["?y q ?x :- ?x ?r ?y | ?x != ?y"], false),
    (&["?x q ?y :- ?x p ?y | ?x != ?y", "?x q ?z :- ?x p ?y, ?y q ?z"], false),
    (&["?x q ?y :- ?x p ?y", "?x q ?z :- ?x p ?y, ?y q ?z | ?x != ?z"], false),
];

fn fact_sets(max: usize) -> Vec<Vec<usize>> {
    // all subsets of the universe of size <= max, smallest first, lexicographic
    let n = FACT_UNIVERSE.len();
    let mut out = vec![vec![]];
    for k in 1..=max {
        let mut idx: Vec<usize> = (0..k).collect();
        loop {
            out.push(idx.clone());
            let mut i = k;
            while i > 0 && idx[i - 1] == n - k + i - 1 {
                i -= 1;
            }
            if i == 0 {
                break;
            }
            idx[i - 1] += 1;
            for j in i..k {
                idx[j] = idx[j - 1] + 1;
            }
        }
    }
    out
}

/// A goal shape: each position is a constant or a variable slot (slots numbered by first occurrence).
#[derive(Clone, Debug, PartialEq, Eq, Hash, PartialOrd, Ord)]
pub enum Pos {
    K(String),
    Slot(usize),
}
pub type Shape = [Pos; 3];

fn shapes(subjects: &[&str], preds: &[&str], objects: &[&str]) -> Vec<Shape> {
    let mut out = Vec::new();
    let opts = |consts: &[&str]| -> Vec<Option<String>> {
        let mut v: Vec<Option<String>> = consts.iter().map(|c| Some(c.to_string())).collect();
        v.push(None);
        v
    };
    for s in opts(subjects) {
        for p in opts(preds) {
            for o in opts(objects) {
                let cs = [s.clone(), p.clone(), o.clone()];
                let nvar = cs.iter().filter(|c| c.is_none()).count();
                // all set partitions of the variable positions as restricted growth strings
                let mut rgs: Vec<Vec<usize>> = vec![vec![]];
                for _ in 0..nvar {
                    let mut next = Vec::new();
                    for r in &rgs {
                        let m = r.iter().copied().max().map_or(0, |m| m + 1);
                        for b in 0..=m {
                            let mut r2 = r.clone();
                            r2.push(b);
                            next.push(r2);
                        }
                    }
                    rgs = next;
                }
                for r in rgs {
                    let mut k = 0;
                    let mut sh: Vec<Pos> = Vec::new();
                    for c in &cs {
                        match c {
                            Some(c) => sh.push(Pos::K(c.clone())),
                            None => {
                                sh.push(Pos::Slot(r[k]));
                                k += 1;
                            }
                        }
                    }
                    out.push([sh[0].clone(), sh[1].clone(), sh[2].clone()]);
                }
            }
        }
    }
    out
}

fn nslots(sh: &Shape) -> usize {
    sh.iter().filter_map(|p| if let Pos::Slot(i) = p { Some(*i + 1) } else { None }).max().unwrap_or(0)
}

/// Namings of k variable slots, the plain naming (x, X, Y) first.
/// full: every injective assignment of the six NAMES. Otherwise (quick tier): every injective
/// assignment in which the plain names are used in the fixed order x, X, Y (slots named like engine
/// variables still take v0, v1, v2 in every arrangement) - 4 / 13 / 34 namings instead of 6 / 30 / 120.
fn namings(k: usize, full: bool) -> Vec<Vec<&'static str>> {
    namings_from(&NAMES, k, full)
}

/// Namings run for a shape of k slots: the base list (plain naming first), then - if `ext` - the same
/// construction over NAMES_EXT (fixed-order rule: y, z, r in that order, v3/v10/v01 in every arrangement)
/// plus the mixed pairs / triples.
fn namings_ext(k: usize, full: bool, ext: bool, base_plain_only: bool) -> Vec<Vec<&'static str>> {
    let mut v = namings(k, full);
    if base_plain_only {
        v.truncate(1);
    }
    if ext && k > 0 {
        v.extend(namings_from(&NAMES_EXT, k, false));
        if k == 2 {
            v.extend(NAMES_EXT_MIXED2.iter().map(|m| m.to_vec()));
        }
        if k == 3 {
            v.extend(NAMES_EXT_MIXED3.iter().map(|m| m.to_vec()));
        }
    }
    v
}

fn namings_from(names: &[&'static str; 6], k: usize, full: bool) -> Vec<Vec<&'static str>> {
    let mut out: Vec<Vec<&'static str>> = vec![vec![]];
    for _ in 0..k {
        let mut next = Vec::new();
        for n in &out {
            let plain_used = n.iter().filter(|x| names[..N_PLAIN].contains(x)).count();
            for (ni, name) in names.iter().enumerate() {
                if n.contains(name) {
                    continue;
                }
                if !full && ni < N_PLAIN && ni != plain_used {
                    continue;
                }
                let mut n2 = n.clone();
                n2.push(*name);
                next.push(n2);
            }
        }
        out = next;
    }
    out
}

fn name_shape(sh: &Shape, naming: &[&str]) -> Atom {
    let f = |p: &Pos| match p {
        Pos::K(c) => T::C(c.clone()),
        Pos::Slot(i) => T::V(naming[*i].to_string()),
    };
    [f(&sh[0]), f(&sh[1]), f(&sh[2])]
}

fn shape_of(goal: &Atom) -> (Shape, Vec<String>) {
    let mut names: Vec<String> = Vec::new();
    let mut sh = Vec::new();
    for t in goal {
        match t {
            T::C(c) => sh.push(Pos::K(c.clone())),
            T::V(v) => {
                let i = match names.iter().position(|n| n == v) {
                    Some(i) => i,
                    None => {
                        names.push(v.clone());
                        names.len() - 1
                    }
                };
                sh.push(Pos::Slot(i));
            }
        }
    }
    ([sh[0].clone(), sh[1].clone(), sh[2].clone()], names)
}

fn engine_like(name: &str) -> bool {
    name.len() >= 2 && name.starts_with('v') && name[1..].chars().all(|c| c.is_ascii_digit())
}

/// rule i depends on rule j if a premise of i could be answered by a conclusion of j
fn is_recursive(rules: &[Rule]) -> bool {
    let compatible = |a: &Atom, b: &Atom| (0..3).all(|i| match (&a[i], &b[i]) {
        (T::C(x), T::C(y)) => x == y,
        _ => true,
    });
    let n = rules.len();
    let mut dep = vec![vec![false; n]; n];
    for i in 0..n {
        for j in 0..n {
            dep[i][j] = rules[i].premise.iter().any(|p| rules[j].conclusion.iter().any(|c| compatible(p, c)));
        }
    }
    for k in 0..n {
        for i in 0..n {
            for j in 0..n {
                if dep[i][k] && dep[k][j] {
                    dep[i][j] = true;
                }
            }
        }
    }
    (0..n).any(|i| dep[i][i])
}

// ---------------------------------------------------------------------------------------------
// cost model: names-apart SLD search with the subject's search order, counting unification steps
// ---------------------------------------------------------------------------------------------
#[derive(Clone, Copy, PartialEq, Eq, Debug)]
enum ST {
    C(u32),
    V(u32),
}
type SB = Vec<(u32, ST)>;

struct SldCost {
    facts: Vec<[ST; 3]>,
    rules: Vec<(Vec<[ST; 3]>, Vec<[ST; 3]>, u32)>, // premises, conclusions, number of variables
    steps: u64,
    cap: u64,
    counter: u32,
}

impl SldCost {
    fn new(rules: &[Rule], facts: &BTreeSet<Fact>, cap: u64) -> (SldCost, BTreeMap<String, u32>) {
        let mut consts: BTreeMap<String, u32> = BTreeMap::new();
        let k = |s: &str, consts: &mut BTreeMap<String, u32>| -> u32 {
            let n = consts.len() as u32;
            *consts.entry(s.to_string()).or_insert(n)
        };
        let fs = facts.iter().map(|f| [ST::C(k(&f[0], &mut consts)), ST::C(k(&f[1], &mut consts)), ST::C(k(&f[2], &mut consts))]).collect();
        let mut rs = Vec::new();
        for r in rules {
            let mut vars: Vec<String> = Vec::new();
            let mut conv = |a: &Atom, consts: &mut BTreeMap<String, u32>| -> [ST; 3] {
                let mut t = |x: &T| match x {
                    T::C(c) => ST::C(k(c, consts)),
                    T::V(v) => {
                        let i = match vars.iter().position(|n| n == v) {
                            Some(i) => i,
                            None => {
                                vars.push(v.clone());
                                vars.len() - 1
                            }
                        };
                        ST::V(i as u32)
                    }
                };
                [t(&a[0]), t(&a[1]), t(&a[2])]
            };
            let prem: Vec<[ST; 3]> = r.premise.iter().map(|a| conv(a, &mut consts)).collect();
            let conc: Vec<[ST; 3]> = r.conclusion.iter().map(|a| conv(a, &mut consts)).collect();
            rs.push((prem, conc, vars.len() as u32));
        }
        (SldCost { facts: fs, rules: rs, steps: 0, cap, counter: 0 }, consts)
    }
    fn resolve(t: ST, b: &SB) -> ST {
        let mut t = t;
        loop {
            match t {
                ST::V(v) => match b.iter().find(|e| e.0 == v) {
                    Some(e) => t = e.1,
                    None => return t,
                },
                c => return c,
            }
        }
    }
    fn unify(&mut self, p1: &[ST; 3], p2: &[ST; 3], b: &SB) -> Option<SB> {
        self.steps += 1;
        let mut nb = b.clone();
        for i in 0..3 {
            let a = Self::resolve(p1[i], &nb);
            let c = Self::resolve(p2[i], &nb);
            match (a, c) {
                (ST::C(x), ST::C(y)) => {
                    if x != y {
                        return None;
                    }
                }
                (ST::V(v), ST::C(k)) | (ST::C(k), ST::V(v)) => nb.push((v, ST::C(k))),
                (ST::V(v1), ST::V(v2)) => {
                    if v1 != v2 {
                        nb.push((v1, ST::V(v2)));
                    }
                }
            }
        }
        Some(nb)
    }
    /// None = step cap exceeded
    fn solve(&mut self, q: &[ST; 3], b: &SB, depth: usize) -> Option<Vec<SB>> {
        if depth > MODEL_MAX_DEPTH {
            return Some(Vec::new());
        }
        if self.steps > self.cap {
            return None;
        }
        let sub = [Self::resolve(q[0], b), Self::resolve(q[1], b), Self::resolve(q[2], b)];
        let mut results = Vec::new();
        for i in 0..self.facts.len() {
            let f = self.facts[i];
            if let Some(nb) = self.unify(&sub, &f, b) {
                results.push(nb);
            }
        }
        for ri in 0..self.rules.len() {
            let base = self.counter;
            self.counter += self.rules[ri].2;
            let ren = |a: &[ST; 3]| -> [ST; 3] {
                let f = |t: ST| match t {
                    ST::V(v) => ST::V(base + v),
                    c => c,
                };
                [f(a[0]), f(a[1]), f(a[2])]
            };
            let prem: Vec<[ST; 3]> = self.rules[ri].0.iter().map(ren).collect();
            let conc: Vec<[ST; 3]> = self.rules[ri].1.iter().map(ren).collect();
            for c in &conc {
                if let Some(rb) = self.unify(c, &sub, b) {
                    let mut pres = vec![rb];
                    for p in &prem {
                        let mut next = Vec::new();
                        for pb in &pres {
                            next.extend(self.solve(p, pb, depth + 1)?);
                        }
                        self.steps += next.len() as u64;
                        pres = next;
                    }
                    results.extend(pres);
                }
            }
        }
        self.steps += results.len() as u64;
        if self.steps > self.cap {
            return None;
        }
        Some(results)
    }
    /// predicted number of steps for a goal shape, None if above the cap
    fn cost(rules: &[Rule], facts: &BTreeSet<Fact>, sh: &Shape, cap: u64) -> Option<u64> {
        let (mut m, mut consts) = SldCost::new(rules, facts, cap);
        let k = nslots(sh) as u32;
        m.counter = k;
        // rule variables are numbered relative to `counter`, goal slots are 0..k
        let q: Vec<ST> = sh
            .iter()
            .map(|p| match p {
                Pos::K(c) => {
                    let n = consts.len() as u32;
                    ST::C(*consts.entry(c.clone()).or_insert(n))
                }
                Pos::Slot(i) => ST::V(*i as u32),
            })
            .collect();
        m.solve(&[q[0], q[1], q[2]], &Vec::new(), 0).map(|_| m.steps)
    }
}

// ---------------------------------------------------------------------------------------------
// the subject, driven in a helper thread
// ---------------------------------------------------------------------------------------------
#[derive(Clone, Debug, PartialEq, Eq)]
struct Obs {
    /// answers applied to the goal that came out ground
    answers: BTreeSet<Fact>,
    /// answers applied to the goal that still contain a variable / quoted triple (rendered)
    nonground: BTreeSet<String>,
    /// number of bindings returned (with duplicates)
    raw: usize,
}

struct Job {
    rules: Vec<Rule>,
    facts: Vec<Fact>,
    goals: Vec<Atom>,
}

fn build_reasoner(rules: &[Rule], facts: &[Fact], goals: &[Atom]) -> (Reasoner, HashMap<String, u32>) {
    let mut r = Reasoner::new();
    let mut ids: HashMap<String, u32> = HashMap::new();
    let enc = |r: &mut Reasoner, s: &str, ids: &mut HashMap<String, u32>| -> u32 {
        if let Some(i) = ids.get(s) {
            return *i;
        }
        let i = r.dictionary.write().unwrap().encode(s);
        ids.insert(s.to_string(), i);
        i
    };
    for f in facts {
        r.add_abox_triple(&f[0], &f[1], &f[2]);
        for s in f {
            enc(&mut r, s, &mut ids);
        }
    }
    let conv = |r: &mut Reasoner, a: &Atom, ids: &mut HashMap<String, u32>| -> (Term, Term, Term) {
        let mut t = |x: &T| match x {
            T::C(c) => Term::Constant(enc(r, c, ids)),
            T::V(v) => Term::Variable(v.clone()),
        };
        (t(&a[0]), t(&a[1]), t(&a[2]))
    };
    for rule in rules {
        let premise = rule.premise.iter().map(|a| conv(&mut r, a, &mut ids)).collect();
        let conclusion = rule.conclusion.iter().map(|a| conv(&mut r, a, &mut ids)).collect();
        let filters = rule
            .filters
            .iter()
            .map(|f| shared::rule::FilterCondition { variable: f.left.clone(), operator: if f.equal { "=" } else { "!=" }.to_string(), value: f.right.clone() })
            .collect();
        r.add_rule(shared::rule::Rule { premise, negative_premise: vec![], filters, conclusion });
    }
    for g in goals {
        for t in g {
            if let T::C(c) = t {
                enc(&mut r, c, &mut ids);
            }
        }
    }
    (r, ids)
}

fn ask(r: &Reasoner, ids: &HashMap<String, u32>, goal: &Atom) -> Result<Obs, String> {
    let t = |x: &T| match x {
        T::C(c) => Term::Constant(ids[c]),
        T::V(v) => Term::Variable(v.clone()),
    };
    let pattern = (t(&goal[0]), t(&goal[1]), t(&goal[2]));
    let results = guarded(|| r.backward_chaining(&pattern))?;
    let names: HashMap<u32, &String> = ids.iter().map(|(k, v)| (*v, k)).collect();
    let decode = |id: u32| -> String {
        match names.get(&id) {
            Some(s) => (*s).clone(),
            None => r.dictionary.read().unwrap().decode(id).map(|s| s.to_string()).unwrap_or_else(|| format!("<id {}>", id)),
        }
    };
    let mut obs = Obs { answers: BTreeSet::new(), nonground: BTreeSet::new(), raw: results.len() };
    for b in &results {
        // observe_at: resolve_term on the goal's terms
        let res = [resolve_term(&pattern.0, b), resolve_term(&pattern.1, b), resolve_term(&pattern.2, b)];
        let mut ground: Vec<String> = Vec::new();
        for x in &res {
            if let Term::Constant(c) = x {
                ground.push(decode(*c));
            }
        }
        if ground.len() == 3 {
            obs.answers.insert([ground[0].clone(), ground[1].clone(), ground[2].clone()]);
        } else {
            let show = |x: &Term| match x {
                Term::Constant(c) => decode(*c),
                Term::Variable(v) => format!("?{}", v),
                Term::QuotedTriple(_) => "<<quoted>>".to_string(),
            };
            obs.nonground.insert(format!("{} {} {}", show(&res[0]), show(&res[1]), show(&res[2])));
        }
    }
    Ok(obs)
}

struct Subject {
    tx: Sender<Job>,
    rx: Receiver<Result<Obs, String>>,
}

impl Subject {
    fn spawn() -> Subject {
        let (tx, jrx) = channel::<Job>();
        let (otx, rx) = channel::<Result<Obs, String>>();
        std::thread::Builder::new()
            .name("c18-subject".into())
            .stack_size(64 << 20)
            .spawn(move || {
                while let Ok(job) = jrx.recv() {
                    let built = guarded(|| build_reasoner(&job.rules, &job.facts, &job.goals));
                    match built {
                        Ok((r, ids)) => {
                            for g in &job.goals {
                                if otx.send(ask(&r, &ids, g)).is_err() {
                                    return;
                                }
                            }
                        }
                        Err(e) => {
                            for _ in &job.goals {
                                if otx.send(Err(format!("building the reasoner panicked: {}", e))).is_err() {
                                    return;
                                }
                            }
                        }
                    }
                }
            })
            .expect("spawn subject thread");
        Subject { tx, rx }
    }
    /// Err(()) = hard timeout (the helper thread is lost; the shard must stop)
    fn run(&self, job: Job) -> Result<Vec<Result<Obs, String>>, ()> {
        let n = job.goals.len();
        self.tx.send(job).map_err(|_| ())?;
        let mut out = Vec::with_capacity(n);
        for _ in 0..n {
            match self.rx.recv_timeout(Duration::from_secs(HARD_TIMEOUT_S)) {
                Ok(o) => out.push(o),
                Err(RecvTimeoutError::Timeout) | Err(RecvTimeoutError::Disconnected) => return Err(()),
            }
        }
        Ok(out)
    }
}

// ---------------------------------------------------------------------------------------------
// oracle
// ---------------------------------------------------------------------------------------------
struct Verdict {
    symptom: &'static str,
    detail: String,
    /// structural facts about this verdict (computed differentially, never from a list of known bugs)
    extra_tags: Vec<String>,
}

/// What a goal is judged against: the least model of the program, the stage bound of the family, and
/// (for programs with filters) the least model of the same program with every filter deleted - only
/// used to tag an unsound answer as "explained by ignoring the filters".
struct Reference<'a> {
    model: &'a BTreeMap<Fact, usize>,
    stage_bound: usize,
    model_without_filters: Option<&'a BTreeMap<Fact, usize>>,
}

fn strip_filters(rules: &[Rule]) -> Vec<Rule> {
    rules.iter().map(|r| Rule { premise: r.premise.clone(), conclusion: r.conclusion.clone(), filters: vec![] }).collect()
}

fn has_filters(rules: &[Rule]) -> bool {
    rules.iter().any(|r| !r.filters.is_empty())
}

/// Judge one observation against the least model. `expected` = model facts matching the goal with
/// their stage (independent of the naming). `plain` = observation of the plain naming of the same
/// shape (None when this *is* the plain naming).
fn judge(obs: &Result<Obs, String>, rf: &Reference, expected: &[(Fact, usize)], plain: Option<&Result<Obs, String>>) -> Vec<Verdict> {
    let model = rf.model;
    let mut v = Vec::new();
    let obs = match obs {
        Ok(o) => o,
        Err(e) => {
            v.push(Verdict { symptom: "panic", detail: format!("backward_chaining panicked: {}", e), extra_tags: vec![] });
            return v;
        }
    };
    // soundness: every answer applied to the goal is a ground fact of the least model
    let unsound: Vec<&Fact> = obs.answers.iter().filter(|f| !model.contains_key(*f)).collect();
    if !unsound.is_empty() {
        let mut extra = Vec::new();
        if let Some(nf) = rf.model_without_filters {
            extra.push(if unsound.iter().all(|f| nf.contains_key(*f)) { "explained_by=filters_ignored".to_string() } else { "not_explained_by_ignoring_filters".to_string() });
        }
        v.push(Verdict { symptom: "unsound_answer", detail: format!("answers not in the least model: {:?}", unsound.iter().map(|f| dl::show_fact(f)).collect::<Vec<_>>()), extra_tags: extra });
    }
    if !obs.nonground.is_empty() {
        v.push(Verdict { symptom: "nonground_answer", detail: format!("answers applied to the goal are not ground: {:?}", obs.nonground), extra_tags: vec![] });
    }
    // completeness within the stage bound
    let missing: Vec<String> = expected.iter().filter(|(f, st)| *st <= rf.stage_bound && !obs.answers.contains(f)).map(|(f, st)| format!("{} (stage {})", dl::show_fact(f), st)).collect();
    if !missing.is_empty() {
        let shallowest = expected.iter().filter(|(f, st)| *st <= rf.stage_bound && !obs.answers.contains(f)).map(|x| x.1).min().unwrap_or(0);
        v.push(Verdict {
            symptom: "missing_answer",
            detail: format!("model facts matching the goal within stage {} not returned: {:?}; returned: {:?}", rf.stage_bound, missing, obs.answers.iter().map(dl::show_fact).collect::<Vec<_>>()),
            extra_tags: vec![if shallowest > STAGE_BOUND { format!("only_missing_beyond_stage_{}", STAGE_BOUND) } else { format!("missing_within_stage_{}", STAGE_BOUND) }],
        });
    }
    // whatever the variables are called: same answer set as the plain naming of the same goal
    if v.is_empty() {
        if let Some(Ok(p)) = plain {
            if p.answers != obs.answers {
                v.push(Verdict {
                    symptom: "renaming_changes_answers",
                    detail: format!(
                        "answer set differs from the one for the plain naming of the same goal: {:?} vs plain {:?}",
                        obs.answers.iter().map(dl::show_fact).collect::<Vec<_>>(),
                        p.answers.iter().map(dl::show_fact).collect::<Vec<_>>()
                    ),
                    extra_tags: vec![],
                });
            }
        }
    }
    v
}

fn expected_for(goal: &Atom, model: &BTreeMap<Fact, usize>) -> Vec<(Fact, usize)> {
    dl::matching(goal, model.keys()).into_iter().map(|(f, _)| { let st = model[&f]; (f, st) }).collect()
}

fn case_json(rules: &[Rule], facts: &[Fact], goal: &Atom) -> Value {
    json!({
        "rules": rules.iter().map(dl::show_rule).collect::<Vec<_>>(),
        "facts": facts.iter().map(dl::show_fact).collect::<Vec<_>>(),
        "goal": dl::show_atom(goal),
    })
}

/// case record of a batch with non-default bounds (replay reads them back)
fn case_json_b(rules: &[Rule], facts: &[Fact], goal: &Atom, bo: &BatchOpts) -> Value {
    let mut v = case_json(rules, facts, goal);
    if bo.stage_bound != STAGE_BOUND {
        v["stage_bound"] = json!(bo.stage_bound);
    }
    if bo.step_cap > STEP_CAP_THOROUGH {
        v["step_cap"] = json!(bo.step_cap);
    }
    v
}

/// Structural facts about a failing case (never derived from a list of known bugs).
fn tags_for(rules: &[Rule], goal: &Atom, plain_ok: Option<bool>) -> Vec<String> {
    let mut tags = Vec::new();
    let (sh, names) = shape_of(goal);
    if names.iter().any(|n| engine_like(n)) {
        tags.push("goal_var_named_v<n>".to_string());
    } else {
        tags.push("goal_vars_plain".to_string());
    }
    match plain_ok {
        Some(true) => tags.push("plain_naming_passes".to_string()),
        Some(false) => tags.push("plain_naming_fails".to_string()),
        None => {}
    }
    tags.push(format!("rules={}", rules.len()));
    tags.push(if is_recursive(rules) { "program_recursive".to_string() } else { "program_nonrecursive".to_string() });
    let nvarpos = sh.iter().filter(|p| matches!(p, Pos::Slot(_))).count();
    if nvarpos > names.len() {
        tags.push("goal_repeated_var".to_string());
    }
    if matches!(sh[1], Pos::Slot(_)) {
        tags.push("goal_var_predicate".to_string());
    }
    if names.is_empty() {
        tags.push("goal_ground".to_string());
    }
    if rules.iter().any(|r| r.premise.iter().chain(r.conclusion.iter()).any(|a| a[1].is_var())) {
        tags.push("rule_var_predicate".to_string());
    }
    tags.push(if has_filters(rules) { "rule_has_filter".to_string() } else { "rules_without_filter".to_string() });
    if rules.iter().any(|r| r.premise.len() >= 3) {
        tags.push("rule_3plus_premises".to_string());
    }
    tags
}

/// How one (program, fact set) batch is enumerated and judged.
struct BatchOpts<'a> {
    shapes: &'a [Shape],
    /// every injective naming over NAMES (else the fixed-plain-order subset)
    full_namings: bool,
    /// additionally the extended naming alphabet (NAMES_EXT + mixed pairs / triples)
    ext_namings: bool,
    /// of the base namings only the plain one (the reference of the renaming clause) is run
    base_plain_only: bool,
    step_cap: u64,
    stage_bound: usize,
    family: &'a str,
}

/// One (program, fact set) batch: every goal shape x naming. Returns false if the shard must stop.
fn run_batch(subject: &Subject, out: &mut ShardOut, rules: &[Rule], facts: &[Fact], bo: &BatchOpts, batch_key: u64) -> bool {
    let (shapes, step_cap, family) = (bo.shapes, bo.step_cap, bo.family);
    let fset: BTreeSet<Fact> = facts.iter().cloned().collect();
    let model = dl::least_model(&fset, rules);
    let filtered = has_filters(rules);
    let model_nf = if filtered { Some(dl::least_model(&fset, &strip_filters(rules))) } else { None };
    let rf = Reference { model: &model, stage_bound: bo.stage_bound, model_without_filters: model_nf.as_ref() };
    let max_stage = model.values().copied().max().unwrap_or(0);
    out.max("max_stage_in_a_model", max_stage as u64);
    let recursive = is_recursive(rules);
    out.count("batches", 1);
    out.count(&format!("batches_{}", family), 1);
    if recursive {
        out.count("batches_recursive_program", 1);
    }
    if model.len() > fset.len() {
        out.count("batches_with_derived_facts", 1);
    }
    if filtered {
        out.count("batches_with_filter_rules", 1);
        if model_nf.as_ref().map_or(false, |m| m.len() > model.len()) {
            // vacuity: some rule instance is really cut by a filter on this fact set
            out.count("batches_where_a_filter_cuts_a_derivation", 1);
        }
    }
    if rules.iter().any(|r| r.premise.len() >= 3) {
        out.count("batches_with_3_premise_rule", 1);
    }
    if rules.len() >= 3 {
        out.count("batches_with_3_rules", 1);
    }
    // which shapes are run
    let mut goals: Vec<Atom> = Vec::new();
    let mut index: Vec<(usize, usize)> = Vec::new(); // (shape index, naming index)
    let mut expected: HashMap<usize, Vec<(Fact, usize)>> = HashMap::new();
    for (si, sh) in shapes.iter().enumerate() {
        let nn = namings_ext(nslots(sh), bo.full_namings, bo.ext_namings, bo.base_plain_only);
        match SldCost::cost(rules, &fset, sh, step_cap) {
            Some(c) => {
                out.max("max_predicted_steps_of_an_executed_goal", c);
                out.max(&format!("max_predicted_steps_{}", family), c);
                out.count("predicted_steps_executed", c * nn.len() as u64);
                expected.insert(si, expected_for(&name_shape(sh, &nn[0]), &model));
                for (ni, n) in nn.iter().enumerate() {
                    goals.push(name_shape(sh, n));
                    index.push((si, ni));
                }
            }
            None => {
                out.count("skipped_shapes_over_step_cap", 1);
                out.count(&format!("skipped_shapes_over_step_cap_{}", family), 1);
                out.count("skipped_goals_over_step_cap", nn.len() as u64);
                if !recursive {
                    out.count("skipped_goals_nonrecursive_program", nn.len() as u64);
                }
            }
        }
    }
    if goals.is_empty() {
        return true;
    }
    let timeout_note = |what: &str, g: &Atom| format!("{}: a backward_chaining call exceeded the hard {} s limit although its predicted cost was under the step cap; shard stopped in batch {}", what, HARD_TIMEOUT_S, case_json(rules, facts, g));
    let obs = match subject.run(Job { rules: rules.to_vec(), facts: facts.to_vec(), goals: goals.clone() }) {
        Ok(o) => o,
        Err(()) => {
            out.capped.push(timeout_note("run", &goals[0]));
            return false;
        }
    };
    let mut batch_nontrivial = false;
    let mut plain_of_shape: HashMap<usize, usize> = HashMap::new();
    for (gi, (si, ni)) in index.iter().enumerate() {
        if *ni == 0 {
            plain_of_shape.insert(*si, gi);
        }
    }
    let mut failing: Vec<(usize, Vec<Verdict>)> = Vec::new();
    for (gi, goal) in goals.iter().enumerate() {
        let (si, ni) = index[gi];
        out.evaluations += 1;
        out.count(&format!("goals_{}", family), 1);
        let exp = &expected[&si];
        let plain_gi = plain_of_shape[&si];
        let plain = if ni == 0 { None } else { Some(&obs[plain_gi]) };
        let verdicts = judge(&obs[gi], &rf, exp, plain);
        if !exp.is_empty() {
            out.count("goals_with_expected_answers", 1);
        }
        let derived = exp.iter().filter(|(_, st)| *st >= 1).count();
        if derived > 0 {
            out.count("goals_with_derived_expected_answers", 1);
            batch_nontrivial = true;
            if recursive {
                out.count("goals_with_derived_answers_recursive_program", 1);
            }
        }
        let (_, gnames) = shape_of(goal);
        if gnames.iter().any(|n| NAMES_EXT.contains(&n.as_str())) {
            out.count("goals_with_extended_names", 1);
            if derived > 0 {
                out.count("goals_with_extended_names_and_derived_answers", 1);
            }
        }
        if ni == 0 {
            for (_, st) in exp {
                out.count(&format!("expected_answers_of_plain_goals_stage_{}", st), 1);
                if *st > STAGE_BOUND && *st <= bo.stage_bound {
                    out.count("expected_answers_demanded_beyond_stage_5", 1);
                }
            }
            if let (Some(nf), Ok(o)) = (&model_nf, &obs[gi]) {
                // vacuity of the filter family: goals for which ignoring the filters would add an answer
                let cut = dl::matching(goal, nf.keys()).into_iter().filter(|(f, _)| !model.contains_key(f)).count();
                if cut > 0 {
                    out.count("plain_goals_where_a_filter_cuts_an_answer", 1);
                    if o.answers.iter().all(|f| model.contains_key(f)) {
                        out.count("plain_goals_where_the_engine_respects_the_filter", 1);
                    }
                }
            }
        }
        if let Ok(o) = &obs[gi] {
            out.count("bindings_returned", o.raw as u64);
            if !o.answers.is_empty() {
                out.count("goals_with_returned_answers", 1);
            }
            out.outcome(&o.answers);
            if derived > 0 && (batch_key * 31 + gi as u64) % 4999 == 0 {
                out.sample(json!({"case": case_json_b(rules, facts, goal, bo), "family": family, "answers": o.answers.iter().map(dl::show_fact).collect::<Vec<_>>(), "bindings_returned": o.raw, "max_stage_of_model": max_stage}));
            }
        }
        if !verdicts.is_empty() {
            failing.push((gi, verdicts));
        }
    }
    if batch_nontrivial {
        out.nontrivial(&batch_key);
    }
    if failing.is_empty() {
        return true;
    }
    // determinism before verdict: re-execute the failing goals once more on a fresh reasoner
    let again = match subject.run(Job { rules: rules.to_vec(), facts: facts.to_vec(), goals: failing.iter().map(|(gi, _)| goals[*gi].clone()).collect() }) {
        Ok(a) => a,
        Err(()) => {
            out.capped.push(timeout_note("re-execution of failing goals", &goals[failing[0].0]));
            return false;
        }
    };
    for (k, (gi, verdicts)) in failing.into_iter().enumerate() {
        let goal = &goals[gi];
        if again[k] != obs[gi] {
            out.machinery_errors.push(format!("C18 observation not reproducible for {}: {:?} vs {:?}", case_json(rules, facts, goal), obs[gi], again[k]));
            continue;
        }
        let (si, ni) = index[gi];
        let plain_gi = plain_of_shape[&si];
        let plain_ok = if ni == 0 { None } else { Some(judge(&obs[plain_gi], &rf, &expected[&si], None).is_empty()) };
        for vd in verdicts {
            let mut tags = tags_for(rules, goal, plain_ok);
            tags.extend(vd.extra_tags.iter().cloned());
            out.fail(case_json_b(rules, facts, goal, bo), vd.symptom, vd.detail, tags);
        }
    }
    true
}

// ---------------------------------------------------------------------------------------------
// family "quoted": goals and rules with quoted-triple terms (RDF-star). No reference model: judged
// only by what the statement says about names - the answers must not depend on what the goal's
// variables are called - and by panic-freedom. Crosses the QuotedTriple arms of unify_terms,
// substitute_term, rename_term and first_free_variable_index::scan.
// ---------------------------------------------------------------------------------------------
#[derive(Clone, Debug, PartialEq, Eq)]
enum QT {
    C(String),
    V(String),
    Q(Box<[QT; 3]>),
}
type QAtom = [QT; 3];
type QRule = (Vec<QAtom>, Vec<QAtom>); // conclusions, premises

/// terms separated by white space; `<<` and `>>` are tokens of their own
fn q_term(tok: &[&str], i: &mut usize) -> QT {
    let t = tok[*i];
    *i += 1;
    if t == "<<" {
        let a = q_term(tok, i);
        let b = q_term(tok, i);
        let c = q_term(tok, i);
        assert_eq!(tok[*i], ">>", "quoted triple not closed");
        *i += 1;
        QT::Q(Box::new([a, b, c]))
    } else if let Some(v) = t.strip_prefix('?') {
        QT::V(v.to_string())
    } else {
        QT::C(t.to_string())
    }
}

fn q_atom(s: &str) -> QAtom {
    let tok: Vec<&str> = s.split_whitespace().collect();
    let mut i = 0;
    let a = [q_term(&tok, &mut i), q_term(&tok, &mut i), q_term(&tok, &mut i)];
    assert!(i == tok.len(), "trailing tokens in {:?}", s);
    a
}

fn q_rule(s: &str) -> QRule {
    let (h, b) = s.split_once(":-").unwrap_or_else(|| panic!("rule needs ':-': {:?}", s));
    (h.split(',').map(|a| q_atom(a.trim())).collect(), b.split(',').map(|a| q_atom(a.trim())).collect())
}

fn q_show(t: &QT) -> String {
    match t {
        QT::C(c) => c.clone(),
        QT::V(v) => format!("?{}", v),
        QT::Q(q) => format!("<< {} {} {} >>", q_show(&q[0]), q_show(&q[1]), q_show(&q[2])),
    }
}

fn q_show_atom(a: &QAtom) -> String {
    format!("{} {} {}", q_show(&a[0]), q_show(&a[1]), q_show(&a[2]))
}

/// variable names in first-occurrence order (depth first)
fn q_vars(a: &QAtom) -> Vec<String> {
    fn walk(t: &QT, out: &mut Vec<String>) {
        match t {
            QT::C(_) => {}
            QT::V(v) => {
                if !out.contains(v) {
                    out.push(v.clone());
                }
            }
            QT::Q(q) => q.iter().for_each(|x| walk(x, out)),
        }
    }
    let mut out = Vec::new();
    a.iter().for_each(|t| walk(t, &mut out));
    out
}

fn q_rename(t: &QT, from: &[String], to: &[&str]) -> QT {
    match t {
        QT::C(c) => QT::C(c.clone()),
        QT::V(v) => QT::V(from.iter().position(|n| n == v).map(|i| to[i].to_string()).unwrap_or_else(|| v.clone())),
        QT::Q(q) => QT::Q(Box::new([q_rename(&q[0], from, to), q_rename(&q[1], from, to), q_rename(&q[2], from, to)])),
    }
}

fn q_rename_atom(a: &QAtom, from: &[String], to: &[&str]) -> QAtom {
    [q_rename(&a[0], from, to), q_rename(&a[1], from, to), q_rename(&a[2], from, to)]
}

const Q_RULES: [&[&str]; 5] = [
    &["<< ?x p ?y >> q ?y :- ?x p ?y"],
    &["?x q << ?x p ?y >> :- ?x p ?y"],
    // second rule nests its own conclusions (bounded by the engine's depth limit)
    &["<< ?x p ?y >> q ?y :- ?x p ?y", "<< ?s q ?o >> q ?o :- ?s q ?o"],
    // written with engine-like variable names
    &["<< ?v0 p ?v1 >> q ?v1 :- ?v0 p ?v1"],
    &["<< ?v1 p ?v10 >> q << ?v10 p ?v1 >> :- ?v1 p ?v10"],
];
const Q_FACTS: [&[&str]; 4] = [&["a p b"], &["a p a"], &["a p b", "b p c"], &["a p b", "b p a", "c p b"]];
/// goal shapes, slots written ?0 ?1 ... Only LINEAR goals (no variable twice): unify_terms has no occurs
/// check, and a goal that repeats a variable across a quotation boundary (`?x q << ?X p ?x >>` against the
/// conclusion `<< ?x p ?y >> q ?y`) makes the engine build a cyclic binding and overflow the stack - the
/// worker process dies, which the statement of C18 does not speak about (observation in the report).
const Q_GOALS: [&str; 8] = [
    "<< ?0 p b >> q ?1",
    "<< ?0 p ?1 >> q ?2",
    "?0 q ?1",
    "<< ?0 ?1 ?2 >> ?3 b",
    "a q << a p ?0 >>",
    "?0 q << ?1 p ?2 >>",
    "<< << ?0 p ?1 >> q ?2 >> q ?3",
    "<< ?0 p ?1 >> q << ?2 p ?3 >>",
];
/// the plain naming is x, X, Y, Z in slot order; then names the engine generates (v10: multi-digit)
const Q_NAMES: [&str; 7] = ["x", "X", "Y", "Z", "v0", "v1", "v10"];

/// every injective naming of k slots over Q_NAMES, the plain one first
fn q_namings(k: usize) -> Vec<Vec<&'static str>> {
    let mut out: Vec<Vec<&'static str>> = vec![vec![]];
    for _ in 0..k {
        let mut next = Vec::new();
        for n in &out {
            for name in Q_NAMES.iter() {
                if !n.contains(name) {
                    let mut n2 = n.clone();
                    n2.push(*name);
                    next.push(n2);
                }
            }
        }
        out = next;
    }
    out
}

fn q_to_term(t: &QT, enc: &mut dyn FnMut(&str) -> u32) -> Term {
    match t {
        QT::C(c) => Term::Constant(enc(c)),
        QT::V(v) => Term::Variable(v.clone()),
        QT::Q(q) => Term::QuotedTriple(Box::new((q_to_term(&q[0], enc), q_to_term(&q[1], enc), q_to_term(&q[2], enc)))),
    }
}

/// answers of one goal: for every returned binding the values of the goal's variables in slot order,
/// resolved through the binding and rendered deeply (unbound goal variables by slot number, unbound
/// engine-internal variables as `?_`: their names are the engine's business)
fn q_ask(rules: &[QRule], facts: &[Fact], goal: &QAtom) -> Result<BTreeSet<Vec<String>>, String> {
    guarded(|| {
        let mut r = Reasoner::new();
        let mut names: HashMap<u32, String> = HashMap::new();
        for f in facts {
            r.add_abox_triple(&f[0], &f[1], &f[2]);
        }
        let dict = r.dictionary.clone();
        let mut enc = |s: &str| -> u32 {
            let i = dict.write().unwrap().encode(s);
            names.insert(i, s.to_string());
            i
        };
        for f in facts {
            for s in f {
                enc(s);
            }
        }
        let mut pat = |a: &QAtom, enc: &mut dyn FnMut(&str) -> u32| (q_to_term(&a[0], enc), q_to_term(&a[1], enc), q_to_term(&a[2], enc));
        for (concl, prem) in rules {
            let premise = prem.iter().map(|a| pat(a, &mut enc)).collect();
            let conclusion = concl.iter().map(|a| pat(a, &mut enc)).collect();
            r.add_rule(shared::rule::Rule { premise, negative_premise: vec![], filters: vec![], conclusion });
        }
        let pattern = pat(goal, &mut enc);
        let gvars = q_vars(goal);
        let results = r.backward_chaining(&pattern);
        fn deep(t: &Term, b: &HashMap<String, Term>, gvars: &[String], names: &HashMap<u32, String>) -> String {
            match resolve_term(t, b) {
                Term::Constant(c) => names.get(&c).cloned().unwrap_or_else(|| format!("<id {}>", c)),
                Term::Variable(v) => match gvars.iter().position(|n| *n == v) {
                    Some(i) => format!("?slot{}", i),
                    None => "?_".to_string(),
                },
                Term::QuotedTriple(q) => format!("<< {} {} {} >>", deep(&q.0, b, gvars, names), deep(&q.1, b, gvars, names), deep(&q.2, b, gvars, names)),
            }
        }
        results.iter().map(|b| gvars.iter().map(|v| deep(&Term::Variable(v.clone()), b, &gvars, &names)).collect()).collect()
    })
}

fn q_case_json(rules: &[&str], facts: &[Fact], goal: &QAtom) -> Value {
    json!({"family": "quoted", "rules": rules, "facts": facts.iter().map(dl::show_fact).collect::<Vec<_>>(), "goal": q_show_atom(goal)})
}

fn q_tags(goal: &QAtom) -> Vec<String> {
    let names = q_vars(goal);
    let mut tags = vec!["family=quoted".to_string(), "goal_has_quoted_triple_or_rule_has".to_string()];
    tags.push(if names.iter().any(|n| engine_like(n)) { "goal_var_named_v<n>".to_string() } else { "goal_vars_plain".to_string() });
    if goal.iter().any(|t| matches!(t, QT::Q(_))) {
        tags.push("goal_quoted_triple".to_string());
    }
    tags
}

/// judge one named goal against the plain naming of the same shape; pushes failures
fn q_judge(out: &mut ShardOut, rules_txt: &[&str], rules: &[QRule], facts: &[Fact], goal: &QAtom, obs: &Result<BTreeSet<Vec<String>>, String>, plain: Option<&Result<BTreeSet<Vec<String>>, String>>) {
    let mut verdicts: Vec<(&str, String)> = Vec::new();
    match obs {
        Err(p) => verdicts.push(("panic", format!("backward_chaining panicked: {}", p))),
        Ok(a) => {
            if let Some(Ok(pa)) = plain {
                if pa != a {
                    verdicts.push(("renaming_changes_answers", format!("answers (values of the goal's variables in slot order) differ from those for the plain naming of the same goal: {:?} vs plain {:?}", a, pa)));
                }
            }
        }
    }
    if verdicts.is_empty() {
        return;
    }
    // determinism before verdict
    let again = q_ask(rules, facts, goal);
    if again != *obs {
        out.machinery_errors.push(format!("C18 quoted observation not reproducible for {}: {:?} vs {:?}", q_case_json(rules_txt, facts, goal), obs, again));
        return;
    }
    for (sym, detail) in verdicts {
        out.fail(q_case_json(rules_txt, facts, goal), sym, detail, q_tags(goal));
    }
}

fn run_quoted(ctx: &Ctx, out: &mut ShardOut, idx: &mut u64) {
    for rules_txt in Q_RULES.iter() {
        let rules: Vec<QRule> = rules_txt.iter().map(|r| q_rule(r)).collect();
        for fs in Q_FACTS.iter() {
            *idx += 1;
            if !ctx.mine(*idx) {
                continue;
            }
            let facts: Vec<Fact> = fs.iter().map(|f| dl::fact(f)).collect();
            out.count("batches", 1);
            out.count("batches_quoted", 1);
            let mut nontrivial = false;
            for g in Q_GOALS.iter() {
                let shape = q_atom(g);
                let slots = q_vars(&shape);
                let mut plain: Option<Result<BTreeSet<Vec<String>>, String>> = None;
                for (ni, naming) in q_namings(slots.len()).iter().enumerate() {
                    let goal = q_rename_atom(&shape, &slots, naming);
                    if let Some(p) = &ctx.progress {
                        p.mark(&q_case_json(rules_txt, &facts, &goal).to_string());
                    }
                    let obs = q_ask(&rules, &facts, &goal);
                    out.evaluations += 1;
                    out.count("goals_quoted", 1);
                    if let Ok(a) = &obs {
                        out.outcome(a);
                        if !a.is_empty() {
                            out.count("goals_quoted_with_answers", 1);
                            nontrivial = true;
                            if a.iter().any(|row| row.iter().any(|v| v.starts_with("<<"))) {
                                out.count("goals_quoted_binding_a_variable_to_a_quoted_triple", 1);
                            }
                        }
                        if ni == 0 && !a.is_empty() && (*idx + g.len() as u64) % 7 == 0 {
                            out.sample(json!({"case": q_case_json(rules_txt, &facts, &goal), "family": "quoted", "answers": a}));
                        }
                    }
                    q_judge(out, rules_txt, &rules, &facts, &goal, &obs, plain.as_ref());
                    if ni == 0 {
                        plain = Some(obs);
                    }
                }
            }
            if nontrivial {
                out.nontrivial(&*idx);
            }
        }
    }
}

fn replay_quoted(case: &Value) -> ShardOut {
    let mut out = ShardOut::default();
    let strs = |k: &str| -> Vec<String> { case[k].as_array().map(|a| a.iter().filter_map(|v| v.as_str().map(|s| s.to_string())).collect()).unwrap_or_default() };
    let rules_s = strs("rules");
    let rules_txt: Vec<&str> = rules_s.iter().map(|s| s.as_str()).collect();
    let rules: Vec<QRule> = rules_txt.iter().map(|r| q_rule(r)).collect();
    let facts: Vec<Fact> = strs("facts").iter().map(|f| dl::fact(f)).collect();
    let goal = q_atom(case["goal"].as_str().unwrap_or("?x q ?X"));
    let slots = q_vars(&goal);
    let plain_goal = q_rename_atom(&goal, &slots, &Q_NAMES[..slots.len().min(4)]);
    let plain = q_ask(&rules, &facts, &plain_goal);
    let obs = q_ask(&rules, &facts, &goal);
    out.evaluations = 2;
    // the plain naming itself is judged for panics only
    q_judge(&mut out, &rules_txt, &rules, &facts, &goal, &obs, if plain_goal == goal { None } else { Some(&plain) });
    out
}

fn chain_facts(n: usize) -> Vec<Fact> {
    (0..n).map(|i| [format!("c{}", i), "p".to_string(), format!("c{}", i + 1)]).collect()
}

/// One entry of the enumeration plan of the "core" family
struct PlanEntry {
    program: Vec<usize>,
    fact_sets: Vec<Vec<usize>>,
    full_namings: bool,
    ext_namings: bool,
}

/// The enumeration plan of a tier in a fixed global order.
fn plan(thorough: bool) -> Vec<PlanEntry> {
    let curated3: Vec<Vec<usize>> = CURATED.iter().filter(|c| c.len() == 3).map(|c| c.to_vec()).collect();
    let curated4: Vec<Vec<usize>> = CURATED.iter().filter(|c| c.len() == 4).map(|c| c.to_vec()).collect();
    let mut l2c = fact_sets(2);
    l2c.extend(curated3.iter().cloned());
    l2c.extend(curated4.iter().cloned());
    let mut l3c = fact_sets(3);
    l3c.extend(curated4.iter().cloned());
    let l4 = fact_sets(4);
    let mut v = Vec::new();
    for i in 0..CORE.len() {
        v.push(PlanEntry { program: vec![i], fact_sets: if thorough { l4.clone() } else { l2c.clone() }, full_namings: thorough, ext_namings: false });
    }
    if thorough {
        for i in 0..CORE.len() {
            for j in 0..CORE.len() {
                if i != j {
                    let dense = THOROUGH_DENSE_PAIR_CORE.contains(&i) && THOROUGH_DENSE_PAIR_CORE.contains(&j);
                    v.push(PlanEntry { program: vec![i, j], fact_sets: if dense { l3c.clone() } else { l2c.clone() }, full_namings: dense, ext_namings: false });
                }
            }
        }
    } else {
        for &i in &QUICK_PAIR_CORE {
            for &j in &QUICK_PAIR_CORE {
                if i != j {
                    v.push(PlanEntry { program: vec![i, j], fact_sets: l2c.clone(), full_namings: false, ext_namings: false });
                }
            }
        }
    }
    v
}

/// fact sets of the "names" family (single rules under the extended naming alphabet): quick = the fact
/// sets of size <= 1 and the curated ones, thorough = size <= 2 and the curated ones
fn names_fact_sets(thorough: bool) -> Vec<Vec<usize>> {
    let mut l = fact_sets(if thorough { 2 } else { 1 });
    l.extend(CURATED.iter().map(|c| c.to_vec()));
    l
}

/// fact sets of the "shapes" family: quick = size <= 1 + curated (the curated sets hold the chains,
/// 2-cycles and self-loops that the 3-premise and the filter rules need), thorough = size <= 3 + curated 4-sets
fn shapes_fact_sets(thorough: bool) -> Vec<Vec<usize>> {
    let mut l = fact_sets(if thorough { 3 } else { 1 });
    l.extend(CURATED.iter().filter(|c| !thorough || c.len() == 4).map(|c| c.to_vec()));
    l
}

fn goal_shapes() -> Vec<Shape> {
    shapes(&["a", "c"], &["p", "q"], &["a", "c"])
}

fn run(ctx: &Ctx) -> ShardOut {
    let mut out = ShardOut::default();
    let subject = Subject::spawn();
    let thorough = ctx.thorough();
    let step_cap = if thorough { STEP_CAP_THOROUGH } else { STEP_CAP_QUICK };
    let core: Vec<Rule> = CORE.iter().map(|r| dl::rule(r)).collect();
    let universe: Vec<Fact> = FACT_UNIVERSE.iter().map(|f| dl::fact(f)).collect();
    let shp = goal_shapes();
    let plan = plan(thorough);
    let names_fs = names_fact_sets(thorough);
    let shapes_fs = shapes_fact_sets(thorough);
    out.count("max_programs", (plan.len() + EXTRA_PROGRAMS.len()) as u64);
    out.count("max_planned_batches", plan.iter().map(|p| p.fact_sets.len() as u64).sum::<u64>() + 12 + 6 + (Q_RULES.len() * Q_FACTS.len()) as u64 + (CORE.len() * names_fs.len()) as u64 + (EXTRA_PROGRAMS.len() * shapes_fs.len()) as u64);
    out.count("max_goal_shapes", shp.len() as u64);
    out.count("max_goals_per_batch", shp.iter().map(|s| namings(nslots(s), thorough).len() as u64).sum());
    out.count("max_goals_per_batch_with_extended_names", shp.iter().map(|s| namings_ext(nslots(s), false, true, true).len() as u64).sum());
    out.count("max_step_cap", step_cap);
    let mut idx = 0u64;

    // family "chain": deep derivations (stage up to 8) with linear recursion, cheap for the subject
    let chain_programs: [[usize; 2]; 4] = [[0, 12], [12, 0], [0, 13], [13, 0]];
    let chain_shapes = shapes(&["c0", "c2"], &["q"], &["c5", "c3"]);
    for len in [5usize, 6, 8] {
        for cp in &chain_programs {
            idx += 1;
            if !ctx.mine(idx) {
                continue;
            }
            let rules: Vec<Rule> = cp.iter().map(|i| core[*i].clone()).collect();
            let facts = chain_facts(len);
            if let Some(p) = &ctx.progress {
                p.mark(&case_json(&rules, &facts, &dl::atom("?x ?X ?Y")).to_string());
            }
            let bo = BatchOpts { shapes: &chain_shapes, full_namings: thorough, ext_namings: false, base_plain_only: false, step_cap, stage_bound: STAGE_BOUND, family: "chain" };
            if !run_batch(&subject, &mut out, &rules, &facts, &bo, idx) {
                return out;
            }
        }
    }

    // family "deep": the depth boundary. p-chains of 9, 10 and 11 edges under right-linear recursion
    // (cost O(length^2) per goal, no blow-up): q-facts of stage 9 are demanded (STAGE_BOUND_DEEP), those of
    // stage 10 and 11 are only checked for soundness. Goals over the chain ends c0/c2 and c9/c10/c11.
    let deep_programs: [[usize; 2]; 2] = [[0, 12], [12, 0]];
    let deep_shapes = shapes(&["c0", "c2"], &["q"], &["c9", "c10", "c11"]);
    for len in [9usize, 10, 11] {
        for cp in &deep_programs {
            idx += 1;
            if !ctx.mine(idx) {
                continue;
            }
            let rules: Vec<Rule> = cp.iter().map(|i| core[*i].clone()).collect();
            let facts = chain_facts(len);
            if let Some(p) = &ctx.progress {
                p.mark(&case_json(&rules, &facts, &dl::atom("?x ?X ?Y")).to_string());
            }
            let bo = BatchOpts { shapes: &deep_shapes, full_namings: thorough, ext_namings: true, base_plain_only: false, step_cap: STEP_CAP_DEEP, stage_bound: STAGE_BOUND_DEEP, family: "deep" };
            if !run_batch(&subject, &mut out, &rules, &facts, &bo, idx) {
                return out;
            }
        }
    }

    // family "quoted": quoted-triple goals and rules, judged by renaming invariance and panic-freedom
    run_quoted(ctx, &mut out, &mut idx);

    // family "names": every single rule of the core under the extended naming alphabet
    for pi in 0..CORE.len() {
        let rules = vec![core[pi].clone()];
        for fs in &names_fs {
            idx += 1;
            if !ctx.mine(idx) {
                continue;
            }
            if ctx.expired() {
                out.capped.push(format!("wall-clock cap: a shard stopped in family names at rule {} of {}; its earlier batches are complete", pi, CORE.len()));
                note_skips(&mut out);
                return out;
            }
            let facts: Vec<Fact> = fs.iter().map(|i| universe[*i].clone()).collect();
            if let Some(p) = &ctx.progress {
                p.mark(&case_json(&rules, &facts, &dl::atom("?x ?X ?Y")).to_string());
            }
            let bo = BatchOpts { shapes: &shp, full_namings: false, ext_namings: true, base_plain_only: true, step_cap, stage_bound: STAGE_BOUND, family: "names" };
            if !run_batch(&subject, &mut out, &rules, &facts, &bo, idx) {
                return out;
            }
        }
    }

    // family "shapes": programs outside the core (3 premises, ground conclusions, 3 rules, filters)
    for (pi, (prog, ext)) in EXTRA_PROGRAMS.iter().enumerate() {
        let rules: Vec<Rule> = prog.iter().map(|r| dl::rule(r)).collect();
        for fs in &shapes_fs {
            idx += 1;
            if !ctx.mine(idx) {
                continue;
            }
            if ctx.expired() {
                out.capped.push(format!("wall-clock cap: a shard stopped in family shapes at program {} of {}; its earlier batches are complete", pi, EXTRA_PROGRAMS.len()));
                note_skips(&mut out);
                return out;
            }
            let facts: Vec<Fact> = fs.iter().map(|i| universe[*i].clone()).collect();
            if let Some(p) = &ctx.progress {
                p.mark(&case_json(&rules, &facts, &dl::atom("?x ?X ?Y")).to_string());
            }
            let bo = BatchOpts { shapes: &shp, full_namings: thorough, ext_namings: *ext, base_plain_only: false, step_cap, stage_bound: STAGE_BOUND, family: "shapes" };
            if !run_batch(&subject, &mut out, &rules, &facts, &bo, idx) {
                return out;
            }
        }
    }

    // family "core": programs x fact sets
    for (pi, pe) in plan.iter().enumerate() {
        let rules: Vec<Rule> = pe.program.iter().map(|i| core[*i].clone()).collect();
        let fsets = &pe.fact_sets;
        for (fi, fs) in fsets.iter().enumerate() {
            idx += 1;
            if !ctx.mine(idx) {
                continue;
            }
            if ctx.expired() {
                out.capped.push(format!("wall-clock cap: a shard stopped at program {} of {} (fact set {} of {}); its earlier (program, fact set) batches are complete", pi, plan.len(), fi, fsets.len()));
                note_skips(&mut out);
                return out;
            }
            let facts: Vec<Fact> = fs.iter().map(|i| universe[*i].clone()).collect();
            if let Some(p) = &ctx.progress {
                p.mark(&case_json(&rules, &facts, &dl::atom("?x ?X ?Y")).to_string());
            }
            let bo = BatchOpts { shapes: &shp, full_namings: pe.full_namings, ext_namings: pe.ext_namings, base_plain_only: false, step_cap, stage_bound: STAGE_BOUND, family: "core" };
            if !run_batch(&subject, &mut out, &rules, &facts, &bo, idx) {
                return out;
            }
        }
    }
    note_skips(&mut out);
    out
}

/// A run that skipped goals is not exhaustive over the stated space: say so (same text in every shard).
fn note_skips(out: &mut ShardOut) {
    if out.counters.get("skipped_goals_over_step_cap").copied().unwrap_or(0) > 0 {
        out.capped.push("step cap: goal shapes whose predicted SLD cost exceeds the step cap were not executed (left/doubly recursive blow-ups); see counters skipped_goals_over_step_cap / skipped_shapes_over_step_cap; every other goal of the stated space was executed".into());
    }
}

fn replay(ctx: &Ctx, case: &Value) -> ShardOut {
    if case["family"].as_str() == Some("quoted") {
        return replay_quoted(case);
    }
    let mut out = ShardOut::default();
    let strs = |k: &str| -> Vec<String> { case[k].as_array().map(|a| a.iter().filter_map(|v| v.as_str().map(|s| s.to_string())).collect()).unwrap_or_default() };
    let rules: Vec<Rule> = strs("rules").iter().map(|r| dl::rule(r)).collect();
    let facts: Vec<Fact> = strs("facts").iter().map(|f| dl::fact(f)).collect();
    let goal = dl::atom(case["goal"].as_str().unwrap_or("?x ?X ?Y"));
    let (sh, names) = shape_of(&goal);
    let plain_goal = name_shape(&sh, &namings(names.len(), true)[0]);
    let fset: BTreeSet<Fact> = facts.iter().cloned().collect();
    let model = dl::least_model(&fset, &rules);
    let model_nf = if has_filters(&rules) { Some(dl::least_model(&fset, &strip_filters(&rules))) } else { None };
    // bounds recorded with the case (families with their own stage bound / step cap)
    let stage_bound = case["stage_bound"].as_u64().map(|x| x as usize).unwrap_or(STAGE_BOUND);
    let rf = Reference { model: &model, stage_bound, model_without_filters: model_nf.as_ref() };
    let cap = (if ctx.thorough() { STEP_CAP_THOROUGH } else { STEP_CAP_QUICK } * 10).max(case["step_cap"].as_u64().unwrap_or(0));
    if SldCost::cost(&rules, &fset, &sh, cap).is_none() {
        out.capped.push("replay: predicted cost above 10x the step cap, goal not executed".into());
        return out;
    }
    let subject = Subject::spawn();
    let obs = match subject.run(Job { rules: rules.clone(), facts: facts.clone(), goals: vec![plain_goal.clone(), goal.clone()] }) {
        Ok(o) => o,
        Err(()) => {
            out.capped.push("replay: hard time limit".into());
            return out;
        }
    };
    out.evaluations = 2;
    let expected = expected_for(&goal, &model);
    let is_plain = plain_goal == goal;
    let verdicts = judge(&obs[1], &rf, &expected, if is_plain { None } else { Some(&obs[0]) });
    let plain_ok = if is_plain { None } else { Some(judge(&obs[0], &rf, &expected, None).is_empty()) };
    let bo = BatchOpts { shapes: &[], full_namings: false, ext_namings: false, base_plain_only: false, step_cap: case["step_cap"].as_u64().unwrap_or(0), stage_bound, family: "replay" };
    for vd in verdicts {
        let mut tags = tags_for(&rules, &goal, plain_ok);
        tags.extend(vd.extra_tags.iter().cloned());
        out.fail(case_json_b(&rules, &facts, &goal, &bo), vd.symptom, vd.detail, tags);
    }
    out
}
