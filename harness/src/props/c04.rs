//! C04 — every read path of the store agrees with the set of quads written.
//! E-seq: explicit-state search over operation sequences on the real DatasetIndex /
//! SparqlDatabase, complete observation table against a set model in every state.
use crate::infra::{hash64, Ctx, PropDef, ShardOut};
use kolibrie::sparql_database::SparqlDatabase;
use serde_json::{json, Value};
use shared::dataset_index::{DatasetIndex, GraphId, Quad};
use shared::terms::Term;
use shared::triple::Triple;
use std::collections::{BTreeSet, HashSet, VecDeque};

pub const DEF: PropDef = PropDef {
    id: "C04",
    level: "model_checking",
    rule: "states = physical fingerprints (hook H3) of the real DatasetIndex reached by op sequences over 12 quads, in two term universes (s,o in {1,2} with p=1; p in {1,5}, o in {1,2} with s=1), g in {Default,N7,N8} + graph create/clear/drop + clear + rebuild + facade aliases; in every state the complete observation table (all lookup shapes x graphs, named/merged/quads/membership/listing, QueryBuilder) is compared with a BTreeSet model; non-trivial = state with >=2 quads in >=2 graphs or an empty named graph; distinct = distinct physical fingerprints",
    assumptions: &[
        "two term universes of 12 quads each: (s,o in {1,2}, p=1) and (s=1, p in {1,5}, o in {1,2}); graphs Default,N7,N8 (+absent ids 3,N9 in lookups)",
        "reference model: BTreeSet of quads + BTreeSet catalog (harness/src/props/c04.rs)",
        "fingerprint de-duplication is sound because the H3 fingerprint dumps the complete private state",
    ],
    run,
    replay,
    cap_s: (50, 900),
    shards: 0,
};

const GRAPHS: [GraphId; 3] = [GraphId::Default, GraphId::Named(7), GraphId::Named(8)];

/// Two term universes of the same size (12 quads): universe 0 varies subject and object under one
/// predicate, universe 1 varies predicate and object under one subject, so that every nested
/// index (gspo, gpos, gosp, spog) sees more than one key at every level in one of them.
static UNIVERSE: std::sync::atomic::AtomicUsize = std::sync::atomic::AtomicUsize::new(0);

fn set_universe(u: usize) {
    UNIVERSE.store(u, std::sync::atomic::Ordering::SeqCst);
}

/// the triple denoted by the op coordinates (a, b)
fn spo(a: u32, b: u32) -> (u32, u32, u32) {
    if UNIVERSE.load(std::sync::atomic::Ordering::SeqCst) == 0 {
        (a, 1, b)
    } else {
        (1, if a == 1 { 1 } else { 5 }, b)
    }
}

#[derive(Clone, Debug, PartialEq, Eq, Hash)]
pub enum Op {
    Insert(u32, u32, usize),
    Delete(u32, u32, usize),
    Create(usize),
    ClearGraph(usize),
    Drop(usize),
    Clear,
    Rebuild,
    // facade aliases on SparqlDatabase / DatasetIndex
    FacadeAddTriple(u32, u32),
    FacadeDeleteTriple(u32, u32),
    FacadeAddQuad(u32, u32, usize),
    FacadeDeleteQuad(u32, u32, usize),
    AliasInsert(u32, u32),
    AliasDelete(u32, u32),
}

pub fn alphabet(full: bool) -> Vec<Op> {
    let mut v = Vec::new();
    for g in 0..3 {
        for s in 1..=2 {
            for o in 1..=2 {
                v.push(Op::Insert(s, o, g));
            }
        }
    }
    for g in 0..3 {
        for s in 1..=2 {
            for o in 1..=2 {
                v.push(Op::Delete(s, o, g));
            }
        }
    }
    for g in 0..3 {
        v.push(Op::Create(g));
    }
    for g in 0..3 {
        v.push(Op::ClearGraph(g));
    }
    for g in 0..3 {
        v.push(Op::Drop(g));
    }
    v.push(Op::Clear);
    v.push(Op::Rebuild);
    if full {
        v.push(Op::FacadeAddTriple(1, 2));
        v.push(Op::FacadeDeleteTriple(1, 2));
        v.push(Op::FacadeAddQuad(2, 1, 1));
        v.push(Op::FacadeDeleteQuad(2, 1, 1));
        v.push(Op::AliasInsert(2, 2));
        v.push(Op::AliasDelete(2, 2));
    }
    v
}

fn op_json(op: &Op) -> Value {
    json!(format!("{:?}", op))
}

fn parse_op(s: &str) -> Option<Op> {
    alphabet(true).into_iter().find(|o| format!("{:?}", o) == s)
}

#[derive(Clone, Default, PartialEq, Eq, Hash, Debug)]
pub struct Model {
    quads: BTreeSet<(u32, u32, u32, GraphId)>,
    catalog: BTreeSet<u32>,
}

fn gname(g: GraphId) -> Option<u32> {
    match g {
        GraphId::Default => None,
        GraphId::Named(n) => Some(n),
    }
}

impl Model {
    /// returns the value the mutator must return (None = unit)
    fn apply(&mut self, op: &Op) -> Option<bool> {
        match *op {
            Op::Insert(s, o, g) | Op::FacadeAddQuad(s, o, g) => {
                let g = GRAPHS[g];
                if let Some(n) = gname(g) {
                    self.catalog.insert(n);
                }
                {
                    let t = spo(s, o);
                    Some(self.quads.insert((t.0, t.1, t.2, g)))
                }
            }
            Op::Delete(s, o, g) | Op::FacadeDeleteQuad(s, o, g) => {
                let t = spo(s, o);
                Some(self.quads.remove(&(t.0, t.1, t.2, GRAPHS[g])))
            }
            Op::Create(g) => match gname(GRAPHS[g]) {
                None => Some(false),
                Some(n) => Some(self.catalog.insert(n)),
            },
            Op::ClearGraph(g) => {
                let g = GRAPHS[g];
                self.quads.retain(|q| q.3 != g);
                None
            }
            Op::Drop(g) => {
                let g = GRAPHS[g];
                match gname(g) {
                    None => {
                        self.quads.retain(|q| q.3 != g);
                        Some(true)
                    }
                    Some(n) => {
                        let existed = self.catalog.remove(&n);
                        self.quads.retain(|q| q.3 != g);
                        Some(existed)
                    }
                }
            }
            Op::Clear => {
                self.quads.clear();
                self.catalog.clear();
                None
            }
            Op::Rebuild => None,
            Op::FacadeAddTriple(s, o) => {
                let t = spo(s, o);
                self.quads.insert((t.0, t.1, t.2, GraphId::Default));
                None
            }
            Op::AliasInsert(s, o) => {
                let t = spo(s, o);
                Some(self.quads.insert((t.0, t.1, t.2, GraphId::Default)))
            }
            Op::FacadeDeleteTriple(s, o) | Op::AliasDelete(s, o) => {
                let t = spo(s, o);
                Some(self.quads.remove(&(t.0, t.1, t.2, GraphId::Default)))
            }
        }
    }
}

fn fresh_db() -> SparqlDatabase {
    let db = SparqlDatabase::new();
    {
        let mut d = db.dictionary.write().unwrap();
        // ids are handed out in order: make id k decode to "t<k>" for k = 0..9
        for k in 0..10 {
            d.encode(&format!("t{}", k));
        }
    }
    db
}

fn apply_real(db: &mut SparqlDatabase, op: &Op) -> Option<bool> {
    let q = |s: u32, o: u32, g: usize| {
        let t = spo(s, o);
        Quad { subject: t.0, predicate: t.1, object: t.2, graph: GRAPHS[g] }
    };
    let tr = |s: u32, o: u32| {
        let t = spo(s, o);
        Triple { subject: t.0, predicate: t.1, object: t.2 }
    };
    match *op {
        Op::Insert(s, o, g) => Some(db.dataset_index.insert_quad(&q(s, o, g))),
        Op::Delete(s, o, g) => Some(db.dataset_index.delete_quad(&q(s, o, g))),
        Op::Create(g) => Some(db.dataset_index.create_graph(GRAPHS[g])),
        Op::ClearGraph(g) => {
            db.dataset_index.clear_graph(GRAPHS[g]);
            None
        }
        Op::Drop(g) => Some(db.dataset_index.drop_graph(GRAPHS[g])),
        Op::Clear => {
            db.dataset_index.clear();
            None
        }
        Op::Rebuild => {
            db.build_all_indexes();
            None
        }
        Op::FacadeAddTriple(s, o) => {
            db.add_triple(tr(s, o));
            None
        }
        Op::FacadeDeleteTriple(s, o) => Some(db.delete_triple(&tr(s, o))),
        Op::FacadeAddQuad(s, o, g) => Some(db.add_quad(q(s, o, g))),
        Op::FacadeDeleteQuad(s, o, g) => Some(db.delete_quad(&q(s, o, g))),
        Op::AliasInsert(s, o) => Some(db.dataset_index.insert(&tr(s, o))),
        Op::AliasDelete(s, o) => Some(db.dataset_index.delete(&tr(s, o))),
    }
}

fn sorted_quads(v: Vec<Quad>) -> Vec<(u32, u32, u32, GraphId)> {
    let mut r: Vec<_> = v.into_iter().map(|q| (q.subject, q.predicate, q.object, q.graph)).collect();
    r.sort();
    r
}
fn sorted_triples(v: Vec<Triple>) -> Vec<(u32, u32, u32)> {
    let mut r: Vec<_> = v.into_iter().map(|t| (t.subject, t.predicate, t.object)).collect();
    r.sort();
    r
}

/// Complete observation table. Returns the first disagreement.
pub fn observe(db: &SparqlDatabase, m: &Model) -> Result<u64, String> {
    let idx: &DatasetIndex = &db.dataset_index;
    let mut lookups = 0u64;
    let svals = [None, Some(1u32), Some(2), Some(3)];
    let pvals = [None, Some(1u32), Some(5)];
    let ovals = [None, Some(1u32), Some(2), Some(3)];
    let all_graphs = [GraphId::Default, GraphId::Named(7), GraphId::Named(8), GraphId::Named(9)];
    let matches = |q: &(u32, u32, u32, GraphId), s: Option<u32>, p: Option<u32>, o: Option<u32>| s.map_or(true, |x| x == q.0) && p.map_or(true, |x| x == q.1) && o.map_or(true, |x| x == q.2);
    let visible_sets: Vec<Option<HashSet<GraphId>>> = vec![
        None,
        Some(HashSet::new()),
        Some([GraphId::Named(7)].into_iter().collect()),
        Some([GraphId::Named(8)].into_iter().collect()),
        Some([GraphId::Named(7), GraphId::Named(8)].into_iter().collect()),
        Some([GraphId::Default, GraphId::Named(8), GraphId::Named(9)].into_iter().collect()),
    ];
    for &s in &svals {
        for &p in &pvals {
            for &o in &ovals {
                for &g in &all_graphs {
                    let got = sorted_quads(idx.query_graph(g, s, p, o));
                    let exp: Vec<_> = m.quads.iter().filter(|q| q.3 == g && matches(q, s, p, o)).cloned().collect();
                    lookups += 1;
                    if got != exp {
                        return Err(format!("query_graph({:?},{:?},{:?},{:?}) = {:?}, expected {:?}", g, s, p, o, got, exp));
                    }
                    let got = sorted_quads(idx.query_quads(s, p, o, Some(g)));
                    lookups += 1;
                    if got != exp {
                        return Err(format!("query_quads({:?},{:?},{:?},Some({:?})) = {:?}, expected {:?}", s, p, o, g, got, exp));
                    }
                    let got = sorted_quads(db.query_graph_quads(g, s, p, o));
                    lookups += 1;
                    if got != exp {
                        return Err(format!("query_graph_quads({:?},..) = {:?}, expected {:?}", g, got, exp));
                    }
                }
                // default graph aliases
                let expd: Vec<(u32, u32, u32)> = m.quads.iter().filter(|q| q.3 == GraphId::Default && matches(q, s, p, o)).map(|q| (q.0, q.1, q.2)).collect();
                for (name, got) in [
                    ("query_default", sorted_triples(idx.query_default(s, p, o))),
                    ("query", sorted_triples(idx.query(s, p, o))),
                    ("query_default_triples", sorted_triples(db.query_default_triples(s, p, o))),
                ] {
                    lookups += 1;
                    if got != expd {
                        return Err(format!("{}({:?},{:?},{:?}) = {:?}, expected {:?}", name, s, p, o, got, expd));
                    }
                }
                let pat = (
                    s.map_or(Term::Variable("s".into()), Term::Constant),
                    p.map_or(Term::Variable("p".into()), Term::Constant),
                    o.map_or(Term::Variable("o".into()), Term::Constant),
                );
                let got = sorted_triples(idx.get_matching_triples(&pat));
                lookups += 1;
                if got != expd {
                    return Err(format!("get_matching_triples({:?}) = {:?}, expected {:?}", pat, got, expd));
                }
                // named graphs
                for vis in &visible_sets {
                    let got = sorted_quads(idx.query_named_graphs(s, p, o, vis.as_ref()));
                    let exp: Vec<_> = m
                        .quads
                        .iter()
                        .filter(|q| q.3 != GraphId::Default && matches(q, s, p, o) && vis.as_ref().map_or(true, |v| v.contains(&q.3)))
                        .cloned()
                        .collect();
                    lookups += 1;
                    if got != exp {
                        return Err(format!("query_named_graphs({:?},{:?},{:?},{:?}) = {:?}, expected {:?}", s, p, o, vis, got, exp));
                    }
                }
                // all graphs
                let got = sorted_quads(idx.query_quads(s, p, o, None));
                let exp: Vec<_> = m.quads.iter().filter(|q| matches(q, s, p, o)).cloned().collect();
                lookups += 1;
                if got != exp {
                    return Err(format!("query_quads({:?},{:?},{:?},None) = {:?}, expected {:?}", s, p, o, got, exp));
                }
                // merged graphs: every ordered source list of length <= 2
                let mut lists: Vec<Vec<GraphId>> = vec![vec![]];
                for &a in &GRAPHS {
                    lists.push(vec![a]);
                    for &b in &GRAPHS {
                        lists.push(vec![a, b]);
                    }
                }
                lists.push(vec![GraphId::Named(9), GraphId::Named(7)]);
                for l in &lists {
                    let got = sorted_triples(idx.query_merged_graphs(l, s, p, o));
                    let exp: BTreeSet<(u32, u32, u32)> = m.quads.iter().filter(|q| l.contains(&q.3) && matches(q, s, p, o)).map(|q| (q.0, q.1, q.2)).collect();
                    let exp: Vec<_> = exp.into_iter().collect();
                    lookups += 1;
                    if got != exp {
                        return Err(format!("query_merged_graphs({:?},{:?},{:?},{:?}) = {:?}, expected {:?}", l, s, p, o, got, exp));
                    }
                }
            }
        }
    }
    // membership
    for s in 1..=3u32 {
      for p in [1u32, 5] {
        for o in 1..=3u32 {
            for &g in &all_graphs {
                let q = Quad { subject: s, predicate: p, object: o, graph: g };
                lookups += 1;
                if idx.contains_quad(&q) != m.quads.contains(&(s, p, o, g)) {
                    return Err(format!("contains_quad({:?}) = {}, model says {}", q, idx.contains_quad(&q), m.quads.contains(&(s, p, o, g))));
                }
            }
            let t = Triple { subject: s, predicate: p, object: o };
            let mut got = idx.graphs_for_triple(&t);
            got.sort();
            let exp: Vec<GraphId> = m.quads.iter().filter(|q| q.0 == s && q.1 == p && q.2 == o).map(|q| q.3).collect::<BTreeSet<_>>().into_iter().collect();
            lookups += 1;
            if got != exp {
                return Err(format!("graphs_for_triple({:?}) = {:?}, expected {:?}", t, got, exp));
            }
        }
      }
    }
    // snapshots and listing
    let got = sorted_quads(idx.all_quads());
    let exp: Vec<_> = m.quads.iter().cloned().collect();
    lookups += 1;
    if got != exp {
        return Err(format!("all_quads = {:?}, expected {:?}", got, exp));
    }
    let mut got = idx.named_graphs();
    got.sort();
    let exp: Vec<GraphId> = m.catalog.iter().map(|n| GraphId::Named(*n)).collect();
    lookups += 1;
    if got != exp {
        return Err(format!("named_graphs = {:?}, expected {:?}", got, exp));
    }
    let mut got = idx.graphs();
    got.sort();
    let mut exp2 = vec![GraphId::Default];
    exp2.extend(exp.iter().cloned());
    lookups += 1;
    if got != exp2 {
        return Err(format!("graphs = {:?}, expected {:?}", got, exp2));
    }
    for &g in &all_graphs {
        let e = match g {
            GraphId::Default => true,
            GraphId::Named(n) => m.catalog.contains(&n),
        };
        lookups += 2;
        if idx.graph_exists(g) != e {
            return Err(format!("graph_exists({:?}) = {}, expected {}", g, idx.graph_exists(g), e));
        }
        let n = m.quads.iter().filter(|q| q.3 == g).count();
        if idx.len_graph(g) != n {
            return Err(format!("len_graph({:?}) = {}, expected {}", g, idx.len_graph(g), n));
        }
    }
    if idx.len_default() != m.quads.iter().filter(|q| q.3 == GraphId::Default).count() {
        return Err("len_default disagrees".into());
    }
    // QueryBuilder (default graph, lexical filters through the dictionary)
    let name = |k: u32| db.decode_any(k).unwrap_or_else(|| format!("<no-term-{}>", k));
    for s in 1..=2u32 {
        let got: Vec<(u32, u32, u32)> = db.query().with_subject(&name(s)).get_triples().into_iter().map(|t| (t.subject, t.predicate, t.object)).collect();
        let exp: Vec<(u32, u32, u32)> = m.quads.iter().filter(|q| q.3 == GraphId::Default && q.0 == s).map(|q| (q.0, q.1, q.2)).collect();
        lookups += 1;
        if got != exp {
            return Err(format!("QueryBuilder.with_subject(t{}) = {:?}, expected {:?}", s, got, exp));
        }
        let got: Vec<(u32, u32, u32)> = db.query().with_predicate(&name(1)).with_object(&name(s)).get_triples().into_iter().map(|t| (t.subject, t.predicate, t.object)).collect();
        let exp: Vec<(u32, u32, u32)> = m.quads.iter().filter(|q| q.3 == GraphId::Default && q.1 == 1 && q.2 == s).map(|q| (q.0, q.1, q.2)).collect();
        lookups += 1;
        if got != exp {
            return Err(format!("QueryBuilder.with_object(t{}) = {:?}, expected {:?}", s, got, exp));
        }
    }
    let n = db.query().count();
    if n != m.quads.iter().filter(|q| q.3 == GraphId::Default).count() {
        return Err(format!("QueryBuilder.count = {}", n));
    }
    Ok(lookups)
}

fn nontrivial(m: &Model) -> bool {
    let graphs: BTreeSet<_> = m.quads.iter().map(|q| q.3).collect();
    (m.quads.len() >= 2 && graphs.len() >= 2) || m.catalog.iter().any(|n| !m.quads.iter().any(|q| q.3 == GraphId::Named(*n)))
}

/// Execute one op sequence from the empty store, checking return values and the full
/// observation table after every step. Returns Err((step, message)).
fn run_sequence(ops: &[Op]) -> Result<(SparqlDatabase, Model, u64), (usize, String)> {
    let mut db = fresh_db();
    let mut m = Model::default();
    let mut lookups = 0;
    for (i, op) in ops.iter().enumerate() {
        let exp = m.apply(op);
        let got = apply_real(&mut db, op);
        if got != exp {
            return Err((i, format!("{:?} returned {:?}, model says {:?}", op, got, exp)));
        }
        match observe(&db, &m) {
            Ok(n) => lookups += n,
            Err(e) => return Err((i, format!("after {:?}: {}", op, e))),
        }
    }
    Ok((db, m, lookups))
}

fn fail_seq(out: &mut ShardOut, ops: &[Op], step: usize, msg: String) {
    let upto: Vec<Value> = ops[..=step].iter().map(op_json).collect();
    let mut tags = vec![format!("last_op={}", format!("{:?}", ops[step]).split('(').next().unwrap_or(""))];
    if ops[..=step].iter().any(|o| matches!(o, Op::Rebuild)) {
        tags.push("uses_rebuild".into());
    }
    tags.push(format!("universe={}", UNIVERSE.load(std::sync::atomic::Ordering::SeqCst)));
    out.fail(json!({"ops": upto, "universe": UNIVERSE.load(std::sync::atomic::Ordering::SeqCst)}), "read_path_disagrees_with_model", msg, std::mem::take(&mut tags));
}

/// apply the last op of `ops` to (db, m); check the return value and (if `observe_it`) the table
fn step_and_check(db: &mut SparqlDatabase, m: &mut Model, ops: &[Op], observe_it: bool, out: &mut ShardOut) -> bool {
    let op = ops.last().unwrap();
    let exp = m.apply(op);
    let got = apply_real(db, op);
    if got != exp {
        if observe_it {
            fail_seq(out, ops, ops.len() - 1, format!("{:?} returned {:?}, model says {:?}", op, got, exp));
        }
        return false;
    }
    if observe_it {
        out.evaluations += 1;
        out.traces += 1;
        out.count("tree_nodes", 1);
        match observe(db, m) {
            Ok(l) => out.count("tree_lookups", l),
            Err(e) => {
                fail_seq(out, ops, ops.len() - 1, format!("after {:?}: {}", op, e));
                return false;
            }
        }
        if nontrivial(m) {
            out.count("tree_nontrivial_nodes", 1);
        }
    }
    true
}

fn dfs(db: &SparqlDatabase, m: &Model, ops: &mut Vec<Op>, depth: usize, alpha: &[Op], out: &mut ShardOut, ctx: &Ctx) {
    if ops.len() >= depth {
        return;
    }
    if ctx.expired() {
        if out.capped.is_empty() {
            out.capped.push("wall-clock cap hit during tree search".into());
        }
        return;
    }
    for op in alpha {
        let mut db2 = db.clone();
        let mut m2 = m.clone();
        ops.push(op.clone());
        if step_and_check(&mut db2, &mut m2, ops, true, out) {
            dfs(&db2, &m2, ops, depth, alpha, out, ctx);
        }
        ops.pop();
    }
}

fn run(ctx: &Ctx) -> ShardOut {
    set_universe(0);
    let mut out = run_one(ctx, 0);
    set_universe(1);
    out.merge(run_one(ctx, 1 % ctx.nshards));
    set_universe(0);
    out
}

fn run_one(ctx: &Ctx, bfs_shard: usize) -> ShardOut {
    let mut out = ShardOut::default();
    let full = alphabet(true);
    let core = alphabet(false);

    // Part 1: plain tree search (no de-duplication at all) over the core alphabet from the
    // empty store: depth-first, every node = one op sequence, observed once. Sharded by the
    // first two ops.
    {
        let depth = if ctx.thorough() { 4 } else { 3 };
        let n = core.len();
        let mut idx = 0u64;
        for a in 0..n {
            for b in 0..n {
                idx += 1;
                if !ctx.mine(idx) {
                    continue;
                }
                let mut db = fresh_db();
                let mut m = Model::default();
                let mut ops = vec![core[a].clone()];
                // the depth-1 node is observed by the shard owning (a, 0)
                let first_ok = step_and_check(&mut db, &mut m, &ops, b == 0, &mut out);
                if !first_ok {
                    continue;
                }
                ops.push(core[b].clone());
                if !step_and_check(&mut db, &mut m, &ops, true, &mut out) {
                    continue;
                }
                dfs(&db, &m, &mut ops, depth, &core, &mut out, ctx);
            }
        }
        out.count("max_tree_depth", depth as u64);
    }

    // Part 2: breadth-first search with de-duplication on the physical fingerprint.
    if ctx.shard != bfs_shard {
        return out;
    }
    let max_depth: u64 = 64;
    // physical fingerprint -> hash of the abstract model that was fully observed against it
    let mut seen: std::collections::HashMap<u64, u64> = std::collections::HashMap::new();
    let mut abstract_seen: HashSet<u64> = HashSet::new();
    let mut frontier: VecDeque<(SparqlDatabase, Model, Vec<u16>)> = VecDeque::new();
    let db0 = fresh_db();
    seen.insert(hash64(&db0.dataset_index.verif_fingerprint()), hash64(&Model::default()));
    frontier.push_back((db0, Model::default(), vec![]));
    out.states = 1;
    let mut closed = true;
    'bfs: while let Some((db, m, path)) = frontier.pop_front() {
        if path.len() as u64 >= max_depth {
            closed = false;
            continue;
        }
        for (oi, op) in full.iter().enumerate() {
            if ctx.expired() {
                out.capped.push(format!("wall-clock cap hit during BFS at depth {}", path.len()));
                closed = false;
                break 'bfs;
            }
            let mut db2 = db.clone();
            // clone() shares the dictionary Arc, which is never written here
            let mut m2 = m.clone();
            let exp = m2.apply(op);
            let got = apply_real(&mut db2, op);
            out.transitions += 1;
            out.evaluations += 1;
            let mut p2 = path.clone();
            p2.push(oi as u16);
            let ops: Vec<Op> = p2.iter().map(|i| full[*i as usize].clone()).collect();
            if got != exp {
                fail_seq(&mut out, &ops, ops.len() - 1, format!("{:?} returned {:?}, model says {:?}", op, got, exp));
                continue;
            }
            let fp = hash64(&db2.dataset_index.verif_fingerprint());
            if let Some(validated) = seen.get(&fp) {
                // This physical state was observed completely (all_quads, catalog, every lookup
                // shape) against the model stored with it, so it denotes exactly that model. A
                // transition that lands on it with a different expected model produced a wrong
                // state (e.g. a rebuild dropping an empty graph, a delete removing a sibling key).
                out.count("dedup_hits", 1);
                if *validated != hash64(&m2) {
                    let detail = match observe(&db2, &m2) {
                        Err(e) => e,
                        Ok(_) => "physical state already validated against a different abstract model".to_string(),
                    };
                    fail_seq(&mut out, &ops, ops.len() - 1, format!("after {:?}: {}", op, detail));
                }
                continue;
            }
            seen.insert(fp, hash64(&m2));
            match observe(&db2, &m2) {
                Ok(l) => out.count("bfs_lookups", l),
                Err(e) => {
                    fail_seq(&mut out, &ops, ops.len() - 1, format!("after {:?}: {}", op, e));
                    continue;
                }
            }
            out.states += 1;
            out.traces += 1;
            out.max_depth = out.max_depth.max(p2.len() as u64);
            abstract_seen.insert(hash64(&m2));
            if nontrivial(&m2) {
                out.nontrivial.insert(fp);
            }
            out.outcome(&m2);
            if out.states % 1500 == 7 {
                out.sample(json!({"ops": ops.iter().map(op_json).collect::<Vec<_>>(), "model_quads": m2.quads.len(), "catalog": m2.catalog}));
            }
            frontier.push_back((db2, m2, p2));
        }
    }
    out.count("abstract_states", abstract_seen.len() as u64);
    out.count("physical_states", seen.len() as u64);
    out.count("bfs_closed_reachable_set", closed as u64);
    if !closed && ctx.thorough() && out.capped.is_empty() {
        out.capped.push(format!("BFS depth bound {} reached before closure", max_depth));
    }
    out
}

fn replay(_ctx: &Ctx, case: &Value) -> ShardOut {
    let mut out = ShardOut::default();
    set_universe(case["universe"].as_u64().unwrap_or(0) as usize);
    let ops: Vec<Op> = case["ops"].as_array().map(|a| a.iter().filter_map(|v| v.as_str().and_then(parse_op)).collect()).unwrap_or_default();
    out.evaluations = 1;
    if let Err((step, msg)) = run_sequence(&ops) {
        fail_seq(&mut out, &ops, step, msg);
    }
    out
}
